(* Correspondence obligations for C06: the lexer and parser models on the byte strings the implementation ran.
   A case holds the input, the oracle tables observed on it (unicode.IsLetter on its non-ASCII runes,
   strconv.ParseFloat on its float tokens, regexp.Compile on its regexp tokens) and what the implementation did:
   the token stream of the lexer (hook types.VerifTokens: kind, unescaped text, reader line and column after each
   token, and how the stream ended) and the outcome of types.Parse (class, line, column, and the value). *)
From Coq Require Import ZArith NArith Bool List.
From PcoreV Require Import Model.Base Model.Lexer Model.Parser Model.Resolve Model.ResolveObj Model.ResolveHier.
From PcoreV Require Model.ResolveAlias.
Import ListNotations.
Open Scope Z_scope.

Record c06case := mkCase {
  cc_input : str;
  cc_letters : list N;                      (* non-ASCII runes of the input for which unicode.IsLetter holds *)
  cc_floats : list (str * option Z);        (* float token text -> bits / error *)
  cc_regexps : list (str * bool);           (* regexp token text -> compiles *)
  cc_tokens : list (nat * str * Z * Z);     (* kind, text, line, column *)
  cc_lexend : nat * Z * Z;                  (* 0 end token | 1 error at line, column | 2 runtime fault *)
  cc_result : nat * Z * Z;                  (* 0 value | 1 PARSE_ERROR at line, column | 2 runtime fault, raw or wrapped
                                               | 3 anything else (timeout, other panic) *)
  cc_value : option pv }.                   (* the value, when the harness could decode it *)

Definition letters_oracle (ls : list N) (r : N) : bool := existsb (N.eqb r) ls.

Fixpoint assoc_str {A} (l : list (str * A)) (k : str) : option A :=
  match l with
  | [] => None
  | (k', v) :: t => if str_eqb k k' then Some v else assoc_str t k
  end.

Definition floats_oracle (l : list (str * option Z)) (k : str) : option Z :=
  match assoc_str l k with Some r => r | None => None end.
Definition regexps_oracle (l : list (str * bool)) (k : str) : bool :=
  match assoc_str l k with Some r => r | None => false end.

Definition tok_obs (p : ptok) : nat * str * Z * Z := (tkind_code (pt_kind p), pt_text p, pt_line p, pt_col p).
Definition tok_obs_eqb (a b : nat * str * Z * Z) : bool :=
  let '(k, s, l, c) := a in let '(k', s', l', c') := b in
  Nat.eqb k k' && str_eqb s s' && Z.eqb l l' && Z.eqb c c'.
Definition end_obs (e : lex_end) : nat * Z * Z :=
  match e with
  | EEnd => (0%nat, 0, 0)
  | ELexErr l c => (1%nat, l, c)
  | ELexFault => (2%nat, 0, 0)
  | ELexOutOfFuel => (9%nat, 0, 0)
  end.
Definition triple_eqb (a b : nat * Z * Z) : bool :=
  let '(k, l, c) := a in let '(k', l', c') := b in Nat.eqb k k' && Z.eqb l l' && Z.eqb c c'.

Definition lex_check (c : c06case) : bool :=
  let '(toks, e) := lex (letters_oracle (cc_letters c)) (cc_input c) in
  list_eqb tok_obs_eqb (map tok_obs toks) (cc_tokens c) && triple_eqb (end_obs e) (cc_lexend c).

Definition model_parse (c : c06case) : pres pv :=
  parse_string (floats_oracle (cc_floats c)) (regexps_oracle (cc_regexps c)) (letters_oracle (cc_letters c)) (cc_input c).

Definition parse_check (c : c06case) : bool :=
  match model_parse c with
  | POk v =>
    triple_eqb (0%nat, 0, 0) (cc_result c) &&
    match cc_value c with Some w => pv_eqb v w | None => true end
  | PErr l col => triple_eqb (1%nat, l, col) (cc_result c)
  | PFault => triple_eqb (2%nat, 0, 0) (cc_result c)
  | POutOfFuel => false
  end.

Definition lex_mismatches (cs : list c06case) : list N := failing lex_check cs.
Definition parse_mismatches (cs : list c06case) : list N := failing parse_check cs.

(* ---- the resolve stage (Model/Resolve.v) ------------------------------------------------------------------

   A case holds the parameters of a type expression as types.Parse built them and what Context.ParseType did:
   kind 0  Enum[parameters], all parameters plain (resolveValue hands them to the creator unchanged): the Enum type's
           values and flag (EnumType.Get), or the index of the ILLEGAL_ARGUMENT_TYPE raised by `Enum[]`;
   kind 1  T[Deferred(name, plain arguments)] for any type name T but TypeSet: whether the outcome is UNKNOWN_VARIABLE
           (and for which name) - the scope of resolveValue is empty, so this is the outcome exactly when
           deferred.Resolve takes the name for a variable.
   rc_lower is the table of strings.ToLower on the strings among the parameters. *)
Record c06rcase := mkRCase {
  rc_kind : nat;
  rc_args : list pv;                 (* kind 0: the parameters; kind 1: [PCall name arguments] *)
  rc_lower : list (str * str);
  rc_class : nat;                    (* 0 a type (kind 0: an Enum type) | 1 ILLEGAL_ARGUMENT_TYPE of Enum[] at rc_index
                                        | 2 Go runtime fault, raw or wrapped | 3 anything else | 4 UNKNOWN_VARIABLE rc_name *)
  rc_index : Z;
  rc_values : list str;
  rc_ci : bool;
  rc_name : str }.

Definition lower_oracle (l : list (str * str)) (k : str) : str :=
  match assoc_str l k with Some r => r | None => k end.

Definition resolve_check (c : c06rcase) : bool :=
  match rc_kind c with
  | 0%nat =>
    all_plain (rc_args c) &&
    match enum_create (lower_oracle (rc_lower c)) (rc_args c) with
    | EOk vs ci => Nat.eqb (rc_class c) 0 && list_eqb str_eqb vs (rc_values c) && Bool.eqb ci (rc_ci c)
    | EErr i => Nat.eqb (rc_class c) 1 && Z.eqb i (rc_index c)
    | EFault => Nat.eqb (rc_class c) 2
    | EOutOfFuel => false
    end
  | 1%nat =>
    match rc_args c with
    | [PCall name args] =>
      all_plain args &&
      match deferred_target name with
      | DVar vn => Nat.eqb (rc_class c) 4 && str_eqb vn (rc_name c)
      | DFunc _ => negb (Nat.eqb (rc_class c) 4) && negb (Nat.eqb (rc_class c) 2)
      | DFault => Nat.eqb (rc_class c) 2
      end
    | _ => false
    end
  | _ => false
  end.

Definition resolve_mismatches (cs : list c06rcase) : list N := failing resolve_check cs.

(* ---- the resolve stage of user-declared Object types (Model/ResolveObj.v) ------------------------------------

   Override cases: Context.ParseType on one text that declares an Object type A with (or without) a member x and an
   Object type B that inherits from A - directly, over an intermediate type, over an alias, or with the parent
   written in place - and declares x; the two declarations as the generator wrote them (harness/cmd/c06/gentypeset.go)
   and the class of the outcome:
     0 a type | 1 OVERRIDE_MEMBER_MISMATCH | 2 OVERRIDE_OF_FINAL | 3 OVERRIDE_IS_MISSING | 4 OVERRIDE_TYPE_MISMATCH
     | 5 OVERRIDDEN_NOT_FOUND | 6 Go runtime fault, raw or wrapped | 7 anything else | 8 CONSTANT_WITH_FINAL.
   Where the model says OPass the type comparison decides (not modelled): a type or OVERRIDE_TYPE_MISMATCH. *)
Record c06ocase := mkOCase { oc_parent : option decl; oc_child : decl; oc_class : nat }.

Definition ocode_class (c : ocode) : nat :=
  match c with
  | MemberMismatch => 1 | OverrideOfFinal => 2 | OverrideIsMissing => 3 | OverriddenNotFound => 5 | ConstantWithFinal => 8
  end%nat.

Definition override_check (c : c06ocase) : bool :=
  match declare (oc_parent c) (oc_child c) with
  | OPass => Nat.eqb (oc_class c) 0 || Nat.eqb (oc_class c) 4
  | ONoParent => Nat.eqb (oc_class c) 0
  | OErr e => Nat.eqb (oc_class c) (ocode_class e)
  | OFault => Nat.eqb (oc_class c) 6
  end.

Definition override_mismatches (cs : list c06ocase) : list N := failing override_check cs.

(* Parameter cases: Context.ParseType on one text that declares an Object type with xc_n type parameters (own and
   inherited) and writes Name[arguments]; every argument is `default`, a value of the type of the parameter at its
   position (PgGood) or a value of no parameter's type (PgBad); named arguments carry the index of the parameter
   they name.  Classes: 0 a type | 1 EMPTY_TYPE_PARAMETER_LIST | 2 TYPE_MISMATCH | 3 MISSING_TYPE_PARAMETER
   | 4 NOT_PARAMETERIZED_TYPE | 6 Go runtime fault, raw or wrapped | 7 anything else. *)
Record c06xcase := mkXCase { xc_n : nat; xc_args : xargs; xc_class : nat }.

Definition xcode_class (c : xcode) : nat :=
  match c with
  | EmptyParameterList => 1 | ParamTypeMismatch => 2 | MissingTypeParameter => 3 | NotParameterized => 4
  end%nat.

Definition params_check (c : c06xcase) : bool :=
  match ext_initialize (xc_n c) (xc_args c) with
  | XOk _ => Nat.eqb (xc_class c) 0
  | XErr e => Nat.eqb (xc_class c) (xcode_class e)
  | XFault => Nat.eqb (xc_class c) 6
  end.

Definition params_mismatches (cs : list c06xcase) : list N := failing params_check cs.

(* ---- Object types with ancestors, Like types (Model/ResolveHier.v; generators harness/cmd/c06/genhier.go) ------

   Equality cases: Context.ParseType on one text that declares an Object type with 0..3 ancestors (type set root first,
   leaf first, the parent over an alias, or every parent written in place); qc_chain = the type first, then its
   parent, ...; every level with its name, its members x / y and its `equality`.  Classes: 0 a type
   | 1 EQUALITY_ATTRIBUTE_NOT_FOUND | 2 EQUALITY_NOT_ATTRIBUTE | 3 EQUALITY_ON_CONSTANT | 4 EQUALITY_REDEFINED (then
   qc_definer = the Name() of the `including_parent` argument of the issue: the ancestor findEqualityDefiner walked to)
   | 6 Go runtime fault, raw or wrapped | 9 no answer within the deadline | 7 anything else. *)
Definition sx : str := [120]%N.
Definition sy : str := [121]%N.
Definition sz : str := [122]%N.

Record c06qcase := mkQCase { qc_chain : list level; qc_class : nat; qc_definer : str }.

Definition equality_check (c : c06qcase) : bool :=
  match resolve_chain (qc_chain c) with
  | QOk => Nat.eqb (qc_class c) 0
  | QErr EqNotFound => Nat.eqb (qc_class c) 1
  | QErr EqNotAttribute => Nat.eqb (qc_class c) 2
  | QErr EqOnConstant => Nat.eqb (qc_class c) 3
  | QRedefined d => Nat.eqb (qc_class c) 4 && str_eqb d (qc_definer c)
  | QFault => Nat.eqb (qc_class c) 6
  | QOutOfFuel => Nat.eqb (qc_class c) 9
  end.

Definition equality_mismatches (cs : list c06qcase) : list N := failing equality_check cs.

(* Like cases: Context.ParseType on a text in which Like[base, navigation] is the parent of an in-place Object type
   (lc_kind 0: like_parent) or the type of an attribute that has a value (lc_kind 1: like_resolve, then the instance
   test, which is not modelled: a type or TYPE_MISMATCH); lc_base = the base type as the navigation meets it (an alias
   of a type set is LAlias when it is declared before the user, LAliasUnresolved otherwise); lc_parts = the parts of the
   navigation, each with the result of strconv.ParseInt(part, 0, 64).  Classes: 0 a type | 1 UNRESOLVED_TYPE_OF
   | 2 UNRESOLVED_TYPE | 3 ILLEGAL_OBJECT_INHERITANCE | 5 TYPE_MISMATCH | 6 Go runtime fault | 9 no answer | 7 else. *)
Definition lInt : lty := LMeta [([102;114;111;109]%N, None); ([116;111]%N, None)].     (* from, to *)

Record c06lcase := mkLCase { lc_base : lty; lc_parts : list (str * option Z); lc_kind : nat; lc_class : nat }.

Definition lpres_class (p : lpres) : nat :=
  match p with LPObject => 0 | LPUnresolvedOf => 1 | LPUnresolvedAlias => 2 | LPIllegalParent => 3 | LPFault => 6 end%nat.

Definition like_check (c : c06lcase) : bool :=
  match lc_kind c with
  | 0%nat => Nat.eqb (lc_class c) (lpres_class (like_parent (lc_base c) (lc_parts c)))
  | _ =>
    match like_resolve (lc_base c) (lc_parts c) with
    | RType t => match resolved_parent t with
                 | LPUnresolvedAlias => Nat.eqb (lc_class c) 2        (* the instance test asks the alias for its type *)
                 | _ => Nat.eqb (lc_class c) 0 || Nat.eqb (lc_class c) 5
                 end
    | RUnresolvedOf => Nat.eqb (lc_class c) 1
    | RUnresolvedAlias => Nat.eqb (lc_class c) 2
    | RFault => Nat.eqb (lc_class c) 6
    end
  end.

Definition like_mismatches (cs : list c06lcase) : list N := failing like_check cs.

(* ---- the walk over a set of alias declarations (Model/ResolveAlias.v; harness/cmd/c06/genalias.go) ----
   observed: the class of the outcome of Context.ParseType on the type set (0 a type, 1 UNRESOLVED_TYPE,
   2 ILLEGAL_OBJECT_INHERITANCE, 3 NOT_PARAMETERIZED_TYPE, 4 ILLEGAL_ARGUMENT_TYPE, 6 fault, 7 other, 9 no answer) and,
   for a type, the head of the resolved type of every member in the order of declaration. *)
Record c06acase := mkACase { ac_decls : list (nat * ResolveAlias.aexp); ac_class : nat; ac_heads : list nat }.

(* the wording of ILLEGAL_ARGUMENT_TYPE / ILLEGAL_OBJECT_INHERITANCE with a type is part of the model (depth pass 7):
   the class must be the predicted one; 41 / 21 = the model does not predict which of the two (printer depth bound, two
   Tuple / two Variant / two Object types under commonType) *)
Definition alias_check (c : c06acase) : bool :=
  let r := ResolveAlias.resolve_all (ac_decls c) in
  let m := ResolveAlias.rres_class r in
  (Nat.eqb (ac_class c) m
   || (Nat.eqb m 41 && (Nat.eqb (ac_class c) 4 || Nat.eqb (ac_class c) 1))
   || (Nat.eqb m 21 && (Nat.eqb (ac_class c) 2 || Nat.eqb (ac_class c) 1))) &&
  list_eqb Nat.eqb (ac_heads c) (ResolveAlias.resolved_heads r).

(* how many cases the model leaves open (scratch statistics) *)
Definition alias_unpredicted (cs : list c06acase) : nat :=
  length (filter (fun c => let m := ResolveAlias.rres_class (ResolveAlias.resolve_all (ac_decls c)) in Nat.eqb m 41 || Nat.eqb m 21) cs).

Definition alias_mismatches (cs : list c06acase) : list N := failing alias_check cs.
