(* Correspondence obligation of C04 for Model/InferRuntimeColl.v (Array / Hash / Tuple / Variant / Optional over Runtime,
   Integer, String, Undef leaves): the implementation's px.DetailedValueType, px.IsInstance and px.IsAssignable against
   rc_detailed / rc_inst / rc_asg; reflect is the oracle (gtab / gnames as in cases_runtime.v). *)
From Coq Require Import ZArith NArith Bool List.
From PcoreV Require Import Model.Base Model.Lattice Model.InferRuntime Model.InferRuntimeColl Corr.CorrC04.
Import ListNotations.
Open Scope Z_scope.

Fixpoint ct_eqb (a b : ct) {struct a} : bool :=
  match a, b with
  | CUnit, CUnit | CAny, CAny | CUndef, CUndef | CString, CString | COut, COut => true
  | CInt lo hi, CInt lo' hi' => Z.eqb lo lo' && Z.eqb hi hi'
  | CStrVal s, CStrVal s' => str_eqb s s'
  | CRt r, CRt r' => rty_eqb r r'
  | CArr e lo hi, CArr e' lo' hi' => ct_eqb e e' && Z.eqb lo lo' && Z.eqb hi hi'
  | CHash k v lo hi, CHash k' v' lo' hi' => ct_eqb k k' && ct_eqb v v' && Z.eqb lo lo' && Z.eqb hi hi'
  | CTuple ts lo hi, CTuple ts' lo' hi' => all2 ct_eqb ts ts' && Z.eqb lo lo' && Z.eqb hi hi'
  | CVariant ts, CVariant ts' => all2 ct_eqb ts ts'
  | COptional t, COptional t' => ct_eqb t t'
  | _, _ => false
  end.

Inductive ccase :=
| CDet (v : rv) (observed : ct)              (* px.DetailedValueType(v), v inside the layer (rv_ok) *)
| CInst (t : ct) (v : rv) (observed : bool)  (* px.IsInstance(t, v) *)
| CAsg (t o : ct) (observed : bool).         (* px.IsAssignable(t, o) *)

Definition coll_check (gt : list (N * N)) (gn : list (N * str)) (c : ccase) : bool :=
  let gasg := gasg_of gt in
  let tname := tname_of gn in
  match c with
  | CDet v t => rv_ok v && ct_eqb (rc_detailed tname v) t
  | CInst t v b => Bool.eqb (rc_inst gasg tname t v) b
  | CAsg t o b => Bool.eqb (rc_asg gasg t o) b
  end.
Definition coll_mismatches (gt : list (N * N)) (gn : list (N * str)) (cs : list ccase) : list N := failing (coll_check gt gn) cs.
