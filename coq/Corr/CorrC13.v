(* Correspondence obligations for C13: the model's per-thread results and parse counts on the
   (configuration, program, schedule) triples that the harness drove the real goroutines through. *)
From Coq Require Import ZArith NArith Arith Bool List.
From PcoreV Require Import Model.Base Model.Conc Model.ConcLazy Model.ConcReg Model.ConcDisc Model.ConcNs Model.ConcNsChain Model.ConcInit.
Import ListNotations.

Definition val_eqb (a b : val) : bool :=
  N.eqb (vid a) (vid b) && option_eqb N.eqb (vcls a) (vcls b).

Definition res_eqb (a b : res) : bool :=
  match a, b with
  | RFound x, RFound y => option_eqb val_eqb x y
  | RDefined x, RDefined y => val_eqb x y
  | RBool x, RBool y => Bool.eqb x y
  | RErr, RErr => true
  | RFileErr, RFileErr => true
  | RFault, RFault => true
  | _, _ => false
  end.

Definition obs := (list res * nat)%type.        (* per thread: results in program order, files parsed *)
Definition obs_eqb (a b : obs) : bool :=
  list_eqb res_eqb (fst a) (fst b) && Nat.eqb (snd a) (snd b).

Definition conc_case := (config * prog * sched * list obs)%type.

Definition model_obs (cfg : config) (p : prog) (s : sched) : list obs :=
  let log := trace cfg p s in
  map (fun t => (results_of t log, parses_by t log)) (seq 0 (length p)).

(* the schedule recorded by the harness runs every thread to completion; the model must agree on that too *)
Definition conc_check (c : conc_case) : bool :=
  let '(cfg, p, s, o) := c in
  all_done (exec cfg p s) (length p) && list_eqb obs_eqb (model_obs cfg p s) o.

Definition conc_mismatches (cs : list conc_case) : list N := failing conc_check cs.


(* ---- lazily cached inferred types: per thread the list of (creator of the object handed out, complete?) ------
   The creator is None where the harness cannot observe object identity (the key index of a Hash). *)
Definition lobs := list (option nat * bool).
Definition lobs1_eqb (m : nat * bool) (o : option nat * bool) : bool :=
  Bool.eqb (snd m) (snd o) && match fst o with None => true | Some b => Nat.eqb (fst m) b end.
Fixpoint lobs_eqb (m : list (nat * bool)) (o : lobs) : bool :=
  match m, o with
  | [], [] => true
  | x :: m', y :: o' => lobs1_eqb x y && lobs_eqb m' o'
  | _, _ => false
  end.
(* per cell: does the code of that kind of cache publish the object before it is complete? *)
Definition lazy_case := (list bool * lprog * sched * list lobs)%type.
Fixpoint lazy_threads (log : list lev) (t : nat) (os : list lobs) : bool :=
  match os with
  | [] => true
  | o :: os' => lobs_eqb (lresults_of t log) o && lazy_threads log (S t) os'
  end.
Definition lazy_check (c : lazy_case) : bool :=
  let '(pfs, p, s, o) := c in
  let st := lexec (fun c => nth c pfs false) p s in
  lall_done st (length p) && Nat.eqb (length o) (length p) && lazy_threads (ls_log st) 0 o.
Definition lazy_mismatches (cs : list lazy_case) : list N := failing lazy_check cs.


(* ---- pending declarations and pcore.Do (Model/ConcReg.v): per thread the results in program order (for a Do whose
   function ran: is each item that the thread declared before usable, in order) and the probes - declarations that
   count the calls of their Resolve - that the thread resolved (as a set: the harness does not record the order) *)
Inductive rres_o := ORDeclared | ORDone (bs : list bool) | ORPanic.
Definition rres_eqb (m : rres) (o : rres_o) : bool :=
  match m, o with
  | RRDeclared, ORDeclared => true
  | RRDone obs, ORDone bs => list_eqb Bool.eqb (map snd obs) bs
  | RRPanic, ORPanic => true
  | _, _ => false
  end.
Fixpoint rres_list_eqb (m : list rres) (o : list rres_o) : bool :=
  match m, o with
  | [], [] => true
  | x :: m', y :: o' => rres_eqb x y && rres_list_eqb m' o'
  | _, _ => false
  end.
Definition is_probe (x : item) : bool := match fst x with KP | KX => true | _ => false end.
Definition same_items (a b : list item) : bool :=
  Nat.eqb (length a) (length b) && forallb (fun x => mem x b) a && forallb (fun x => mem x a) b.
Definition robs := (list rres_o * list item)%type.
Definition reg_case := (rprog * sched * list robs)%type.
Fixpoint reg_threads (log : list rev) (t : nat) (os : list robs) : bool :=
  match os with
  | [] => true
  | o :: os' => rres_list_eqb (rresults_of t log) (fst o) &&
                same_items (filter is_probe (resolved_by t log)) (snd o) && reg_threads log (S t) os'
  end.
Definition reg_check (c : reg_case) : bool :=
  let '(p, s, o) := c in
  let st := rexec p s in
  rall_done st (length p) && Nat.eqb (length o) (length p) && reg_threads (rs_log st) 0 o.
Definition reg_mismatches (cs : list reg_case) : list N := failing reg_check cs.


(* ---- Discover with a predicate that asks the loader (Model/ConcDisc.v, the code: CbOutside): per thread the results in
   program order; the names of a Discover as a set (Go returns them sorted) *)
Definition same_keys (a b : list key) : bool :=
  Nat.eqb (length a) (length b) && forallb (fun x => existsb (N.eqb x) b) a && forallb (fun x => existsb (N.eqb x) a) b.
Definition dres_eqb (m o : dres) : bool :=
  match m, o with
  | DNames a, DNames b => same_keys a b
  | DDefined x, DDefined y => val_eqb x y
  | DBool x, DBool y => Bool.eqb x y
  | DErr, DErr => true
  | DFault, DFault => true
  | _, _ => false
  end.
Definition disc_case := (config * dprog * sched * list (list dres))%type.
Fixpoint disc_threads (log : list devent) (t : nat) (os : list (list dres)) : bool :=
  match os with
  | [] => true
  | o :: os' => list_eqb dres_eqb (dresults_of t log) o && disc_threads log (S t) os'
  end.
Definition disc_check (c : disc_case) : bool :=
  let '(cfg, p, s, o) := c in
  let st := dexec CbOutside cfg p s in
  dall_done st (length p) && Nat.eqb (length o) (length p) && disc_threads (ds_log st) 0 o.
Definition disc_mismatches (cs : list disc_case) : list N := failing disc_check cs.


(* ---- a file based loader whose SmartPath serves several namespaces (Model/ConcNs.v, the code: KeyMapped): per thread
   the results in program order (a value by the number of the instantiation that made it) and the files instantiated *)
Definition nres_eqb (a b : nres) : bool :=
  match a, b with
  | NFound x, NFound y => option_eqb Nat.eqb x y
  | NBool x, NBool y => Bool.eqb x y
  | NFileErr, NFileErr => true
  | NErr, NErr => true
  | NFault, NFault => true
  | _, _ => false
  end.
Definition nobs := (list nres * nat)%type.
Definition ns_case := (ncfg * nprog * list nat * list nobs)%type.
Fixpoint ns_threads (log : list nevent) (t : nat) (os : list nobs) : bool :=
  match os with
  | [] => true
  | o :: os' => list_eqb nres_eqb (nresults_of t log) (fst o) && Nat.eqb (nparses_by t log) (snd o) && ns_threads log (S t) os'
  end.
Definition ns_check (c : ns_case) : bool :=
  let '(cfg, p, s, o) := c in
  let st := nexec KeyMapped cfg p s in
  nall_done st (length p) && Nat.eqb (length o) (length p) && ns_threads (ns_log st) 0 o.
Definition ns_mismatches (cs : list ns_case) : list N := failing ns_check cs.


(* ---- the same loader inside a chain of parented loaders (Model/ConcNsChain.v): loads and HasEntry questions through
   any loader of static <- A.. <- M <- C..; per thread the results in program order and the files instantiated *)
Definition chain_case := (ccfg * cprog * list nat * list nobs)%type.
Fixpoint chain_threads (st : cstate) (t : nat) (os : list nobs) : bool :=
  match os with
  | [] => true
  | o :: os' => list_eqb nres_eqb (cresults_of t (cs_log st)) (fst o) &&
                Nat.eqb (nparses_by t (ns_log (cs_in st))) (snd o) && chain_threads st (S t) os'
  end.
Definition chain_check (c : chain_case) : bool :=
  let '(cfg, p, s, o) := c in
  let st := cexec cfg p s in
  call_done st (length p) && Nat.eqb (length o) (length p) && chain_threads st 0 o.
Definition chain_mismatches (cs : list chain_case) : list N := failing chain_check cs.


(* ---- the first initialization of the runtime entered by n goroutines of a fresh process (Model/ConcInit.v, the code:
   ILocked): the goroutine that the harness held at the yield point is thread 0; per thread: did it return while
   thread 0 was held, did it get the sequential answers *)
Definition init_case := (nat * nat * list (bool * bool))%type.
Definition bb_eqb (a b : bool * bool) : bool := Bool.eqb (fst a) (fst b) && Bool.eqb (snd a) (snd b).
Definition init_check (c : init_case) : bool :=
  let '(n, site, o) := c in
  Nat.leb 2 n && Nat.leb site 1 && list_eqb bb_eqb (park_obs ILocked n site) o.
Definition init_mismatches (cs : list init_case) : list N := failing init_check cs.
