(* Correspondence obligations for C13: the model's per-thread results and parse counts on the
   (configuration, program, schedule) triples that the harness drove the real goroutines through. *)
From Coq Require Import ZArith NArith Arith Bool List.
From PcoreV Require Import Model.Base Model.Conc.
Import ListNotations.

Definition val_eqb (a b : val) : bool :=
  N.eqb (vid a) (vid b) && option_eqb N.eqb (vcls a) (vcls b).

Definition res_eqb (a b : res) : bool :=
  match a, b with
  | RFound x, RFound y => option_eqb val_eqb x y
  | RDefined x, RDefined y => val_eqb x y
  | RBool x, RBool y => Bool.eqb x y
  | RErr, RErr => true
  | RFault, RFault => true
  | _, _ => false
  end.

Definition obs := (list res * nat)%type.        (* per thread: results in program order, files parsed *)
Definition obs_eqb (a b : obs) : bool :=
  list_eqb res_eqb (fst a) (fst b) && Nat.eqb (snd a) (snd b).

Definition conc_case := (config * prog * sched * list obs)%type.

Definition model_obs (cfg : config) (p : prog) (s : sched) : list obs :=
  let log := trace cfg p s in
  map (fun t => (results_of t log, parses_by t log)) (seq 0 (length p)).

(* the schedule recorded by the harness runs every thread to completion; the model must agree on that too *)
Definition conc_check (c : conc_case) : bool :=
  let '(cfg, p, s, o) := c in
  all_done (exec cfg p s) (length p) && list_eqb obs_eqb (model_obs cfg p s) o.

Definition conc_mismatches (cs : list conc_case) : list N := failing conc_check cs.

