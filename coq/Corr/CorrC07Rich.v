(* CorrC07Rich.v — C07: correspondence of Model/KeysRich.v (Timestamp, Timespan, Runtime types) with the implementation.
   The pool: the types as construction terms (the route of each is the constructor expression).  A case: one type with its
   observed ToKey and its observed row / column of the Equals matrix over the pool.  The oracles of the model (texts of bounds, texts of a reflect.Type) are
   tables filled by the harness from the implementation's own functions. *)
From Coq Require Import ZArith NArith Bool String List.
From PcoreV Require Import Model.Base Model.Keys Model.KeysRich.
Import ListNotations.
Open Scope Z_scope.

Inductive rich :=
 | RTs (t : tstype)
 | RSp (t : sptype)
 | RRt (t : option rttype)     (* None: the constructor reported an error (such a type is not in the pool) *)
 | RGo (id : nat).

Record rich_tables := mkTables {
  tb_ts : list (Z * str);                  (* instant -> WrapTimestamp(t.UTC()).String() *)
  tb_sp : list (Z * str);                  (* nanoseconds -> WrapTimespan(d).SerializationString(): compared with sp_text *)
  tb_go : list (nat * (str * str * str))   (* id -> reflect.Type.String(), PkgPath(), %p *)
}.

Fixpoint zlookup (k : Z) (l : list (Z * str)) : str :=
  match l with [] => [] | (k', v) :: r => if k =? k' then v else zlookup k r end.
Fixpoint nlookup (k : nat) (l : list (nat * (str * str * str))) : str * str * str :=
  match l with [] => ([], [], []) | (k', v) :: r => if Nat.eqb k k' then v else nlookup k r end.

(* the text of a time that is not in UTC / carries a reading is not in the table: a model that forgets UTC() shows *)
Definition render_ts (tb : rich_tables) (g : gotime) : str :=
  if (t_zone g =? 0) && is_nil (t_mono g) then zlookup (t_inst g) (tb_ts tb) else [].
Definition go_of (tb : rich_tables) : gooracle :=
  mkGo (fun i => fst (fst (nlookup i (tb_go tb)))) (fun i => snd (fst (nlookup i (tb_go tb)))) (fun i => snd (nlookup i (tb_go tb))).

Definition rich_key (tb : rich_tables) (x : rich) : option (list N) :=
  match x with
  | RTs t => Some (ts_key (render_ts tb) t)
  | RSp t => Some (sp_key sp_text t)
  | RRt (Some t) => Some (rt_key (go_of tb) t)
  | RRt None => None
  | RGo i => Some (rt_key (go_of tb) (new_go_runtime_type (go_of tb) i))
  end.

Definition rich_equals (tb : rich_tables) (x y : rich) : option bool :=
  match x, y with
  | RTs a, RTs b => Some (ts_equals a b)
  | RSp a, RSp b => Some (sp_equals a b)
  | RRt None, _ | _, RRt None => None
  | RRt (Some a), RRt (Some b) => Some (rt_equals a b)
  | RRt (Some a), RGo j => Some (rt_equals a (new_go_runtime_type (go_of tb) j))
  | RGo i, RRt (Some b) => Some (rt_equals (new_go_runtime_type (go_of tb) i) b)
  | RGo i, RGo j => Some (rt_equals (new_go_runtime_type (go_of tb) i) (new_go_runtime_type (go_of tb) j))
  | _, _ => Some false                       (* another type: every Equals starts with the type assertion *)
  end.

(* the modelled text of a duration against the implementation's SerializationString (the table holds both bounds of
   every Timespan type of the pool, the two extremes included, which no key shows) *)
Definition sp_text_ok (tb : rich_tables) (d : Z) : bool := str_eqb (sp_text d) (zlookup d (tb_sp tb)).

(* what C07_runtime_type_key_iff_eq assumes of a reflect.Type, checked on the table: PkgPath() and %p hold no byte <= 4,
   %p holds no '#', no two entries (different type descriptors) have one address *)
Definition go_entry_ok (tb : rich_tables) (i : nat) : bool :=
  let '(_, pkg, ptr) := nlookup i (tb_go tb) in
  forallb (fun b => 4 <? b)%N pkg && forallb (fun b => 4 <? b)%N ptr && negb (existsb (N.eqb 35) ptr) &&
  negb (is_empty ptr) &&
  forallb (fun e' : nat * (str * str * str) => Nat.eqb i (fst e') || negb (str_eqb ptr (snd (snd e')))) (tb_go tb).

(* the representation invariants the theorems assume, and the oracle checks *)
Definition rich_wf (tb : rich_tables) (x : rich) : bool :=
  match x with
  | RTs t => ts_okb t
  | RSp t => sp_wf t && sp_text_ok tb (sp_min t) && sp_text_ok tb (sp_max t)
  | RRt (Some t) => rt_wf t
  | RRt None => false
  | RGo i => rt_wf (new_go_runtime_type (go_of tb) i) && go_entry_ok tb i
  end.

(* a row: the position of a type in the pool, its observed hash key, the positions of the pool types y with
   x.Equals(y), and of those with y.Equals(x): the model must give the whole row and column (all ordered pairs) *)
Definition rich_case := (nat * list N * list nat * list nat)%type.

Fixpoint mem_nat (n : nat) (l : list nat) : bool :=
  match l with [] => false | m :: r => Nat.eqb n m || mem_nat n r end.

Definition rich_ok (tb : rich_tables) (pool : list rich) (c : rich_case) : bool :=
  let '(i, kx, row, col) := c in
  match nth_error pool i with
  | None => false
  | Some x =>
      rich_wf tb x &&
      match rich_key tb x with Some k => str_eqb k kx | None => false end &&
      forallb (fun jy : nat * rich =>
                 let (j, y) := jy in
                 match rich_equals tb x y, rich_equals tb y x with
                 | Some a, Some b => Bool.eqb a (mem_nat j row) && Bool.eqb b (mem_nat j col)
                 | _, _ => false
                 end)
              (combine (seq 0 (length pool)) pool)
  end.

Definition c07_rich_mismatches (tb : rich_tables) (pool : list rich) (cases : list rich_case) : list N :=
  failing (rich_ok tb pool) cases.
