(* Correspondence obligations for C15: the model's outcome and read list for every operation of every
   case the implementation ran (directory layout as filepath.Walk listed it, loader configuration, what the
   parent loader binds, operation sequence). *)
From Coq Require Import ZArith NArith Bool List.
From PcoreV Require Import Model.Base Model.FileLoader.
Import ListNotations.

Record ccase := {
  cc_world : world;
  cc_ops : list op;
  cc_outs : list (out * list (nat * str))    (* observed: outcome, files read (module, path) *)
}.

(* layers of nested lookups: far more than any generated layout can nest (an exhausted model answers OFuel,
   which equals no observed outcome) *)
Definition c15_fuel : nat := 48.

Definition c15_check (c : ccase) : bool :=
  list_eqb outr_eqb (run (cc_world c) c15_fuel (cc_ops c)) (cc_outs c).

Definition c15_mismatches (cs : list ccase) : list N := failing c15_check cs.

(* for replay: what the model answers *)
Definition c15_model (c : ccase) : list (out * list (nat * str)) := run (cc_world c) c15_fuel (cc_ops c).
