(* Correspondence obligations for C15: the model's outcome and read list for every operation of every
   case the implementation ran (directory layout as filepath.Walk listed it, loader configuration, what the
   parent loader binds, operation sequence). *)
From Coq Require Import ZArith NArith Bool List.
From PcoreV Require Import Model.Base Model.FileLoader.
Import ListNotations.
Local Open Scope nat_scope.

(* strings of the cases files: the bytes of a Go string as the base-256 digits of one number below a leading 1
   (one numeral instead of a list of numerals: the cases files are read ten times faster) *)
Fixpoint sd_bytes (fuel : nat) (n : N) : str :=
  match fuel with
  | O => []
  | S f => if (n <? 2)%N then [] else (n mod 256)%N :: sd_bytes f (n / 256)%N
  end.
Definition sd (n : N) : str := rev (sd_bytes (N.size_nat n) n).

Record ccase := {
  cc_world : world;
  cc_ops : list op;
  cc_outs : list (out * list (nat * str))    (* observed: outcome, files read (module, path) *)
}.

(* layers of nested lookups: far more than any generated layout can nest (an exhausted model answers OFuel,
   which equals no observed outcome) *)
Definition c15_fuel : nat := 48.

(* the hypotheses of the theorems of Properties/C15.v about a world, checked on every case: the parent loader
   binds a type under the key of its name (shadow_wf); the members of a TypeSet have simple names (the model
   binds them unconditionally, the code rejects other names when the TypeSet is initialised) *)
Definition world_ok (w : world) : bool :=
  forallb (fun x => str_eqb (fst x) (snd x)) (w_shadow w) &&
  forallb (fun m => forallb (fun f => match f_content f with
                                      | CTypeSet _ members => forallb (fun mn => valid_seg (lower mn)) members
                                      | _ => true
                                      end) (m_walk m)) (w_mods w).

Definition c15_check (c : ccase) : bool :=
  world_ok (cc_world c) && list_eqb outr_eqb (run (cc_world c) c15_fuel (cc_ops c)) (cc_outs c).

Definition c15_mismatches (cs : list ccase) : list N := failing c15_check cs.

(* for replay: what the model answers *)
Definition c15_model (c : ccase) : list (out * list (nat * str)) := run (cc_world c) c15_fuel (cc_ops c).
