(* Correspondence obligations for C15: the model's outcome and read list for every operation of every
   case the implementation ran (directory layout as filepath.Walk listed it, loader configuration, what the
   parent loader binds, operation sequence). *)
From Coq Require Import ZArith NArith Bool List.
From PcoreV Require Import Model.Base Model.FileLoader Model.FileLoaderText Proofs.FileLoaderIff Proofs.FileLoaderMember Proofs.FileLoaderMemberG.
Import ListNotations.
Local Open Scope nat_scope.

(* strings of the cases files: the bytes of a Go string as the base-256 digits of one number below a leading 1
   (one numeral instead of a list of numerals: the cases files are read ten times faster) *)
Fixpoint sd_bytes (fuel : nat) (n : N) : str :=
  match fuel with
  | O => []
  | S f => if (n <? 2)%N then [] else (n mod 256)%N :: sd_bytes f (n / 256)%N
  end.
Definition sd (n : N) : str := rev (sd_bytes (N.size_nat n) n).

Record ccase := {
  cc_prev : list (world * list op);          (* the generations that ran before this one in the same process over the
                                                same directory path (layout, operations); [] for the first *)
  cc_world : world;
  cc_ops : list op;
  cc_outs : list (out * list (nat * str));   (* observed: outcome, files read (module, path) *)
  cc_texts : list (nat * str * str * nat)    (* (module, path, text of the file, position of the parser's reader when it
                                                gave up - malformed files only) for files an observed error names *)
}.

(* layers of nested lookups: far more than any generated layout can nest (an exhausted model answers OFuel,
   which equals no observed outcome) *)
Definition c15_fuel : nat := 48.

(* the hypotheses of the theorems of Properties/C15.v about a world, checked on every case: the parent loader
   binds a type under the key of its name (shadow_wf); the members of a TypeSet have simple names (the model
   binds them unconditionally, the code rejects other names when the TypeSet is initialised) *)
Definition world_ok (w : world) : bool :=
  forallb (fun x => str_eqb (fst x) (snd x)) (w_shadow w) &&
  forallb (fun m => forallb (fun f => match f_content f with
                                      | CTypeSet _ members => forallb (fun mn => valid_seg (lower mn)) members
                                      | _ => true
                                      end) (m_walk m)) (w_mods w).

(* the line numbers the world states for a file are those the line model computes on its text: the line of the
   reader's position for a malformed file, the line where the first token starts otherwise *)
Definition text_ok (w : world) (x : nat * str * str * nat) : bool :=
  let '(i, p, text, pos) := x in
  match file_at (mod_at w i) p with
  | Some f => match f_content f with
              | CMalformed l => N.eqb l (line_at text pos)
              | CUnreadable => true
              | _ => N.eqb (f_defline f) (def_line text)
              end
  | None => false
  end.

(* what the model answers for this generation: the whole session is run (the generations before it, then this
   one); the answers of the earlier generations are dropped *)
Definition c15_model (c : ccase) : list (out * list (nat * str)) :=
  skipn (length (flat_map snd (cc_prev c))) (run_session c15_fuel (cc_prev c ++ [(cc_world c, cc_ops c)])).

(* C15_definition_file_never_missed evaluated on the OBSERVED outcomes of the generation (Proofs/FileLoaderIff.v:
   iff_ok_from - with the theorem's own predicates `consulted` / `defined_file` in their decidable forms): as long as
   no operation of the generation reported an error, no lookup of a name for which a consulted loader has a
   well-formed, correctly named definition file at the derived path was answered "not found" - in every topology *)
Definition c15_iff_ok (c : ccase) : bool := iff_ok_from (cc_world c) (cc_ops c) (cc_outs c).

(* C15_typeset_member_never_missed_dec evaluated on the OBSERVED outcomes (Proofs/FileLoaderMember.v: mem_ok_from):
   as long as no operation of the generation reported an error, no lookup of a TypeSet member name that a consulted
   loader's TypeSet file declares and nothing else stands for (member_claim_b) was answered "not found" *)
Definition c15_mem_ok (c : ccase) : bool :=
  negb (members_wf_b (cc_world c)) || mem_ok_from (cc_world c) (cc_ops c) (cc_outs c).

(* C15_typeset_member_never_missed_claimed_dec evaluated on the OBSERVED outcomes (Proofs/FileLoaderMemberG.v: mem_ok3_from):
   the same with the weaker guard member_claim3_b - a TypeSet file of the loader may declare a member named like the
   TypeSet itself (corpus member-and-file-1-N), and the member may also have a definition file of its own in a consulted
   loader (corpus member-and-file-0-N, global-typeset); implies c15_mem_ok's verdict on every name that one accepts *)
Definition c15_mem3_ok (c : ccase) : bool :=
  negb (members_wf_b (cc_world c)) || mem_ok3_from (cc_world c) (cc_ops c) (cc_outs c).

Definition c15_check (c : ccase) : bool :=
  world_ok (cc_world c) && forallb (text_ok (cc_world c)) (cc_texts c) &&
  list_eqb outr_eqb (c15_model c) (cc_outs c) && c15_iff_ok c && c15_mem_ok c && c15_mem3_ok c.

Definition c15_mismatches (cs : list ccase) : list N := failing c15_check cs.
