(* Correspondence obligation for C14: the machine of Model/Ctx.v, run on the programs and on the very schedule
   the harness' deterministic scheduler took on the real implementation, must produce the observed
   per-goroutine traces, must have finished every goroutine, and must end with as many goroutine-local
   tables as the implementation had left (threadlocal.LiveTables after - before the case). *)
From Coq Require Import ZArith NArith Bool List.
From PcoreV Require Import Model.Base Model.Ctx.
Import ListNotations.

Definition ctx_case := (list (list prog) * list nat * list (list event) * nat)%type.

Definition ctx_check (c : ctx_case) : bool :=
  let '(roots, sched, observed, leftover) := c in
  let final := run sched (init_config roots) in
  list_eqb (list_eqb event_eqb) (traces final) observed
  && finished final
  && Nat.eqb (live_tables (tls (sh final))) leftover.

Definition ctx_mismatches (cs : list ctx_case) : list N := failing ctx_check cs.
