(* Correspondence obligations for C14.

   ctx_machine (model tie): the machine of Model/Ctx.v, run on the programs and on the very schedule the harness'
   deterministic scheduler took on the real implementation, must produce the observed per-goroutine traces, must
   have finished every goroutine, and must end with as many goroutine-local tables as the implementation had left
   (threadlocal.LiveTables after - before the case).

   ctx_spec (specification on the observed data alone, no model involved): the observed traces must satisfy what
   the theorems of Properties/C14.v state about traces —
     * every observation reports as px.CurrentContext() the label of its lexical context, or none where no context
       is established (C14_observations_see_established; `ev_okb` is the boolean form of CtxProofs.ev_ok);
     * goroutine-local storage is never found missing, no unclassified panic (C14_storage_never_missing);
     * no table is left when all goroutines of the case have ended (C14_tls_released). *)
From Coq Require Import ZArith NArith Bool List.
From PcoreV Require Import Model.Base Model.Ctx Model.CtxGid Model.CtxRoot Model.CtxReg.
Import ListNotations.

Definition ctx_case := (list (list prog) * list nat * list (list event) * nat)%type.

Definition ctx_check (c : ctx_case) : bool :=
  let '(roots, sched, observed, leftover) := c in
  let final := run sched (init_config roots) in
  list_eqb (list_eqb event_eqb) (traces final) observed
  && finished final
  && Nat.eqb (live_tables (tls (sh final))) leftover.

Definition ctx_mismatches (cs : list ctx_case) : list N := failing ctx_check cs.

Definition ev_okb (e : event) : bool :=
  match e with
  | EObs _ cur lex => option_eqb N.eqb cur (option_map lo_ctx lex)
  | EPanic PNoTable | EPanic POther => false
  | _ => true
  end.

Definition ctx_spec_check (c : ctx_case) : bool :=
  let '(_, _, observed, leftover) := c in
  forallb (forallb ev_okb) observed && Nat.eqb leftover 0.

Definition ctx_spec_violations (cs : list ctx_case) : list N := failing ctx_spec_check cs.

(* gid_machine (model tie of Model/CtxGid.v): for a real goroutine the harness records its goid (read by the
   harness' own parser from a 128 byte buffer), the bytes of the first line of runtime.Stack behind the numeral's
   blank ("[running]:" + newline), the whole first line, and what threadlocal.Getg() (verif hook = getg()) returned
   (None: it panicked).  The model must render the same first line and compute the same key. *)
Definition gid_case := (N * list N * list N * option Z)%type.

Definition gid_check (c : gid_case) : bool :=
  let '(id, tail, line, observed) := c in
  list_eqb N.eqb (stack_text id tail) line && option_eqb Z.eqb (getg id tail) observed.

Definition gid_mismatches (cs : list gid_case) : list N := failing gid_check cs.

(* gid_spec (no model): the key is the goid (C14_getg_exact) *)
Definition gid_spec_check (c : gid_case) : bool :=
  let '(id, _, _, observed) := c in option_eqb Z.eqb (Some (Z.of_N id)) observed.

Definition gid_spec_violations (cs : list gid_case) : list N := failing gid_spec_check cs.

(* root_machine (model tie of Model/CtxRoot.v, family dwcraw): one real goroutine that starts with the table entry
   `start` (None: plain go; Some None: threadlocal.Go; Some (Some 0): goroutine of px.Fork / px.Go / body of pcore.Do)
   runs a program over pcore.RootContext / threadlocal.Init / Set / Delete / px.DoWithContext with the current, a new
   or an enclosing context / pcore.Do / Try / DoWithParent / TryWithParent / recover / panic; the harness records at
   every observation (threadlocal.Initialized(), the identity of threadlocal.Get(key)), the panics, and the entry at the
   end.  The model must produce the same events and the same final entry. *)
Definition root_case := (option table * list rop * list revent * option table)%type.

Definition root_check (c : root_case) : bool :=
  let '(start, ps, observed, final) := c in
  let '(tr, fin) := rrun start ps in
  list_eqb revent_eqb tr observed && table_eqb fin final.

Definition root_mismatches (cs : list root_case) : list N := failing root_check cs.

(* root_spec (no model; C14_scopes_restore on the observed data): when every top-level statement is a scope call or
   an observation, every observation at top level and the final entry report the entry the goroutine started with *)
Definition root_spec_check (c : root_case) : bool :=
  let '(start, ps, observed, final) := c in
  negb (forallb is_scope ps) || table_eqb final start.

Definition root_spec_violations (cs : list root_case) : list N := failing root_spec_check cs.

(* reg_machine (model tie of Model/CtxReg.v, family registry): a history of context creations (pcore.NewContext, the body
   of pcore.Do, Context.Fork / px.Fork / px.Go / pcore.DoWithParent(c, ..), pcore.WithParent), registrations in the
   implementation registry (RegisterType, Reflector().TypeFromReflect + AddTypes), loader definitions and observations
   (ReflectedToType of 4 Go types, the type name of px.Wrap of a value of each, TypeToReflected of 3 names, px.Load of
   3 names) run on real contexts, contexts of goroutine routes in goroutines of their own.  The model must give the same
   result for every call: same panics (ImplAlreadyRegistered, AttemptToRedefine) and the same lookups. *)
Definition reg_case := (list hop * list hres)%type.

Definition reg_check (c : reg_case) : bool :=
  let '(os, observed) := c in list_eqb hres_eqb (snd (hrun os)) observed.

Definition reg_mismatches (cs : list reg_case) : list N := failing reg_check cs.

(* reg_spec (no model; C14_registry_late_registration_reaches_descendants on the observed data): after a registration
   of (t, g) through context c that succeeded, every observation through c or a descendant of c (registry parents as
   given by the creating calls) reports type t for the Go type g - until the next successful registration of g
   anywhere - and no call ever reported a missing context or level *)
Definition reg_parent (o : hop) : option (option nat) :=     (* Some p: the call creates a context with registry parent p *)
  match o with
  | HNew | HDo => Some None
  | HFork c => Some (Some c)
  | HWith cr _ => Some (Some cr)
  | _ => None
  end.

Fixpoint descends (fuel : nat) (ps : list (option nat)) (d c : nat) : bool :=
  Nat.eqb d c ||
  match fuel with
  | O => false
  | S f => match nth d ps None with Some p => descends f ps p c | None => false end
  end.

(* facts: (context, type identity, Go type) of the latest successful registration of each Go type *)
Fixpoint reg_spec_run (ps : list (option nat)) (facts : list (nat * N * N)) (os : list hop) (rs : list hres) : bool :=
  match os, rs with
  | o :: os', r :: rs' =>
    match r with HBad => false | _ =>
    match o, r with
    | HRegister c t g, HOk =>
      reg_spec_run ps ((c, t_id t, g) :: filter (fun f => negb (N.eqb (snd f) g)) facts) os' rs'
    | HObserve d, HObs r2ts _ _ _ =>
      forallb (fun f => let '(c, tid, g) := f in
                        negb (descends (length ps) ps d c) ||
                        rres_eqb N.eqb (nth (N.to_nat g) r2ts RStuck) (RFound tid)) facts
      && reg_spec_run ps facts os' rs'
    | _, _ =>
      match reg_parent o, r with
      | Some p, HOk => reg_spec_run (ps ++ [p]) facts os' rs'
      | _, _ => reg_spec_run ps facts os' rs'
      end
    end end
  | [], [] => true
  | _, _ => false
  end.

Definition reg_spec_check (c : reg_case) : bool := let '(os, observed) := c in reg_spec_run [] [] os observed.

Definition reg_spec_violations (cs : list reg_case) : list N := failing reg_spec_check cs.
