(* Correspondence obligations for the lattice: model answers vs. observed implementation answers. *)
From Coq Require Import ZArith NArith Bool List.
From PcoreV Require Import Model.Base Model.Ty Model.Lattice.
Import ListNotations.

Definition oracle := list (str * str * bool).
Fixpoint rx_of (o : oracle) (p s : str) : bool :=
  match o with
  | [] => false
  | (p', s', r) :: t => if (str_eqb p p' && str_eqb s s')%bool then r else rx_of t p s
  end.

Definition asg_check (o : oracle) (c : ty * ty * bool) : bool :=
  Bool.eqb (asg (rx_of o) true (fst (fst c)) (snd (fst c))) (snd c).
Definition asg_mismatches (o : oracle) (cs : list (ty * ty * bool)) : list N := failing (asg_check o) cs.

Definition inst_check (o : oracle) (c : ty * value * bool) : bool :=
  Bool.eqb (inst (rx_of o) true (fst (fst c)) (snd (fst c))) (snd c).
Definition inst_mismatches (o : oracle) (cs : list (ty * value * bool)) : list N := failing (inst_check o) cs.
