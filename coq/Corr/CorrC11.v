(* Correspondence obligations for C11: the model's outputs on the inputs the implementation ran.
   Each `*_mismatches` returns the indices of the cases on which the model and the observation differ. *)
From Coq Require Import ZArith NArith Bool List.
From PcoreV Require Import Model.Base Model.Json Model.Pb Model.PbMem Model.JsonSer Model.JsonStr Model.JsonText.
Import ListNotations.
Open Scope Z_scope.

Definition toks_eqb := list_eqb jtoken_eqb.
Definition evs_eqb := list_eqb ev_eqb.

(* ---- JSON: (event tree, what NewJsonStreamer wrote as tokens, json.Valid(bytes), what JsonToData delivered) *)
Definition jcase := (ev * res (list jtoken) * bool * option (res (list ev)))%type.

(* serialization/jsonstreamer.go: Add/AddRef/AddArray/AddHash/delimit/write *)
Definition json_stream_check (c : jcase) : bool :=
  let '(e, w, _, _) := c in res_eqb toks_eqb (stream_top e) w.
(* the RFC 8259 recogniser of the model agrees with encoding/json on what was written *)
Definition json_valid_check (c : jcase) : bool :=
  let '(_, w, v, _) := c in
  match w with Ok toks => Bool.eqb (json_valid toks) v | _ => true end.
(* serialization/jsontodata.go: JsonToData/jsonValues/addValue on what was written *)
Definition json_read_check (c : jcase) : bool :=
  let '(_, w, _, r) := c in
  match w, r with
  | Ok toks, Some r' => res_eqb evs_eqb (read toks) r'
  | _, _ => true
  end.
Definition json_stream_mismatches (cs : list jcase) : list N := failing json_stream_check cs.
Definition json_valid_mismatches (cs : list jcase) : list N := failing json_valid_check cs.
Definition json_read_mismatches (cs : list jcase) : list N := failing json_read_check cs.

(* ---- reader on arbitrary JSON texts: (tokens, json.Valid(bytes), what JsonToData delivered if valid) *)
Definition rcase := (list jtoken * bool * option (res (list ev)))%type.
Definition reader_valid_check (c : rcase) : bool :=
  let '(toks, v, _) := c in Bool.eqb (json_valid toks) v.
Definition reader_read_check (c : rcase) : bool :=
  let '(toks, _, r) := c in
  match r with Some r' => res_eqb evs_eqb (read toks) r' | None => true end.
Definition reader_valid_mismatches (cs : list rcase) : list N := failing reader_valid_check cs.
Definition reader_read_mismatches (cs : list rcase) : list N := failing reader_read_check cs.

(* ---- what the model computes in place of strconv / encoding/json / unicode/utf8 *)
Inductive scase :=
| SCFloat (bits : Z) (finite intlike : bool)   (* json.Marshal(f) succeeds / its text has no '.', 'e', 'E' *)
| SCBig (z : Z) (bits : Z)                     (* json.Number(text of z).Float64() *)
| SCUtf8 (s back : str) (valid : bool).        (* decode(json.Marshal(s)), utf8.ValidString(s) *)
Definition scalar_check (c : scase) : bool :=
  match c with
  | SCFloat b fin il => Bool.eqb (float_finite b) fin && Bool.eqb (float_intlike b) il
  | SCBig z b => Z.eqb (float_of_Z_bits z) b
  | SCUtf8 s back v => str_eqb (utf8_coerce s) back && Bool.eqb (utf8_valid s) v
  end.
Definition scalar_mismatches (cs : list scase) : list N := failing scalar_check cs.

(* ---- protobuf and collector *)
Inductive pcase :=
| PV (v : value) (d : pb) (back : res value) (evs : res (list ev))
    (* ToPBData(v), FromPBData of that, the calls ConsumePBData makes for it *)
| PE (e : ev) (d : res pb) (evs : option (res (list ev))) (coll : option (res value)).
    (* NewProtoConsumer after the calls e: Value(); ConsumePBData of that; BasicCollector after the calls e *)

Definition consume_list (d : pb) : res (list ev) := let* e := consume_pb d in Ok [e].

Definition pb_check (c : pcase) : bool :=
  match c with
  | PV v d back evs =>
      pb_eqb (to_pb v) d && res_eqb value_eqb (from_pb d) back && res_eqb evs_eqb (consume_list d) evs
  | PE e d evs coll =>
      res_eqb pb_eqb (pc_run e) d &&
      res_eqb pb_eqb (pc_run_mem e) d &&      (* the same over Go slices: capacity 8, doubling (Model/PbMem.v) *)
      match d, evs with
      | Ok d', Some r => res_eqb evs_eqb (consume_list d') r
      | _, _ => true
      end &&
      match coll with
      | Some r => res_eqb value_eqb (collect e) r
      | None => true
      end
  end.
Definition pb_mismatches (cs : list pcase) : list N := failing pb_check cs.

(* ---- the Serializer's calls: (options + capabilities of the consumer, value, the calls the consumer received) *)
Inductive sercase := SE (c : scfg) (v : sval) (evs : list ev).
(* serialization/serializer.go: Convert/toData/process/nonStringKeyedHashToData/toKeyExtendedHash/unknownToStringWithWarning *)
Definition ser_check (x : sercase) : bool :=
  match x with SE c v evs => evs_eqb [ser_top c v] evs end.
Definition ser_mismatches (cs : list sercase) : list N := failing ser_check cs.

(* ---- string lexemes, byte by byte (Model/JsonStr.v) *)
Inductive lcase :=
| LW (s : str) (marshal written : list N) (decoded : option str)
    (* json.Marshal(s); the bytes the real jsonStreamer wrote for the String s (as top-level value, array element,
       hash value, hash key, or through DataToJson - the route is in the replay input); json.Unmarshal of those bytes *)
| LR (lex : list N) (decoded : option str).
    (* any candidate lexeme (random, damaged): json.Unmarshal(lex, &string) *)

Definition opt_str_eqb (a b : option str) : bool :=
  match a, b with
  | Some x, Some y => str_eqb x y
  | None, None => true
  | _, _ => false
  end.

Definition str_lexeme_check (c : lcase) : bool :=
  match c with
  | LW s m w d =>
      list_eqb N.eqb (json_escape s) m &&                 (* the model of json.Marshal(string), byte for byte *)
      opt_str_eqb (json_unquote w) d &&                   (* the model of the string reader on what was written *)
      opt_str_eqb (json_unquote (write_string s)) d       (* jsonstreamer.go:108 write, modulo decoding *)
  | LR lex d => opt_str_eqb (json_unquote lex) d
  end.
Definition str_lexeme_mismatches (cs : list lcase) : list N := failing str_lexeme_check cs.

(* ---- the bytes of a whole text (Model/JsonText.v).  The oracles of that model (strconv's float text and float
   parsing) are supplied per case as tables holding the library's answers for the floats of the event tree
   (json.Marshal) and for the fraction/exponent number lexemes of the bytes (strconv.ParseFloat). *)
Inductive tcase :=
| TW (e : ev) (ftab : list (Z * list N)) (ptab : list (list N * Z)) (written : res (list N)) (dec : option (list jtoken))
    (* the bytes the REAL jsonStreamer wrote for e; the tokens the REAL json.Decoder (UseNumber) then delivers
       (None: Token() reported an error before EOF) *)
| TX (bytes : list N) (ptab : list (list N * Z)) (toks : list jtoken) (valid : bool) (dec : option (list jtoken)).
    (* any text (random, damaged): the harness' tokenizer, json.Valid, the real Decoder's tokens *)

(* json.Decoder.Token() never returns ',' or ':' *)
Definition strip_sep (l : list jtoken) : list jtoken :=
  filter (fun t => match t with Comma | Colon => false | _ => true end) l.

Definition dec_check (toks : list jtoken) (dec : option (list jtoken)) : bool :=
  match dec with Some d => toks_eqb (strip_sep toks) d | None => true end.

Definition text_check (c : tcase) : bool :=
  match c with
  | TW e ftab ptab written dec =>
      let ft := ftab_lookup ftab in
      let pf := ptab_lookup ptab in
      floats_lawful ft pf e &&                                             (* the law the theorems assume, on this case's floats *)
      res_eqb toks_eqb (lex_res pf (btext ft e)) (lex_res pf written) &&   (* jsonstreamer.go at byte level vs the real bytes, modulo lexing *)
      res_eqb toks_eqb (lex_res pf written) (stream_top e) &&              (* the real bytes seen through the model's tokenizer = the token model *)
      match written with Ok bs => dec_check (lex pf bs) dec | _ => true end  (* the model's tokenizer vs json.Decoder on the real bytes *)
  | TX bytes ptab toks valid dec =>
      let pf := ptab_lookup ptab in
      toks_eqb (lex pf bytes) toks &&                                      (* the model's tokenizer vs the harness' *)
      Bool.eqb (json_valid (lex pf bytes)) valid &&                        (* ... + RFC 8259 recogniser vs json.Valid on the bytes *)
      dec_check (lex pf bytes) dec
  end.
Definition text_mismatches (cs : list tcase) : list N := failing text_check cs.
