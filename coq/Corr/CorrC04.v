(* Correspondence obligations of C04: the types observed on the implementation (decoded structurally through the
   hook) against the model's infer / infer_detailed / common / generalize / data_asg / rich_asg, compared by
   structural equality of `ty`. *)
From Coq Require Import ZArith NArith Bool List.
From PcoreV Require Import Model.Base Model.Ty Model.Lattice Model.Infer Model.InferHist Model.InferAsk Model.InferRuntime Corr.CorrC01.
Import ListNotations.

(* (value, observed v.PType(), observed DetailedValueType(v)) *)
Definition infer_check (o : oracle) (c : value * ty * ty) : bool :=
  ty_eqb (infer (rx_of o) (fst (fst c))) (snd (fst c)).
Definition infer_mismatches (o : oracle) (cs : list (value * ty * ty)) : list N := failing (infer_check o) cs.

Definition detailed_check (o : oracle) (c : value * ty * ty) : bool :=
  ty_eqb (infer_detailed (rx_of o) (fst (fst c))) (snd c).
Definition detailed_mismatches (o : oracle) (cs : list (value * ty * ty)) : list N := failing (detailed_check o) cs.

(* (a, b, observed CommonType(a, b)) *)
Definition common_check (o : oracle) (c : ty * ty * ty) : bool :=
  ty_eqb (common (rx_of o) (fst (fst c)) (snd (fst c))) (snd c).
Definition common_mismatches (o : oracle) (cs : list (ty * ty * ty)) : list N := failing (common_check o) cs.

(* (t, observed Generalize(t), (observed IsAssignable(Data, t), observed IsAssignable(RichData, t))) *)
Definition generalize_check (c : ty * ty * (bool * bool)) : bool := ty_eqb (generalize (fst (fst c))) (snd (fst c)).
Definition generalize_mismatches (cs : list (ty * ty * (bool * bool))) : list N := failing generalize_check cs.

Definition alias_check (o : oracle) (c : ty * ty * (bool * bool)) : bool :=
  Bool.eqb (data_asg (rx_of o) (fst (fst c))) (fst (snd c)) && Bool.eqb (rich_asg (rx_of o) (fst (fst c))) (snd (snd c)).
Definition alias_mismatches (o : oracle) (cs : list (ty * ty * (bool * bool))) : list N := failing (alias_check o) cs.

(* (objects, operations, the types the returned objects hold at the END of the history): the cache model
   Model/InferHist.v `run` against the implementation; by C04_history_pure `run` is the pure `spec_run` *)
Definition hist_check (o : oracle) (c : list node * list op * list ty) : bool :=
  let ns := fst (fst c) in
  let ops := snd (fst c) in
  wf_dag ns && forallb (op_ok ns) ops && list_eqb ty_eqb (snd (run (rx_of o) ns ops)) (snd c).
Definition hist_mismatches (o : oracle) (cs : list (list node * list op * list ty)) : list N := failing (hist_check o) cs.

(* (objects, operations incl. the questions and the asserting calls, (the types the returned objects hold at the END of
   the history, the answers as given when last asked = at the end)): Model/InferAsk.v `qrun` against the
   implementation; by C04_history_ask_pure `qrun` is the pure `qspec_run` *)
Definition answer_eqb (a b : bool * bool) : bool := Bool.eqb (fst a) (fst b) && Bool.eqb (snd a) (snd b).
Definition ask_check (o : oracle) (c : list node * list qop * (list ty * list (bool * bool))) : bool :=
  let ns := fst (fst c) in
  let ops := snd (fst c) in
  let st := qrun (rx_of o) ns ops in
  wf_dag ns && forallb (qop_ok ns) ops && list_eqb ty_eqb (snd (fst st)) (fst (snd c)) && list_eqb answer_eqb (snd st) (snd (snd c)).
Definition ask_mismatches (o : oracle) (cs : list (list node * list qop * (list ty * list (bool * bool)))) : list N :=
  failing (ask_check o) cs.

(* Runtime types (Model/InferRuntime.v) against the implementation; reflect is the oracle: `gt` lists the pairs (x, y) of
   numbered Go types with x.AssignableTo(y), `gn` their String() *)
Inductive rcase :=
| RAsg (t o : rty) (observed : bool)          (* px.IsAssignable(t, o) *)
| RInst (t : rty) (v : N) (observed : bool)   (* px.IsInstance(t, WrapRuntime(value of Go type v)) *)
| ROf (v : N) (observed : rty)                (* WrapRuntime(value of Go type v).PType() *)
| RCommon (a b observed : rty)                (* CommonType(a, b) *)
| RFold (vs : list N) (observed : rty).       (* the element type of WrapValues(vs).PType() *)

Definition gasg_of (gt : list (N * N)) (x y : N) : bool := existsb (fun p => N.eqb (fst p) x && N.eqb (snd p) y) gt.
Fixpoint tname_of (gn : list (N * str)) (x : N) : str :=
  match gn with
  | [] => []
  | (y, s) :: gn' => if N.eqb x y then s else tname_of gn' x
  end.

Definition runtime_check (gt : list (N * N)) (gn : list (N * str)) (c : rcase) : bool :=
  let gasg := gasg_of gt in
  let tname := tname_of gn in
  match c with
  | RAsg t o b => Bool.eqb (rt_asg gasg t o) b
  | RInst t v b => Bool.eqb (rt_inst gasg tname t v) b
  | ROf v t => rty_eqb (rt_of tname v) t
  | RCommon a b c => rty_eqb (rt_common gasg a b) c
  | RFold vs t => match rt_elem gasg tname vs with Some t' => rty_eqb t' t | None => false end
  end.
Definition runtime_mismatches (gt : list (N * N)) (gn : list (N * str)) (cs : list rcase) : list N := failing (runtime_check gt gn) cs.
