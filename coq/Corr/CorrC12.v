(* Correspondence obligations for C12: on every history the implementation ran,
     loader_model  — the model (Model/Loader.v) produces exactly the observed outputs, including the
                     distinction between an absent entry and a cached miss, error codes and the absence
                     of runtime faults; the history must lie in the domain of the theorems (well-formed
                     names, well-formed configuration);
     loader_spec   — the observed outputs, with a cached miss projected to a miss, are the outputs of the
                     abstract write-once specification (Model/LoaderSpec.v). *)
From Coq Require Import ZArith NArith Bool List.
From PcoreV Require Import Model.Base Model.Loader Model.LoaderSpec Model.LoaderAdd.
Import ListNotations.

(* A history is a list of `xop`: the operations of Model/Loader.v and px.AddTypes with object types and type
   sets (Model/LoaderAdd.v); the loaders are numbered as in the model (the type-set loaders that the resolution
   of a type set creates count). *)
Definition loader_check (cfg : config) (c : list xop * list xout) : bool :=
  forallb (xop_wf cfg) (fst c) && list_eqb xout_eqb (xouts cfg (fst c)) (snd c).

Definition loader_mismatches (cfg : config) (cs : list (list xop * list xout)) : list N :=
  if cfg_wf cfg then failing (loader_check cfg) cs else failing (fun _ => false) cs.

Definition loader_spec_check (cfg : config) (c : list xop * list xout) : bool :=
  list_eqb xout_eqb (spec_xouts cfg (fst c)) (map xproject (snd c)).

Definition loader_spec_violations (cfg : config) (cs : list (list xop * list xout)) : list N :=
  failing (loader_spec_check cfg) cs.
