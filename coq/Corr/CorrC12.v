(* Correspondence obligations for C12: on every history the implementation ran,
     loader_model  — the model (Model/Loader.v, Model/LoaderAdd.v, run through contexts: Model/LoaderCtx.v) produces
                     exactly the observed outputs, including the distinction between an absent entry and a cached
                     miss, error codes and the absence of runtime faults, and after every operation the context the
                     operation went through holds the loader the model says (c.Loader(), by its number); the history
                     must lie in the domain of the theorems (well-formed names, well-formed configuration);
     loader_spec   — the observed outputs, with a cached miss projected to a miss, are the outputs of the
                     abstract write-once specification (Model/LoaderSpec.v). *)
From Coq Require Import ZArith NArith Bool List.
From PcoreV Require Import Model.Base Model.Loader Model.LoaderSpec Model.LoaderAdd Model.LoaderCtx.
Import ListNotations.

(* A history is a list of `xop`: the operations of Model/Loader.v and px.AddTypes with object types and type
   sets (Model/LoaderAdd.v); the loaders are numbered as in the model (the type-set loaders that the resolution
   of a type set creates count).  Third component: per operation, the number of the loader that the context of the
   operation's loader held afterwards. *)
Definition hcase : Type := list xop * list xout * list nat.

Definition loader_check (cfg : config) (c : hcase) : bool :=
  let '(xs, outs, ctxs) := c in
  forallb (xop_wf cfg) xs && list_eqb xout_eqb (couts cfg xs) outs && list_eqb Nat.eqb (cctxs cfg xs) ctxs.

Definition loader_mismatches (cfg : config) (cs : list hcase) : list N :=
  if cfg_wf cfg then failing (loader_check cfg) cs else failing (fun _ => false) cs.

Definition loader_spec_check (cfg : config) (c : hcase) : bool :=
  let '(xs, outs, _) := c in
  list_eqb xout_eqb (spec_xouts cfg xs) (map xproject outs).

Definition loader_spec_violations (cfg : config) (cs : list hcase) : list N :=
  failing (loader_spec_check cfg) cs.
