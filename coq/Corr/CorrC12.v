(* Correspondence obligations for C12: on every history the implementation ran,
     loader_model  — the model (Model/Loader.v) produces exactly the observed outputs, including the
                     distinction between an absent entry and a cached miss, error codes and the absence
                     of runtime faults; the history must lie in the domain of the theorems (well-formed
                     names, well-formed configuration);
     loader_spec   — the observed outputs, with a cached miss projected to a miss, are the outputs of the
                     abstract write-once specification (Model/LoaderSpec.v). *)
From Coq Require Import ZArith NArith Bool List.
From PcoreV Require Import Model.Base Model.Loader Model.LoaderSpec.
Import ListNotations.

Definition loader_check (cfg : config) (c : list op * list out) : bool :=
  forallb op_wf (fst c) && list_eqb out_eqb (outs cfg (fst c)) (snd c).

Definition loader_mismatches (cfg : config) (cs : list (list op * list out)) : list N :=
  if cfg_wf cfg then failing (loader_check cfg) cs else failing (fun _ => false) cs.

Definition loader_spec_check (cfg : config) (c : list op * list out) : bool :=
  list_eqb out_eqb (spec_outs cfg (fst c)) (map project (snd c)).

Definition loader_spec_violations (cfg : config) (cs : list (list op * list out)) : list N :=
  failing (loader_spec_check cfg) cs.
