(* Correspondence obligations for C07: the model's Equals answers, hash keys, Hash.Get results and
   Unique results on the values the implementation ran (harness/cmd/c07). *)
From Coq Require Import ZArith NArith Bool List.
From PcoreV Require Import Model.Base Model.Keys Model.KeysIndex Model.KeysCache Model.KeysNames Model.KeysUri.
Import ListNotations.

(* the positions j with x.Equals(pool[j]) *)
Fixpoint eq_positions_from (x : value) (pool : list value) (j : N) : list N :=
  match pool with
  | [] => []
  | y :: pool' => if veq x y then j :: eq_positions_from x pool' (N.succ j) else eq_positions_from x pool' (N.succ j)
  end.
Definition row_of (x : value) (pool : list value) : list N := eq_positions_from x pool 0%N.

(* a case: index of the value in the pool, the observed px.ToKey (None: InvalidHashKey), the positions
   of the pool values that the value was observed to be Equal to.  The value must satisfy the representation
   invariant that the theorems assume. *)
Definition c07_value_check (pool : list value) (c : nat * option (list N) * list N) : bool :=
  match c with
  | (k, okey, row) =>
      match nth_error pool k with
      | None => false
      | Some x => wf_value x && option_eqb str_eqb (to_key x) okey && list_eqb N.eqb (row_of x pool) row
      end
  end.
Definition c07_value_mismatches (pool : list value) (cs : list (nat * option (list N) * list N)) : list N :=
  failing (c07_value_check pool) cs.

(* a case: a hash whose values are the positions 0, 1, ..., a probe, the observed Get (the integer
   found) and IncludesKey *)
Definition c07_get_check (c : value * value * option Z) : bool :=
  match c with
  | (VHash es, q, obs) =>
      wf_value (VHash es)
      && option_eqb Z.eqb (match hash_get es q with
                           | Some (VInt z) => Some z
                           | Some _ => Some (-2)%Z
                           | None => None
                           end) obs
      && Bool.eqb (hash_includes_key es q) (match obs with Some _ => true | None => false end)
  | _ => false
  end.
Definition c07_get_mismatches (cs : list (value * value * option Z)) : list N := failing c07_get_check cs.

(* a case: a list of values and the hash keys of the values that Array.Unique keeps, in order *)
Definition c07_unique_check (c : list value * list (list N)) : bool :=
  list_eqb str_eqb (map vkey (unique (fst c))) (snd c).
Definition c07_unique_mismatches (cs : list (list value * list (list N))) : list N := failing c07_unique_check cs.

(* ------------------------------------------------------------------------------------------ *)
(* the Hash made from an array (WrapHashFromArray / Hash.new): the key index is pre-built.
   A case: the elements of the array;
           the observed entries of the new Hash as (ToKey key, ToKey value), in order (None: the constructor reported an error);
           probes q with the observed Get through the pre-built index
             (None: runtime fault, Some None: not found, Some (Some k): found a value whose ToKey is k) and IncludesKey;
           other hashes o (built by WrapHash) with the observed h.Equals(o) and o.Equals(h) (None: runtime fault). *)
Definition look_obs (l : look) : option (option (list N)) :=
  match l with
  | LFound v => Some (Some (vkey v))
  | LMissing => Some None
  | LFault => None
  end.

Definition from_array_case : Type :=
  list value * option (list (list N * list N)) * list (value * option (option (list N)) * bool) * list (value * option bool * option bool).

Definition c07_from_array_check (c : from_array_case) : bool :=
  match c with
  | (l, obs, probes, eqs) =>
      forallb (fun x => wf_value x && keyable x) l &&
      match hash_from_array l, obs with
      | None, None => true
      | Some h, Some oes =>
          list_eqb (fun a b => str_eqb (fst a) (fst b) && str_eqb (snd a) (snd b))
                   (map (fun e => (vkey (fst e), vkey (snd e))) (h_entries h)) oes
          && wf_value (VHash (h_entries h))
          && forallb (fun p => match p with (q, o, inc) =>
                                 option_eqb (option_eqb str_eqb) (look_obs (hobj_get h q)) o
                                 && Bool.eqb (hobj_includes_key h q) inc end) probes
          && forallb (fun p => match p with
                               | (VHash fs, o1, o2) =>
                                   option_eqb Bool.eqb (hobj_equals h (wrap_hash fs)) o1
                                   && option_eqb Bool.eqb (hobj_equals (wrap_hash fs) h) o2
                               | _ => false
                               end) eqs
      | _, _ => false
      end
  end.
Definition c07_from_array_mismatches (cs : list from_array_case) : list N := failing c07_from_array_check cs.

(* ------------------------------------------------------------------------------------------ *)
(* the lazily cached inferred types (Model/KeysCache.v).
   A case: the two operands as object graphs, every Array and Hash node with the content of its fields
   reducedType / detailedType as read from the implementation's objects at the time of the call (after the
   harness had filled the caches of the receiver, the argument or both in one of several ways);
   the observed x.Equals(y); the observed px.ToKey of both (None: InvalidHashKey). *)
Definition cache_case : Type := cval * cval * bool * option (list N) * option (list N).

Definition cto_key (x : cval) : option (list N) := if keyable (erase x) then Some (ckey x) else None.

Definition c07_cache_check (c : cache_case) : bool :=
  match c with
  | (x, y, e, kx, ky) =>
      cwf x && cwf y && wf_value (erase x) && wf_value (erase y)
      && Bool.eqb (cveq x y) e
      && option_eqb str_eqb (cto_key x) kx && option_eqb str_eqb (cto_key y) ky
  end.
Definition c07_cache_mismatches (cs : list cache_case) : list N := failing c07_cache_check cs.

(* ------------------------------------------------------------------------------------------ *)
(* the cached canonical form of a TypedName (Model/KeysNames.v).
   A case: two construction expressions (new / from a map key / Child / Parent / RelativeTo, nested), the observed
   result of each - the visible parts namespace, authority, name and the MapKey of the value, or nil / not relative /
   a reported error / a runtime fault - and the observed Equals answers in both directions (None: an operand is no
   name). *)
Inductive nobs :=
 | OName (ns auth name map_key : str)
 | ONil | ONotRel | OErr | OFault.

Definition nobs_eqb (r : nres) (o : nobs) : bool :=
  match r, o with
  | RName t, OName ns auth name k =>
      str_eqb (tn_ns t) ns && str_eqb (tn_auth t) auth && str_eqb (tn_name t) name && str_eqb (tn_map_key t) k
  | RNil, ONil | RNotRel, ONotRel | RErr, OErr | RFault, OFault => true
  | _, _ => false
  end.

Definition name_case : Type := nexpr * nexpr * nobs * nobs * option bool * option bool.

Definition c07_name_check (c : name_case) : bool :=
  match c with
  | (e1, e2, o1, o2, q12, q21) =>
      let r1 := nx_eval e1 in
      let r2 := nx_eval e2 in
      nobs_eqb r1 o1 && nobs_eqb r2 o2 &&
      match r1, r2 with
      | RName a, RName b => option_eqb Bool.eqb (Some (tn_equals a b)) q12 && option_eqb Bool.eqb (Some (tn_equals b a)) q21
      | _, _ => match q12, q21 with None, None => true | _, _ => false end
      end
  end.
Definition c07_name_mismatches (cs : list name_case) : list N := failing c07_name_check cs.

(* ------------------------------------------------------------------------------------------ *)
(* URI types (Model/KeysUri.v).
   A case: the parameters of two URI types as the harness reads them from what it built the types from (nothing;
   the fields of the url.URL that net/url parses from the text; the entries of the Hash), the observed a.Equals(b)
   and b.Equals(a), the observed px.ToKey of both. *)
Definition uri_case : Type := uparams * uparams * bool * bool * list N * list N.

Definition c07_uri_check (c : uri_case) : bool :=
  match c with
  | (a, b, eab, eba, ka, kb) =>
      uri_wf a && uri_wf b
      && Bool.eqb (uri_equals a b) eab && Bool.eqb (uri_equals b a) eba
      && str_eqb (uri_key a) ka && str_eqb (uri_key b) kb
  end.
Definition c07_uri_mismatches (cs : list uri_case) : list N := failing c07_uri_check cs.
