(* Correspondence obligations of C19: the model's describe / assert_type / assert_instance against what
   the implementation was observed to do (px.VerifDescribe = the describer's result before formatting,
   px.AssertType / px.AssertInstance with the recovered issue). *)
From Coq Require Import ZArith NArith Bool List.
From PcoreV Require Import Model.Base Model.Ty Model.Lattice Model.Describe.
Import ListNotations.

(* Go regexp verdicts supplied with the cases (same shape as CorrC01; kept separate so that the cases
   files of C19 depend on this file only) *)
Definition oracle := list (str * str * bool).
Fixpoint rx_of (o : oracle) (p s : str) : bool :=
  match o with
  | [] => false
  | (p', s', r) :: t => if (str_eqb p p' && str_eqb s s')%bool then r else rx_of t p s
  end.

(* TupleType.Equals at typemismatchdescriber.go:771 is consulted only after internalDescribe has found
   the pair not assignable; equal types are assignable (reflexivity, C03), so the verdict there is `false`.
   The harness counts tuple pairs that are Equal but not assignable (none) and any such pair would show
   up as a mismatch of this correspondence. *)
Definition teq0 : ty -> ty -> bool := fun _ _ => false.

Inductive observed := OList (ms : list mismatch) | OCrash.

Definition res_obs (r : res (list mismatch)) (o : observed) : bool :=
  match r, o with
  | Ok ms, OList ms' => list_eqb mismatch_eqb ms ms'
  | Fault _, OCrash => true
  | _, _ => false
  end.

(* (subject name, expected, actual, observed) *)
Definition desc_case := (str * ty * ty * observed)%type.
Definition desc_check (o : oracle) (c : desc_case) : bool :=
  match c with
  | (name, e, a, obs) => res_obs (describe_mismatch (rx_of o) teq0 name e a) obs
  end.
Definition desc_mismatches (o : oracle) (cs : list desc_case) : list N := failing (desc_check o) cs.

(* the outcome of an assertion: the classes of the mismatches are recovered from the wording of the detail
   of the raised issue (their paths are tied by the describe cases) *)
Inductive aobserved := AReturns | ARaises (classes : list mclass) | ACrash.
Definition out_obs (r : res outcome) (o : aobserved) : bool :=
  match r, o with
  | Ok Returns, AReturns => true
  | Ok (Raises TypeMismatchIssue ms), ARaises cs => list_eqb mclass_eqb (map fst ms) cs
  | Fault _, ACrash => true
  | _, _ => false
  end.

(* AssertType: (name, expected, actual, observed) *)
Definition atype_case := (str * ty * ty * aobserved)%type.
Definition atype_check (o : oracle) (c : atype_case) : bool :=
  match c with
  | (name, e, a, obs) => out_obs (assert_type (rx_of o) teq0 name e a) obs
  end.
Definition atype_mismatches (o : oracle) (cs : list atype_case) : list N := failing (atype_check o) cs.

(* AssertInstance: (name, expected, value, detailed type of the value as inferred by the implementation, observed) *)
Definition ainst_case := (str * ty * value * ty * aobserved)%type.
Definition ainst_check (o : oracle) (c : ainst_case) : bool :=
  match c with
  | (name, e, v, dt, obs) => out_obs (assert_instance (rx_of o) teq0 name e v dt) obs
  end.
Definition ainst_mismatches (o : oracle) (cs : list ainst_case) : list N := failing (ainst_check o) cs.

(* ---- the Callable describer (Model/DescribeCallable.v) ---- *)
From PcoreV Require Import Model.DescribeCallable.

(* what px.VerifDescribeTyped returned (class, path, presence of the carried types), or a crash of it *)
Inductive cobserved := COList (ms : list tmismatch) | COCrash.
Definition cres_obs (r : res (list tmismatch)) (o : cobserved) : bool :=
  match r, o with
  | Ok ms, COList ms' => list_eqb tmismatch_eqb ms ms'
  | Fault _, COCrash => true
  | _, _ => false
  end.
Definition is_ok {A} (r : res A) : bool := match r with Ok _ => true | Fault _ => false end.

(* (subject name, expected Callable, actual, observed IsAssignable, observed structured description,
    px.DescribeMismatch returned a text (did not crash), observed AssertType) *)
Definition callable_case := (str * cty * actual * bool * cobserved * bool * aobserved)%type.
Definition callable_check (o : oracle) (c : callable_case) : bool :=
  match c with
  | (name, e, a, oasg, obs, text_returned, aobs) =>
      Bool.eqb (casg_actual (rx_of o) e a) oasg &&
      cres_obs (idesc_callable (rx_of o) teq0 e a (subject_path name)) obs &&
      Bool.eqb (is_ok (describe_mismatch_callable (rx_of o) teq0 name e a)) text_returned &&
      out_obs (assert_type_callable (rx_of o) teq0 name e a) aobs
  end.
Definition callable_mismatches (o : oracle) (cs : list callable_case) : list N := failing (callable_check o) cs.

(* ---- the walk of `describe` over the expected type (Model/DescribeWalk.v) ---- *)
From PcoreV Require Import Model.DescribeWalk.

(* the visits observed through expected.Accept(visitor, nil): the aliases by the order in which the harness
   numbered them (= the environment it printed), the unresolved references by name *)
Inductive wobserved := WVisits (es : list ev) | WMany (n : N) | WCrash.
(* what the describer returned (px.VerifDescribe): nothing / one unresolved-reference mismatch / anything else *)
Inductive sobserved := SNone | SUnresolved | SOther | SCrash.

Definition ev_eqb (a b : ev) : bool :=
  match a, b with
  | VOther, VOther => true
  | VRef x, VRef y => str_eqb x y
  | VAlias i, VAlias j => Nat.eqb i j
  | _, _ => false
  end.

(* (resolved types of the aliases, expected type, observed visits, observed IsAssignable(expected, actual),
    observed first stage of the description) *)
Definition walk_case := (list aty * aty * wobserved * bool * sobserved)%type.
Definition walk_check (c : walk_case) : bool :=
  match c with
  | (env, t, obs, oasg, sobs) =>
      closed_env env && closed (length env) t &&
      match accept env t, obs with
      | WOk es, WVisits es' => list_eqb ev_eqb es es' && Nat.leb (length es') (visit_bound env t)
      | WOk es, WMany n => N.eqb (N.of_nat (length es)) n
      | WFault, WCrash => true
      | _, _ => false
      end &&
      match describe_stage env t oasg, sobs with
      | WOk DNoMismatch, SNone => true
      | WOk (DUnresolved _), SUnresolved => true
      | WOk DInternal, SOther => true
      | WFault, SCrash => true
      | _, _ => false
      end
  end.
Definition walk_mismatches (cs : list walk_case) : list N := failing walk_check cs.

(* ---- the recursion of the describer on the actual side (Model/DescribeActual.v) ---- *)
From PcoreV Require Import Model.DescribeActual.

(* (resolved types of the aliases met in the actual type - not consulted by the model, printed so that the case can
    be read -, the actual type, for every mismatch the describer returned (px.VerifDescribe) the number of its path
    elements below the subject that are not of kind variant) *)
Definition actual_case := (list aty * aty * list nat)%type.
Definition actual_check (c : actual_case) : bool :=
  match c with
  | (env, a, descents) => descents_ok a descents
  end.
Definition actual_mismatches (cs : list actual_case) : list N := failing actual_check cs.

(* ---- histories of describe calls (Model/DescribeHist.v) ---- *)
From PcoreV Require Import Model.DescribeHist.

(* what a call of a history was observed to answer: the structured description (px.VerifDescribe); the text of
   px.DescribeMismatch, or the detail of the issue an assertion raised, as (class by the wording, the subject key
   `function <name>:` that heads the line) per line; an assertion that returned; anything else that escaped *)
Inductive hobserved := HDesc (o : observed) | HText (ms : list (mclass * str)) | HReturns | HRaises (ms : list (mclass * str)) | HCrash.
Definition subject_key (m : mismatch) : str :=
  match snd m with (PSubject, KName k) :: _ => k | _ => [] end.
Definition line_eqb (x y : mclass * str) : bool := mclass_eqb (fst x) (fst y) && str_eqb (snd x) (snd y).
Definition ans_obs (a : answer) (o : hobserved) : bool :=
  match a, o with
  | ADesc r, HDesc ob => res_obs r ob
  | ADesc (Ok ms), HText l => list_eqb line_eqb (map (fun m => (fst m, subject_key m)) ms) l
  | ADesc (Fault _), HCrash => true
  | AOut (Ok Returns), HReturns => true
  | AOut (Ok (Raises TypeMismatchIssue ms)), HRaises l => list_eqb line_eqb (map (fun m => (fst m, subject_key m)) ms) l
  | AOut (Fault _), HCrash => true
  | _, _ => false
  end.
Fixpoint all_ans (l : list answer) (o : list hobserved) : bool :=
  match l, o with
  | [], [] => true
  | a :: l', x :: o' => ans_obs a x && all_ans l' o'
  | _, _ => false
  end.

(* a history over named expected types, lattice actual types and values with the type the implementation inferred:
   (expected objects, actual objects, value objects, calls, observed answers) against the state-passing run *)
Definition nhist_case := (list nty * list ty * list (value * ty) * list call * list hobserved)%type.
Definition nhist_check (o : oracle) (c : nhist_case) : bool :=
  match c with
  | (es, as_, vs, cs, obs) => all_ans (nrun (rx_of o) teq0 (World es as_ vs) [] cs) obs
  end.
Definition nhist_mismatches (o : oracle) (cs : list nhist_case) : list N := failing (nhist_check o) cs.

(* a history over ANY objects (nested aliases, Object types, Callables, ...): the objects are opaque identities, the
   generic model is instantiated with what the implementation answered when each call was made ALONE on freshly built
   objects - tables of IsAssignable (expected, actual), IsInstance (expected, value) and the structured description
   (subject, expected, actual); the detailed type of value object v is the actual identity 1000 + v - and its run is
   compared with the answers observed in the history *)
Definition otab := list (str * N * N * observed).
Definition btab := list (N * N * bool).
Fixpoint otab_get (t : otab) (name : str) (e a : N) : res (list mismatch) :=
  match t with
  | [] => Fault FMergeFirst
  | (n, e', a', ob) :: r =>
      if (str_eqb name n && N.eqb e e' && N.eqb a a')%bool
      then match ob with OList ms => Ok ms | OCrash => Fault FNilType end
      else otab_get r name e a
  end.
Fixpoint btab_get (t : btab) (x y : N) : bool :=
  match t with
  | [] => false
  | (x', y', b) :: r => if (N.eqb x x' && N.eqb y y')%bool then b else btab_get r x y
  end.
Definition seqN (n : nat) : list N := map N.of_nat (seq 0 n).
Definition ohist_case := (otab * btab * btab * (nat * nat * nat) * list call * list hobserved)%type.
Definition ohist_check (c : ohist_case) : bool :=
  match c with
  | (dtab, atab, itab, (ne, na, nv), cs, obs) =>
      all_ans (hrun N N N (btab_get atab) (btab_get itab) (otab_get dtab) (fun v => (1000 + v)%N)
                 (World (seqN ne) (seqN na) (seqN nv)) [] cs) obs
  end.
Definition ohist_mismatches (cs : list ohist_case) : list N := failing ohist_check cs.

(* a history over expected types with named types (aliases) at ANY position below Optional / Array / Hash / Tuple / Struct /
   Variant (Model/DescribeNested.v): the alias environment of the world (one declaration per alias OBJECT the harness met,
   after the aliases it refers to), the expected objects written over it, lattice actual types and values with the type
   the implementation inferred, against the state-passing run *)
From PcoreV Require Import Model.DescribeNested.
Definition xhist_case := (list ety * list ety * list ty * list (value * ty) * list call * list hobserved)%type.
Definition xhist_check (o : oracle) (c : xhist_case) : bool :=
  match c with
  | (bodies, es, as_, vs, cs, obs) =>
      env_ok bodies &&
      match mapo (eresolve bodies) es with
      | Some xs => all_ans (xrun (rx_of o) teq0 (World xs as_ vs) [] cs) obs
      | None => false
      end
  end.
Definition xhist_mismatches (o : oracle) (cs : list xhist_case) : list N := failing (xhist_check o) cs.
