(* Correspondence obligations of C02's byte-level layer (Model/StrBytes.v): the model's answers on the BYTES of
   the harness' string pool (1- to 4-byte characters, invalid bytes, truncated sequences, overlong encodings,
   lone surrogates, values above U+10FFFF) against what the implementation / Go's utf8 and strings packages did. *)
From Coq Require Import ZArith NArith Bool List.
From PcoreV Require Import Model.Base Model.Ty Model.Lattice Model.StrBytes Model.Alias Corr.CorrC01.
Import ListNotations.

(* unicode.ToLower as a table over the code points that occur (identity elsewhere) *)
Definition lc_table := list (N * N).
Fixpoint lc_of (tb : lc_table) (c : N) : N :=
  match tb with
  | [] => c
  | (a, b) :: r => if N.eqb a c then b else lc_of r c
  end.


(* (type, bytes of the string, observed px.IsInstance(type, string)) *)
Definition instB_check (o : oracle) (tb : lc_table) (c : ty * str * bool) : bool :=
  Bool.eqb (instB (rx_of o) (lc_of tb) (fst (fst c)) (snd (fst c))) (snd c).
Definition instB_mismatches (o : oracle) (tb : lc_table) (cs : list (ty * str * bool)) : list N :=
  failing (instB_check o tb) cs.

(* (bytes, []rune(s), utf8.RuneCountInString(s), utf8.ValidString(s), strings.ToLower(s)) *)
Definition utf8_check (tb : lc_table) (c : str * (list N * (Z * (bool * str)))) : bool :=
  let '(s, (runes, (n, (v, low)))) := c in
  (str_eqb (decode s) runes && Z.eqb (utf8_rune_count s) n && Bool.eqb (valid_utf8 s) v &&
   str_eqb (to_lower_b (lc_of tb) s) low && str_eqb (to_lower_go (lc_of tb) s) low)%bool.
Definition utf8_mismatches (tb : lc_table) (cs : list (str * (list N * (Z * (bool * str))))) : list N :=
  failing (utf8_check tb) cs.

(* (type with aliases, value, observed px.IsInstance; the resolved type as the implementation decodes it) *)
Definition instA_check (o : oracle) (c : aty * ty * value * bool) : bool :=
  let '(a, t, v, r) := c in
  (Bool.eqb (instA (rx_of o) a v) r && Bool.eqb (inst (rx_of o) true t v) r)%bool.
Definition instA_mismatches (o : oracle) (cs : list (aty * ty * value * bool)) : list N := failing (instA_check o) cs.
