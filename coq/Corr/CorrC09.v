(* Correspondence obligations for C09: the model's outputs on the histories the implementation ran. *)
From Coq Require Import ZArith NArith Bool List.
From PcoreV Require Import Model.Base Model.StringHash.
Import ListNotations.

Definition sh_check (c : list op * list out) : bool :=
  list_eqb out_eqb (go_views (fst c) (snd (run [] (fst c)))) (snd c).
Definition sh_mismatches (cs : list (list op * list out)) : list N := failing sh_check cs.

(* Array / Hash half: the pure model of the List / OrderedMap operations (Model/Coll.v) against the
   projected results the implementation returned on the same history. *)
From PcoreV Require Model.Coll.
Definition coll_check (c : list Coll.op * list Coll.out) : bool :=
  list_eqb Coll.out_eqb (Coll.run (fst c)) (snd c).
Definition coll_mismatches (cs : list (list Coll.op * list Coll.out)) : list N := failing coll_check cs.

(* The hash key: for a pair of values a, b the bytes px.ToKey returned for each against the model's key
   (Model/CollKey.v: tokey), and "the same key bytes" against the key equality of the operations' model (Coll.keq)
   and against equality of the model's keys. *)
From PcoreV Require Model.CollKey.
Definition key_check (c : Coll.pv * str) : bool := str_eqb (CollKey.tokey (fst c)) (snd c).
Definition keypair_check (c : (Coll.pv * str) * (Coll.pv * str)) : bool :=
  let same := str_eqb (snd (fst c)) (snd (snd c)) in
  key_check (fst c) && key_check (snd c) &&
  Bool.eqb (Coll.keq (fst (fst c)) (fst (snd c))) same &&
  Bool.eqb (CollKey.key_eqb (fst (fst c)) (fst (snd c))) same.
Definition keypair_mismatches (cs : list ((Coll.pv * str) * (Coll.pv * str))) : list N := failing keypair_check cs.

(* The Array as a sequence of arbitrary values (Model/CollSeq.v): elements without a hash key, values equal to
   nothing.  Results are compared by identity of the elements (elem_same), not by Equals. *)
From PcoreV Require Model.CollSeq.
Definition seq_check (c : list CollSeq.sop * list CollSeq.sout) : bool :=
  list_eqb CollSeq.sout_eqb (CollSeq.srun (fst c)) (snd c).
Definition seq_mismatches (cs : list (list CollSeq.sop * list CollSeq.sout)) : list N := failing seq_check cs.
