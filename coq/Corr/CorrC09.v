(* Correspondence obligations for C09: the model's outputs on the histories the implementation ran. *)
From Coq Require Import ZArith NArith Bool List.
From PcoreV Require Import Model.Base Model.StringHash.
Import ListNotations.

Definition sh_check (c : list op * list out) : bool :=
  list_eqb out_eqb (snd (run [] (fst c))) (snd c).
Definition sh_mismatches (cs : list (list op * list out)) : list N := failing sh_check cs.

(* Array / Hash half: the pure model of the List / OrderedMap operations (Model/Coll.v) against the
   projected results the implementation returned on the same history. *)
From PcoreV Require Model.Coll.
Definition coll_check (c : list Coll.op * list Coll.out) : bool :=
  list_eqb Coll.out_eqb (Coll.run (fst c)) (snd c).
Definition coll_mismatches (cs : list (list Coll.op * list Coll.out)) : list N := failing coll_check cs.
