(* Correspondence obligations for a loader parented by the dependency loader with module loaders
   (Model/LoaderDepChild.v), part of C12: on every history the implementation ran - operations `pre` on a loader tree,
   px.NewDependencyLoader over module loaders that wrap loaders of that tree, px.NewParentedLoader over it, then
   operations on the tree, on the dependency loader and on the child -
     child_model — the model produces exactly the observed outputs (entries, error codes, the module loaders asked,
                   in order); the history must lie in the domain of the theorems;
     child_spec  — the observed outputs, a cached miss projected to a miss, are those of the specification. *)
From Coq Require Import ZArith NArith Bool List.
From PcoreV Require Import Model.Base Model.Loader Model.LoaderSpec Model.LoaderDep Model.LoaderDepChild.
Import ListNotations.

Definition ccase : Type := list op * modset * list cop * list dout.

Definition child_check (cfg : config) (c : ccase) : bool :=
  let '(pre, mods, cs, outs) := c in
  forallb op_wf pre && mods_ok (fst (run cfg pre)) mods && forallb cop_wf cs
  && list_eqb dout_eqb (couts cfg pre mods cs) outs.

Definition child_mismatches (cfg : config) (cs : list ccase) : list N :=
  if cfg_wf cfg then failing (child_check cfg) cs else failing (fun _ => false) cs.

Definition child_spec_check (cfg : config) (c : ccase) : bool :=
  let '(pre, mods, cs, outs) := c in
  list_eqb dout_eqb (cspec_outs cfg pre mods cs) (map dproject outs).

Definition child_spec_violations (cfg : config) (cs : list ccase) : list N :=
  failing (child_spec_check cfg) cs.
