(* Correspondence obligations for C10: on every case the harness ran, the model's event stream equals
   the recorded one and the model's collector + deserializer rebuild the value the implementation
   rebuilt.  Payloads are instantiated with the observed serialization strings (to_s = identity,
   of_s = Some): that the real constructors invert the real SerializationString is checked on the
   implementation by the harness (strict comparison per kind), not here. *)
From Coq Require Import ZArith NArith Bool List.
From PcoreV Require Import Model.Base Model.Ser.
Import ListNotations.

Definition ts : str -> str -> str := fun _ p => p.
Definition os : str -> str -> option str := fun _ s => Some s.

Fixpoint data_eqb (a b : @data str) {struct a} : bool :=
  match a, b with
  | DUndef, DUndef => true
  | DBool x, DBool y => Bool.eqb x y
  | DInt x, DInt y => Z.eqb x y
  | DFloat x, DFloat y => Z.eqb x y
  | DStr x, DStr y => str_eqb x y
  | DBin x, DBin y => str_eqb x y
  | DArr x, DArr y =>
      (fix go (x y : list (@data str)) : bool :=
         match x, y with
         | [], [] => true
         | a :: x', b :: y' => data_eqb a b && go x' y'
         | _, _ => false
         end) x y
  | DHash x, DHash y =>
      (fix go (x y : list (@data str * @data str)) : bool :=
         match x, y with
         | [], [] => true
         | (a, c) :: x', (b, d) :: y' => data_eqb a b && data_eqb c d && go x' y'
         | _, _ => false
         end) x y
  | _, _ => false
  end.

Definition event_eqb (a b : @event str) : bool :=
  match a, b with
  | EAdd x, EAdd y => data_eqb x y
  | ERef x, ERef y => Nat.eqb x y
  | EArr x, EArr y => Nat.eqb x y
  | EHash x, EHash y => Nat.eqb x y
  | EEnd, EEnd => true
  | _, _ => false
  end.

Fixpoint pvalue_eqb (a b : @pvalue str) {struct a} : bool :=
  match a, b with
  | PUndef, PUndef => true
  | PDefault, PDefault => true
  | PBool x, PBool y => Bool.eqb x y
  | PInt x, PInt y => Z.eqb x y
  | PFloat x, PFloat y => Z.eqb x y
  | PStr x, PStr y => str_eqb x y
  | PArr x, PArr y =>
      (fix go (x y : list (@pvalue str)) : bool :=
         match x, y with
         | [], [] => true
         | a :: x', b :: y' => pvalue_eqb a b && go x' y'
         | _, _ => false
         end) x y
  | PHash x, PHash y =>
      (fix go (x y : list (@pvalue str * @pvalue str)) : bool :=
         match x, y with
         | [], [] => true
         | (a, c) :: x', (b, d) :: y' => pvalue_eqb a b && pvalue_eqb c d && go x' y'
         | _, _ => false
         end) x y
  | PSens x, PSens y => pvalue_eqb x y
  | PRich t x, PRich u y => str_eqb t u && str_eqb x y
  | PObj t x, PObj u y =>
      pvalue_eqb t u &&
      (fix go (x y : list (@pvalue str * @pvalue str)) : bool :=
         match x, y with
         | [], [] => true
         | (a, c) :: x', (b, d) :: y' => pvalue_eqb a b && pvalue_eqb c d && go x' y'
         | _, _ => false
         end) x y
  | _, _ => false
  end.

(* what the harness observed of the deserializer *)
Inductive obs_res := ROk (v : @pvalue str) | RFault | RErr.
(* what the harness observed of one run *)
Inductive obs :=
| ObsOk (evs : list (@event str)) (r : obs_res)      (* Convert returned; r = outcome of Value() *)
| ObsSerFault (evs : list (@event str)).             (* a runtime fault escaped from Convert (raised in the
                                                        consumer); evs = events up to the fault *)

Definition case : Type := (opts * caps * @rvalue str * obs)%type.

Definition res_matches (m : res (@pvalue str)) (o : obs_res) : bool :=
  match m, o with
  | Ok a, ROk b => pvalue_eqb a b
  | Fault, RFault => true
  | Err, RErr => true
  | _, _ => false
  end.

Fixpoint is_prefix (a b : list (@event str)) : bool :=
  match a, b with
  | [], _ => true
  | x :: a', y :: b' => event_eqb x y && is_prefix a' b'
  | _ :: _, [] => false
  end.

(* The input class of the open finding user-hash-ptype-key is the complement of the guard rt_ok of the
   round-trip theorem (Model/Ser.v): a hash of the value (or of its lossy image) whose keys are all strings
   and include __ptype.  The deserializer reads such a hash as an encoded rich value, and what comes out
   depends on the loader (is the string a known type name?), which the model does not contain; on this class
   only the event stream is compared. *)
Definition ser_check (c : case) : bool :=
  let '(o, cp, x, ob) := c in
  let evs := serialize ts o cp x in
  (* the hypothesis wf_rich of the theorems holds of the reflected Go value: same tag => same subtree
     (checker proved sound: SerProofs.wf_richb_str_sound) *)
  wf_richb (rvalue_eqb str_eqb) x &&
  match ob with
  | ObsOk oevs r =>
      list_eqb event_eqb evs oevs &&
      wf_stream (env_of o cp) oevs &&
      (negb (rt_ok ts (env_of o cp) x) || res_matches (bind (collect evs) (deser os)) r)
  | ObsSerFault oevs => is_prefix oevs evs && is_fault (collect evs)
  end.

Definition ser_mismatches (cs : list case) : list N := failing ser_check cs.
