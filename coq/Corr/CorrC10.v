(* Correspondence obligations for C10: on every case the harness ran, the model's event stream equals
   the recorded one and the model's collector + deserializer rebuild the value the implementation
   rebuilt.  Payloads are instantiated with the observed serialization strings (to_s = identity,
   of_s = Some): that the real constructors invert the real SerializationString is checked on the
   implementation by the harness (strict comparison per kind), not here. *)
From Coq Require Import ZArith NArith Bool List.
From PcoreV Require Import Model.Base Model.Ser Model.SerAttrs Model.SerReent Model.SerStruct Model.SerEq.
Import ListNotations.

Definition ts : str -> str -> str := fun _ p => p.
Definition os : str -> str -> option str := fun _ s => Some s.

Fixpoint data_eqb (a b : @data str) {struct a} : bool :=
  match a, b with
  | DUndef, DUndef => true
  | DBool x, DBool y => Bool.eqb x y
  | DInt x, DInt y => Z.eqb x y
  | DFloat x, DFloat y => Z.eqb x y
  | DStr x, DStr y => str_eqb x y
  | DBin x, DBin y => str_eqb x y
  | DArr x, DArr y =>
      (fix go (x y : list (@data str)) : bool :=
         match x, y with
         | [], [] => true
         | a :: x', b :: y' => data_eqb a b && go x' y'
         | _, _ => false
         end) x y
  | DHash x, DHash y =>
      (fix go (x y : list (@data str * @data str)) : bool :=
         match x, y with
         | [], [] => true
         | (a, c) :: x', (b, d) :: y' => data_eqb a b && data_eqb c d && go x' y'
         | _, _ => false
         end) x y
  | _, _ => false
  end.

Definition event_eqb (a b : @event str) : bool :=
  match a, b with
  | EAdd x, EAdd y => data_eqb x y
  | ERef x, ERef y => Nat.eqb x y
  | EArr x, EArr y => Nat.eqb x y
  | EHash x, EHash y => Nat.eqb x y
  | EEnd, EEnd => true
  | _, _ => false
  end.

(* the comparison of results and the consumer's Value.Equals: structural equality on pvalue, Model/SerEq.v
   (proved to decide equality: Proofs/SerEqProofs.pv_eqb_str_eq / C10_pvalue_eqb_decides_equality) *)
Definition pvalue_eqb : @pvalue str -> @pvalue str -> bool := pv_eqb str_eqb.

(* what the harness observed of the deserializer *)
Inductive obs_res := ROk (v : @pvalue str) | RFault | RErr.
(* what the harness observed of one run *)
Inductive obs :=
| ObsOk (evs : list (@event str)) (r : obs_res)      (* Convert returned; r = outcome of Value() *)
| ObsSerFault (evs : list (@event str)).             (* a runtime fault escaped from Convert (raised in the
                                                        consumer); evs = events up to the fault *)

Definition case : Type := (opts * caps * @rvalue str * obs)%type.

Definition res_matches (m : res (@pvalue str)) (o : obs_res) : bool :=
  match m, o with
  | Ok a, ROk b => pvalue_eqb a b
  | Fault, RFault => true
  | Err, RErr => true
  | _, _ => false
  end.

Fixpoint is_prefix (a b : list (@event str)) : bool :=
  match a, b with
  | [], _ => true
  | x :: a', y :: b' => event_eqb x y && is_prefix a' b'
  | _ :: _, [] => false
  end.

(* The input class of the open finding user-hash-ptype-key is the complement of the guard rt_ok of the
   round-trip theorem (Model/Ser.v): a hash of the value (or of its lossy image) whose keys are all strings
   and include __ptype.  The deserializer reads such a hash as an encoded rich value, and what comes out
   depends on the loader (is the string a known type name?), which the model does not contain; on this class
   only the event stream is compared. *)
Definition ser_check (c : case) : bool :=
  let '(o, cp, x, ob) := c in
  let evs := serialize ts o cp x in
  (* the hypothesis wf_rich of the theorems holds of the reflected Go value: same tag => same subtree
     (checker proved sound: SerProofs.wf_richb_str_sound) *)
  wf_richb (rvalue_eqb str_eqb) x &&
  match ob with
  | ObsOk oevs r =>
      list_eqb event_eqb evs oevs &&
      wf_stream (env_of o cp) oevs &&
      (negb (rt_ok ts (env_of o cp) x) || res_matches (bind (collect evs) (deser os)) r)
  | ObsSerFault oevs => is_prefix oevs evs && is_fault (collect evs)
  end.


(* ---- the attribute route (Model/SerAttrs.v) ----
   One case per value that travels as an instance of its meta type: RequiredCount, ALL attributes (name, value
   held, attribute.Default(value)), the declarations (name, declared default) and the attribute values of the
   DESERIALIZED value as read through the same public API.  Checked: the hypotheses of C10_trim_fill (same names
   in the same order, distinct names, a set default flag means the value equals the declared default) and that
   fill applied to what the model's trim lets through is what the implementation rebuilt.
   (That the implementation emits exactly the attributes trim keeps is part of ser_check: the harness writes the
   value as VObjT, so the event streams are compared.) *)
Inductive aobs :=
| AObs (full : list (@pvalue str))   (* the attribute values of the deserialized value *)
| AOther.                            (* the deserialized value is not of the attribute route *)

Definition acase : Type := (nat * list (attr str) * list (decl str) * aobs)%type.

(* forallb2, nodupb, isdef_soundb, attr_hyps_okb: Model/SerEq.v; attr_hyps_okb is proved to imply the hypotheses
   of the theorems (Proofs/SerEqProofs.attr_hyps_okb_sound / C10_attr_hyps_checker) *)
Definition attrs_check (c : acase) : bool :=
  let '(req, l, ds, ob) := c in
  attr_hyps_okb str_eqb l ds &&
  match ob with
  | AObs full =>
      match fill ds (pobj_attrs (erase (VObjT 0 VUndef req l []))) with
      | Ok r => list_eqb pvalue_eqb r full && list_eqb pvalue_eqb (map (fun a => erase (a_val a)) l) full
      | _ => false
      end
  | AOther => false
  end.

(* ---- object instances (Model/SerStruct.v) ----
   One case per run whose value holds an instance of an Object type (built by the type's constructor, or the wrapper
   of a Go struct): for the first instance met, RequiredCount, ALL attributes (name, attribute.Get(instance) - for a
   Go struct the field -, attribute.Default of it), the declarations, and ALL attribute values of the instance at
   the same place of the DESERIALIZED value, read the same way.  Checked: the hypotheses of C10_struct_roundtrip
   and that InitFromHash of the model (fill, trim again, set every field), applied to the entries the model's
   init hash lets through, yields what the implementation rebuilt = the attribute values of the original.
   (That the implementation emits exactly the entries init_attrs keeps is part of ser_check: the harness writes
   instances as VObjS.)  veq := pvalue_eqb. *)
Inductive sobs :=
| SObs (full : list (@pvalue str))   (* the attribute values (fields) of the deserialized instance *)
| SOther.                            (* there is no instance at that place of the deserialized value *)

Definition scase : Type := (nat * list (attr str) * list (decl str) * sobs)%type.

(* The input class of the open finding object-default-coarse-equals: an attribute flagged default-valued by the
   implementation (attribute.Default = declared default .Equals value) whose value is NOT the declared default,
   both being Timespans with the same whole seconds - all that Timespan.Equals compares (types/timespantype.go:424-429).  The guard
   attr_hyps_okb of the theorems excludes it (C10_coarse_equals_default_refuted); on this class the model, which
   takes the flags as data, must still predict what the implementation rebuilt (the declared default in place of
   the value), only the comparison with the original is dropped. *)
Definition t_timespan : str := [84; 105; 109; 101; 115; 112; 97; 110]%N.   (* "Timespan" *)
(* the serialization string of a Timespan is [-]seconds.nanoseconds (timespantype.go SerializationString): the part
   in front of the '.' is what Timespan.Equals compares *)
Fixpoint whole_seconds (s : str) : str :=
  match s with
  | [] => []
  | c :: s' => if N.eqb c 46 then [] else c :: whole_seconds s'
  end.
Definition coarse_timespan (a : attr str) (d : decl str) : bool :=
  str_eqb (d_name d) (a_name a) && a_isdef a &&
  match d_default d, erase (a_val a) with
  | Some (PRich t1 p1), PRich t2 p2 =>
      str_eqb t1 t_timespan && str_eqb t2 t_timespan && str_eqb (whole_seconds p1) (whole_seconds p2)
  | _, _ => false
  end.
Definition coarse_class (l : list (attr str)) (ds : list (decl str)) : bool :=
  forallb2 (fun a d => isdef_soundb str_eqb a d || coarse_timespan a d) l ds && nodupb (map a_name l).

Definition struct_check (c : scase) : bool :=
  let '(req, l, ds, ob) := c in
  (attr_hyps_okb str_eqb l ds || coarse_class l ds) &&
  match ob with
  | SObs full =>
      match init_from_hash pvalue_eqb req ds (pobj_attrs (erase (VObjS 0 VUndef l []))) with
      | Ok r => list_eqb pvalue_eqb r full &&
                (negb (attr_hyps_okb str_eqb l ds) || list_eqb pvalue_eqb (map (fun a => erase (a_val a)) l) full)
      | _ => false
      end
  | SOther => false
  end.

(* what the harness writes: the run and, when the value is of the attribute route and came back, its attributes;
   or, when it holds an object instance, the attributes of that *)
Definition xcase : Type := (case * option acase * option scase)%type.
(* constructors with explicit argument types (the case terms are elaborated against them) *)
Definition X (c : case) (a : option acase) : xcase := (c, a, None).
Definition XS (c : case) (s : scase) : xcase := (c, None, Some s).
Definition mkacase (req : nat) (l : list (attr str)) (ds : list (decl str)) (ob : aobs) : acase := (req, l, ds, ob).
Definition mkscase (req : nat) (l : list (attr str)) (ds : list (decl str)) (ob : sobs) : scase := (req, l, ds, ob).

Definition ser_mismatches (cs : list xcase) : list N := failing (fun c => ser_check (fst (fst c))) cs.
Definition attrs_mismatches (cs : list xcase) : list N :=
  failing (fun c => match snd (fst c) with Some a => attrs_check a | None => true end) cs.
Definition struct_mismatches (cs : list xcase) : list N :=
  failing (fun c : xcase => match snd c with Some a => struct_check a | None => true end) cs.

(* ---- one Serializer object, conversions that overlap (Model/SerReent.v) ----
   One case per scenario the harness ran on ONE serializer: the options the object was made with, the conversions
   in the order in which Convert was entered (capabilities of the consumer, value, what that consumer observed),
   and the observed global order of the calls: RStart i = Convert of conversion i was entered, RDeliver i = the
   consumer of conversion i received its next event (nested from inside a consumer callback on one goroutine, or
   on goroutines of their own ordered by channels).  Checked: every conversion satisfies ser_check as a run of its
   own (the model's stream for it ALONE is the stream its consumer received); the observed schedule is a
   schedule of the model (run <> None: no consumer received more events than the model delivers); at its end every
   consumer of the model's world has received exactly what the real consumer received, and a conversion that
   returned is finished in the model. *)
Inductive raction := RStart (i : nat) | RDeliver (i : nat).
Definition rconv : Type := (caps * @rvalue str * obs)%type.
Definition rcase : Type := (opts * list rconv * list raction)%type.
Definition RC (c : caps) (x : @rvalue str) (ob : obs) : rconv := (c, x, ob).
Definition RCase (o : opts) (cs : list rconv) (sched : list raction) : rcase := (o, cs, sched).

Definition obs_events (ob : obs) : list (@event str) := match ob with ObsOk e _ => e | ObsSerFault e => e end.
Definition obs_returned (ob : obs) : bool := match ob with ObsOk _ _ => true | ObsSerFault _ => false end.

Fixpoint start_indexes (l : list raction) : list nat :=
  match l with
  | [] => []
  | RStart i :: l' => i :: start_indexes l'
  | RDeliver _ :: l' => start_indexes l'
  end.

Fixpoint actions_of (cs : list rconv) (l : list raction) : option (list (@action str)) :=
  match l with
  | [] => Some []
  | RStart i :: l' =>
      match nth_error cs i, actions_of cs l' with
      | Some (c, x, _), Some r => Some (Start c x :: r)
      | _, _ => None
      end
  | RDeliver i :: l' => option_map (cons (Deliver i)) (actions_of cs l')
  end.

Definition reent_check (rc : rcase) : bool :=
  let '(o, cs, sched) := rc in
  forallb (fun c : rconv => let '(cp, x, ob) := c in ser_check (o, cp, x, ob)) cs &&
  list_eqb Nat.eqb (start_indexes sched) (List.seq 0%nat (length cs)) &&
  match actions_of cs sched with
  | None => false
  | Some acts =>
      match run ts (world0 o) acts with
      | None => false
      | Some w =>
          forallb2 (fun (cv : @conv str) (c : rconv) =>
                      list_eqb event_eqb (cv_done cv) (obs_events (snd c)) &&
                      (negb (obs_returned (snd c)) || finished cv))
                   (w_convs w) cs
      end
  end.

Definition reent_mismatches (cs : list rcase) : list N := failing reent_check cs.

(* strings of the case files: printable ASCII is written as a string literal (fast to elaborate) *)
Definition b (s : String.string) : str := bytes_of s.
From Coq Require Export Strings.String.
