(* Correspondence obligations for C20: the model's output on the cases the implementation ran.
   format_model: px.NewFormatContext3(value, spec) + px.ToString2  vs  format_value (text or error class), and the
                 observed text vs the float shape specification (float_shape_check), vs the closed g G shape
                 (float_g_check, fdig_unsigned) and vs the closed Array layout (arr_closed_check, Model/FormatClosed.v)
   radix_model : the rendering of an integer and px.New(c, Integer, text, radix)  vs  format_value / int_new
   radix_pad_model : the same for renderings under any flags, width and precision (padding spaces trimmed),
                 through the positional and the named dispatch of the constructor  vs  int_ctor
   share_model : the same on values in which one container instance occurs at several positions
                 (aliasing), with the recursion guard of ToString2  vs  format_value_g; every such case
                 must also satisfy `lok []` (no cycle), the hypothesis of C20_sharing_invisible
   sprintf_model : types.PuppetSprintf(format, args...) (= PuppetFprintf) with several directives, literal text, %%,
                 positional and keyed forms, and defective format texts  vs  sprintf (Model/FormatSprintf.v):
                 the text, or the class of the error (issue code / the reader's string panic)
   keys_model  : px.IsAssignable between the key types of format maps, and of key types against the
                 values' inferred types  vs  key_sub / key_accepts *)
From Coq Require Import ZArith NArith Bool List.
From PcoreV Require Import Model.Base Model.Format Model.FormatShare Model.FormatSprintf Model.FormatFloatShape Model.FormatClosed.
Import ListNotations.
Open Scope Z_scope.

Definition kind_eqb (a b : kind) : bool :=
  match a, b with
  | KdInteger, KdInteger | KdFloat, KdFloat | KdString, KdString | KdBoolean, KdBoolean | KdArray, KdArray
  | KdHash, KdHash | KdBinary, KdBinary | KdDefault, KdDefault | KdUndef, KdUndef | KdRegexp, KdRegexp => true
  | _, _ => false
  end.

Definition err_eqb (a b : err) : bool :=
  match a, b with
  | EUnsupported c k, EUnsupported c' k' => N.eqb c c' && kind_eqb k k'
  | EInvalidSpec, EInvalidSpec | ERepeatedFlag, ERepeatedFlag | EDelimiter, EDelimiter | EFailure, EFailure
  | EFault, EFault | EOther, EOther => true
  (* EOracle is never equal to an observation *)
  | _, _ => false
  end.

Definition obs_eqb (a b : obs) : bool :=
  match a, b with
  | ROk x, ROk y => str_eqb x y
  | RErr x, RErr y => err_eqb x y
  | _, _ => false
  end.

Record fcase := mkCase { c_v : value; c_spec : fspec; c_o : oracle; c_obs : obs }.

(* float_shape_check (Model/FormatFloatShape.v), on every case: the digit strings the implementation showed are ASCII
   (the hypothesis fdig_ascii of C20_width_respected / C20_float_shape), and for a Boolean / Integer / Float under a
   directive string with e E f g G a A the observed text is `width` runes wide and, under e E f a A, IS the shape
   go_fmt_float_spec around the observed digit string.
   float_g_check / fdig_unsigned (Model/FormatClosed.v): under g G the observed text IS float_g_spec (the one closed
   shape of floatGFormat) around the observed digit strings, which begin with no sign character (the hypothesis of
   C20_float_g_shape_closed_unsigned); arr_closed_check: an Array's observed text IS arr_layout_closed (the closed
   formula of C20_array_layout_alternate_closed / _closed) of its children's texts *)
Definition format_check (c : fcase) : bool :=
  match format_value (c_o c) (c_v c) (c_spec c) with
  | Some r => obs_eqb r (c_obs c)
  | None => false                         (* out of fuel: never (Properties/C20.v, format_total) *)
  end
  && float_shape_check (c_o c) (c_v c) (c_spec c) (c_obs c)
  && fdig_unsigned (c_o c) && float_g_check (c_o c) (c_v c) (c_spec c) (c_obs c)
  && arr_closed_check (c_o c) (c_v c) (c_spec c) (c_obs c).
Definition format_mismatches (cs : list fcase) : list N := failing format_check cs.

Record scase := mkSCase { s_v : lvalue; s_spec : fspec; s_o : oracle; s_obs : obs }.

Definition share_check (c : scase) : bool :=
  lok [] (s_v c) &&
  match format_value_g (s_o c) (s_v c) (s_spec c) with
  | Some r => obs_eqb r (s_obs c)
  | None => false
  end.
Definition share_mismatches (cs : list scase) : list N := failing share_check cs.

Definition no_oracle : oracle := mkOracle [] [] [] [] [] [] [].

Record rcase := mkRCase { r_n : Z; r_d : str; r_radix : Z; r_text : str; r_res : option Z }.

Definition radix_check (c : rcase) : bool :=
  option_eqb obs_eqb (format_value no_oracle (VInt (r_n c)) (FStr (r_d c))) (Some (OText (r_text c)))
  && option_eqb Z.eqb (int_new (r_text c) (r_radix c)) (r_res c).
Definition radix_mismatches (cs : list rcase) : list N := failing radix_check cs.

(* a padded rendering (zero fill, precision fill, padding spaces), its padding spaces trimmed, through both
   dispatches of the Integer constructor: positional (text, radix [, abs]) and named {from, radix [, abs]} *)
Record pcase := mkPCase { p_n : Z; p_d : str; p_radix : Z; p_abs : option bool; p_text : str;
                          p_pos : option Z; p_named : option Z }.

Definition radix_pad_check (c : pcase) : bool :=
  option_eqb obs_eqb (format_value no_oracle (VInt (p_n c)) (FStr (p_d c))) (Some (OText (p_text c)))
  && option_eqb Z.eqb (int_ctor CPositional (trim_space (p_text c)) (p_radix c) (p_abs c)) (p_pos c)
  && option_eqb Z.eqb (int_ctor CNamed (trim_space (p_text c)) (p_radix c) (p_abs c)) (p_named c).
Definition radix_pad_mismatches (cs : list pcase) : list N := failing radix_pad_check cs.

(* the sprintf style entry points: format text, arguments, one oracle table per directive applied (in order) *)
Record spcase := mkSpCase { sp_fmt : str; sp_args : list value; sp_os : list oracle; sp_obs : sp_res }.

Definition sp_err_eqb (a b : sp_err) : bool :=
  match a, b with
  | SpFormat x, SpFormat y => err_eqb x y
  | SpIllegalArgument, SpIllegalArgument | SpIllegalArguments, SpIllegalArguments | SpBadRune, SpBadRune => true
  (* SpFuel and SpOracle are never equal to an observation *)
  | _, _ => false
  end.

Definition sp_res_eqb (a b : sp_res) : bool :=
  match a, b with
  | SpText x, SpText y => str_eqb x y
  | SpErr x, SpErr y => sp_err_eqb x y
  | _, _ => false
  end.

Definition sprintf_check (c : spcase) : bool := sp_res_eqb (sprintf (sp_os c) (sp_fmt c) (sp_args c)) (sp_obs c).
Definition sprintf_mismatches (cs : list spcase) : list N := failing sprintf_check cs.

(* key tables *)
Inductive kcase :=
| KSub (a b : tkey) (r : bool)              (* px.IsAssignable(a, b) *)
| KAcc (k : tkey) (v : value) (r : bool).   (* px.IsAssignable(k, v.PType()) *)

Definition keys_check (c : kcase) : bool :=
  match c with
  | KSub a b r => Bool.eqb (key_sub a b) r
  | KAcc k v r => match key_accepts no_oracle k v with ROk b => Bool.eqb b r | RErr _ => false end
  end.
Definition keys_mismatches (cs : list kcase) : list N := failing keys_check cs.
