(* Correspondence obligations for C18: what the implementation was observed to do on a generated Go type
   and value (harness/cmd/c18) against what the model of coq/Model/Reflect.v computes. *)
From Coq Require Import ZArith NArith Bool List.
From PcoreV Require Import Model.Base Model.Reflect Model.ReflectNamed Model.ReflectTypeSet.
Import ListNotations.
Open Scope Z_scope.

(* the struct <-> object clause, observed when the case is a struct or a pointer to one *)
Record objobs := mkObjObs {
  oo_attrs : list str;          (* attribute names in positional order *)
  oo_gets : list value;         (* Get(name) of the wrapped struct, per attribute *)
  oo_inithash : value;          (* InitHash() of the wrapped struct *)
  oo_newh : res gval;           (* px.New(type, InitHash) converted back into the Go type *)
  oo_newp : res gval;           (* px.New(type, positional attribute values...) converted back *)
  oo_required : nat;            (* AttributesInfo().RequiredCount() *)
  oo_trimk : nat;               (* number of positional values left when the trailing defaults (Attribute.Default) are cut *)
  oo_newt : option (res gval)   (* px.New(type, the first oo_trimk positional values...) converted back; None: nothing was cut *)
}.

Inductive obsv :=
| ORegFail (r : res unit)       (* deriving the object types of the structs failed: nothing else observed *)
| OSeen (pt : res ty)           (* px.WrapReflectedType *)
        (w : res value)         (* px.Wrap *)
        (accepted : bool)       (* px.IsInstance(derived type, wrapped) *)
        (back : option (res gval))   (* Reflector.Reflect2(wrapped, the Go type) *)
        (deep : bool)           (* reflect.DeepEqual(original, back) *)
        (used : option (res gval))   (* Reflector.ReflectTo(wrapped, dest): dest went through the history of the case *)
        (obj : option objobs).

(* c_hist: earlier values of the same Go type; the destination of the second conversion holds the first by plain
   assignment, then each of the others by ReflectTo of its wrapped value *)
Record rcase := mkCase { c_ty : gty; c_val : gval; c_hist : list gval; c_obs : obsv }.

Definition ikind_eq_dec_b := ikind_eqb.

Fixpoint ty_eqb (a b : ty) {struct a} : bool :=
  match a, b with
  | TAny, TAny | TString, TString | TBoolean, TBoolean | TBinary, TBinary => true
  | TInteger l h, TInteger l' h' | TFloat l h, TFloat l' h' => (l =? l') && (h =? h')
  | TArray x, TArray y | TOptional x, TOptional y => ty_eqb x y
  | THash k v, THash k' v' => ty_eqb k k' && ty_eqb v v'
  | TObject n, TObject n' => str_eqb n n'
  | _, _ => false
  end.

Fixpoint value_eqb (a b : value) {struct a} : bool :=
  match a, b with
  | VUndef, VUndef => true
  | VBool x, VBool y => Bool.eqb x y
  | VInt x, VInt y | VFloat x, VFloat y => x =? y
  | VStr x, VStr y => str_eqb x y
  | VBinary x, VBinary y => option_eqb str_eqb x y
  | VArr xs, VArr ys =>
      (fix go (xs ys : list value) {struct xs} : bool :=
         match xs, ys with
         | [], [] => true
         | x :: xs', y :: ys' => value_eqb x y && go xs' ys'
         | _, _ => false
         end) xs ys
  | VHash xs, VHash ys =>
      (fix go (xs ys : list (value * value)) {struct xs} : bool :=
         match xs, ys with
         | [], [] => true
         | (k, x) :: xs', (k', y) :: ys' => value_eqb k k' && value_eqb x y && go xs' ys'
         | _, _ => false
         end) xs ys
  | VObj n a p, VObj n' a' p' => str_eqb n n' && Bool.eqb a a' && gval_eqb p p'
  | VRuntime d x, VRuntime d' y => gty_eqb d d' && gval_eqb x y
  | _, _ => false
  end.

Definition perr_eqb (a b : perr) : bool :=
  match a, b with
  | EWrongKind, EWrongKind | EUnsettable, EUnsettable | EUnreflectable, EUnreflectable
  | EInvalidSource, EInvalidSource | EArgs, EArgs | EOther, EOther => true
  | _, _ => false
  end.

Definition res_eqb {A} (eqb : A -> A -> bool) (a b : res A) : bool :=
  match a, b with
  | Ok x, Ok y => eqb x y
  | Err e, Err e' => perr_eqb e e'
  | Fault, Fault => true
  | _, _ => false
  end.

(* does the model's Go value contain a part the model does not describe? *)
Fixpoint has_outside (g : gval) {struct g} : bool :=
  match g with
  | GVOutside => true
  | GVSlice (Some l) | GVStruct l => existsb has_outside l
  | GVMap (Some m) => existsb (fun kv => has_outside (fst kv) || has_outside (snd kv)) m
  | GVPtr (Some x) => has_outside x
  | GVIface (Some (_, x)) => has_outside x
  | _ => false
  end.

(* observed against predicted result where the prediction may hold undescribed parts (an init hash that is not an
   instance of the init type is taken as an ordinary positional argument; in an interface{} field it converts back to
   a map whose type is derived from the inferred Hash type, reflect_any: GVOutside): then only success is compared *)
Definition res_matches (obs model : res gval) : bool :=
  match model with
  | Ok g => if has_outside g then match obs with Ok _ => true | _ => false end else res_eqb gval_eqb obs model
  | _ => res_eqb gval_eqb obs model
  end.

(* the oracle for fmt "%v" of float keys, supplied with the cases as a table *)
Definition ffmt_of (tbl : list (Z * str)) (b : Z) : str :=
  match find (fun p => fst p =? b) tbl with Some p => snd p | None => [] end.

(* the struct <-> object clause: attribute names in positional order, Get per attribute, the init hash, and the
   instances constructed from the init hash (named-argument creator), from the attribute values (one argument per
   attribute) and from those values without the trailing defaults, each converted back into the Go type of the case.
   A positional argument list that is a single Hash is by the dispatch order an init hash: not compared. *)
Definition obj_check (tbl : list (Z * str)) (t : gty) (v : gval) (o : objobs) : bool :=
  match (match t, v with
         | GStruct n fs, GVStruct vs => Some (false, n, fs, vs)
         | GPtr (GStruct n fs), GVPtr (Some (GVStruct vs)) => Some (true, n, fs, vs)
         | _, _ => None
         end) with
  | Some (a, n, fs, vs) =>
      let gets := obj_gets (ffmt_of tbl) a fs vs in
      str_eqb_list (oo_attrs o) (obj_attr_names fs) &&
      let ih := obj_init_hash (ffmt_of tbl) a fs vs in
      let cut := cut_defaults 0 (required_count fs) (attr_order fs) gets in
      list_eqb value_eqb (oo_gets o) gets &&
      value_eqb (oo_inithash o) (VHash ih) &&
      res_matches (oo_newh o) (rbind (obj_new_hash n fs ih) (reflect_to t)) &&
      Nat.eqb (oo_required o) (required_count fs) &&
      Nat.eqb (oo_trimk o) (length cut) &&
      match gets with
      | [VHash _] => true
      | _ => res_eqb gval_eqb (oo_newp o) (rbind (obj_new n fs gets) (reflect_to t))
      end &&
      match oo_newt o, cut with
      | None, [VHash _] => true
      | None, _ => Nat.eqb (length cut) (length gets)
      | Some _, [VHash _] => false
      | Some r, _ => res_eqb gval_eqb r (rbind (obj_new n fs cut) (reflect_to t))
      end
  | None => false
  end.

(* the destination of the second conversion before the value of the case is converted into it *)
Definition used_dest (tbl : list (Z * str)) (t : gty) (hist : list gval) : gval :=
  match hist with
  | [] => zero_of t
  | h :: hs => reflect_hist t h (map (wrap (ffmt_of tbl) t) hs)
  end.

Definition c18_check (tbl : list (Z * str)) (c : rcase) : bool :=
  let t := c_ty c in let v := c_val c in
  let w := wrap (ffmt_of tbl) t v in
  let back := reflect_to t w in
  has_type v t && forallb (fun h => has_type h t) (c_hist c) &&
  match c_obs c with
  | ORegFail _ => false
  | OSeen pt ow acc oback deep used obj =>
      res_eqb ty_eqb pt (Ok (ptype_of t)) &&
      res_eqb value_eqb ow (Ok w) &&
      Bool.eqb acc (inst (ptype_of t) w) &&
      match oback with
      | Some ob => res_eqb gval_eqb ob back
      | None => false
      end &&
      Bool.eqb deep (match back with Ok b => gval_eqb v b | _ => false end) &&
      match used with
      | Some u => res_eqb gval_eqb u (reflect_into t (used_dest tbl t (c_hist c)) w)
      | None => match c_hist c with [] => true | _ => false end
      end &&
      match obj with Some o => obj_check tbl t v o | None => true end
  end.

Definition c18_mismatches (tbl : list (Z * str)) (cs : list rcase) : list N := failing (c18_check tbl) cs.

(* ------------------------------------------------------------------------------------------------ *)
(** * Statically declared Go types (harness/cmd/c18/static.go): defined scalar / slice / map types and structs that embed
      other structs, against Model/ReflectNamed.v *)

Inductive ncase :=
| NCase (t : gty) (m : nmask) (v : gval)
        (pt : res ty)           (* px.WrapReflectedType *)
        (w : res value)         (* px.Wrap *)
        (accepted : bool)       (* px.IsInstance(derived type, wrapped) *)
        (back : res gval)       (* Reflector.Reflect2(wrapped, the Go type) *)
| ACase (has_parent : bool)     (* the object type was derived with a declared parent *)
        (fs : list (str * bool))        (* the fields of the struct: Go name, embedded? *)
        (own : list str)        (* the attributes the derived object type declares itself (parent's excluded), in order *)
| TCase (ts_name : str) (aliases : list (str * str))
        (decls : list sdecl)    (* the structs handed to Reflector.TypeSetFromReflect, in the order of the argument list *)
        (seen : list tsentry).  (* the entries of the type set in their order: key, name of the type, name of its parent,
                                   the attributes the type declares itself *)

Definition c18n_check (tbl : list (Z * str)) (c : ncase) : bool :=
  match c with
  | NCase t m v pt ow acc back =>
      let w := wrapn (ffmt_of tbl) true t m v in
      has_type v t &&
      res_eqb ty_eqb pt (Ok (ptype_n t m)) &&
      res_eqb value_eqb ow (Ok w) &&
      Bool.eqb acc (inst (ptype_n t m) w) &&
      res_eqb gval_eqb back (reflect_to t w)
  | ACase p fs own => str_eqb_list own (own_attr_names p fs)
  | TCase n al decls seen => list_eqb tsentry_eqb seen (typeset_entries n al decls)
  end.

Definition c18n_mismatches (tbl : list (Z * str)) (cs : list ncase) : list N := failing (c18n_check tbl) cs.
