(* Correspondence obligations for C08: the slice-level model (Model/Heap.v + Model/CollHeap.v) against the
   implementation on the same history: the projected result of every step (observed when the step returned)
   and the deep snapshot of EVERY pool value after the last step.  The model is run with two growth policies
   (exact need / doubling); the results are also compared with the pure layer (Model/Coll.v). *)
From Coq Require Import ZArith NArith Bool List.
From PcoreV Require Import Model.Base Model.Heap Model.Coll Model.CollHeap Model.CollHeapX Model.CollHeapA.
From PcoreV Require Import Model.Ty Model.Lattice Model.Infer Model.InferHeap.
Import ListNotations.

Definition c08_check_with (grow : nat -> nat -> nat) (c : list op * (list out * list pv)) : bool :=
  let '(st, outs) := hrun grow empty_state (fst c) in
  list_eqb out_eqb outs (fst (snd c)) && list_eqb pv_eqb (final_obs st) (snd (snd c)).

Definition c08_check (c : list op * (list out * list pv)) : bool :=
  c08_check_with grow_double c && c08_check_with grow_exact c &&
  list_eqb out_eqb (Coll.run (fst c)) (fst (snd c)).

Definition c08_mismatches (cs : list (list op * (list out * list pv))) : list N := failing c08_check cs.

(* ---- histories with the routes that share entry objects (Model/CollHeapX.v: Hash.new(tree, 'tree'), MapEntries): the
   projected result of every step and the final observation of every pool value, under two growth policies ---- *)
Definition c08_x_check_with (grow : nat -> nat -> nat) (c : list xop * (list out * list pv)) : bool :=
  let '(st, outs) := xrun grow empty_state (fst c) in
  list_eqb out_eqb outs (fst (snd c)) && list_eqb pv_eqb (final_obs st) (snd (snd c)).

Definition c08_x_check (c : list xop * (list out * list pv)) : bool :=
  c08_x_check_with grow_double c && c08_x_check_with grow_exact c.

Definition c08_x_mismatches (cs : list (list xop * (list out * list pv))) : list N := failing c08_x_check cs.

(* ---- histories with read accessors that hand out Go slices and the writes of the caller into what came back
   (Model/CollHeapA.v): the projected result of every step (for an accessor step: the slice that was handed out, after the
   writes, wrapped) and the final observation of every pool value, under two growth policies ---- *)
Definition c08_a_check_with (grow : nat -> nat -> nat) (c : list aop * (list out * list pv)) : bool :=
  let '(st, outs) := arun grow empty_state (fst c) in
  list_eqb out_eqb outs (fst (snd c)) && list_eqb pv_eqb (final_obs st) (snd (snd c)).

Definition c08_a_check (c : list aop * (list out * list pv)) : bool :=
  c08_a_check_with grow_double c && c08_a_check_with grow_exact c.

Definition c08_a_mismatches (cs : list (list aop * (list out * list pv))) : list N := failing c08_a_check cs.

(* ---- results that are types: the slice-level model of inference (Model/InferHeap.v) on a type history: the
   projected result of every step and the final observation of EVERY pool entry (values and types), under two
   growth policies; and, third leg, the pure inference of Model/Infer.v (property C04) on the same history. ---- *)
Definition c08_infer_check_with (grow : nat -> nat -> nat) (c : list iop * (list iout * list iobs)) : bool :=
  let '(st, outs) := irun grow iempty (fst c) in
  list_eqb iout_eqb outs (fst (snd c)) && list_eqb iobs_eqb (ifinal st) (snd (snd c)).

(* the pure layer: values without identity, types without slices *)
Inductive pent := PV_ (v : value) | PT_ (t : ty).

Fixpoint pv_value (p : pv) : value :=
  match p with
  | PUndef => VUndef | PBool b => VBool b | PInt z => VInt z | PStr s => VStr s
  | PArr l => VArr (map pv_value l)
  | PHash es => VHash (map (fun e => (pv_value (fst e), pv_value (snd e))) es)
  | PEntry _ _ | PNil | PCut | PBad => VUndef
  end.

Fixpoint value_pv (v : value) : pv :=
  match v with
  | VBool b => PBool b | VInt z => PInt z | VStr s => PStr s
  | VArr l => PArr (map value_pv l)
  | VHash es => PHash (map (fun e => (value_pv (fst e), value_pv (snd e))) es)
  | _ => PUndef
  end.

Fixpoint pure_vals (pool : list pent) (rs : list nat) : option (list value) :=
  match rs with
  | [] => Some []
  | r :: t => match nth_error pool r, pure_vals pool t with
              | Some (PV_ v), Some vs => Some (v :: vs)
              | _, _ => None
              end
  end.

Fixpoint pure_entries (pool : list pent) (krs : list (str * nat)) : option (list (value * value)) :=
  match krs with
  | [] => Some []
  | (k, r) :: t => match nth_error pool r, pure_entries pool t with
                   | Some (PV_ v), Some es => Some ((VStr k, v) :: es)
                   | _, _ => None
                   end
  end.

Definition pure_sub (t : ty) (i : nat) : option ty :=
  match t, i with
  | TArray e _ _, O => Some e
  | THash k _ _ _, O => Some k
  | THash _ v _ _, S O => Some v
  | TType t, O => Some t
  | _, _ => None
  end.

Definition pure_step (pool : list pent) (o : iop) : option pent :=
  match o with
  | ILit p => Some (PV_ (pv_value p))
  | IWrapArr rs => match pure_vals pool rs with Some vs => Some (PV_ (VArr vs)) | None => None end
  | IWrapHash krs => match pure_entries pool krs with Some es => Some (PV_ (VHash es)) | None => None end
  | IAdd r x => match nth_error pool r, nth_error pool x with
                | Some (PV_ (VArr vs)), Some (PV_ xv) => Some (PV_ (VArr (vs ++ [xv])))
                | _, _ => None
                end
  | IAt r i => match nth_error pool r with Some (PV_ (VArr vs)) => Some (PV_ (nth i vs VUndef)) | _ => None end
  | ISub r i => match nth_error pool r with
                | Some (PT_ t) => match pure_sub t i with Some u => Some (PT_ u) | None => None end
                | _ => None
                end
  | IEnumLit ci vs _ => Some (PT_ (mk_enum vs ci))
  | IPType r => match nth_error pool r with
                | Some (PV_ v) => Some (PT_ (infer norx v))
                | Some (PT_ t) => Some (PT_ (TType t))
                | None => None
                end
  | ICommon r x => match nth_error pool r, nth_error pool x with
                   | Some (PT_ a), Some (PT_ b) => Some (PT_ (common norx a b))
                   | _, _ => None
                   end
  end.

Fixpoint pure_run (pool : list pent) (ops : list iop) : list iout :=
  match ops with
  | [] => []
  | o :: t => match pure_step pool o with
              | Some e => IVal (match e with PV_ v => OV (value_pv v) | PT_ u => OT u end) :: pure_run (pool ++ [e]) t
              | None => IErr :: pure_run (pool ++ [PV_ VUndef]) t
              end
  end.

Definition c08_infer_check (c : list iop * (list iout * list iobs)) : bool :=
  c08_infer_check_with grow_double c && c08_infer_check_with grow_exact c &&
  list_eqb iout_eqb (pure_run [] (fst c)) (fst (snd c)).

Definition c08_infer_mismatches (cs : list (list iop * (list iout * list iobs))) : list N := failing c08_infer_check cs.
