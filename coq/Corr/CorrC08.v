(* Correspondence obligations for C08: the slice-level model (Model/Heap.v + Model/CollHeap.v) against the
   implementation on the same history: the projected result of every step (observed when the step returned)
   and the deep snapshot of EVERY pool value after the last step.  The model is run with two growth policies
   (exact need / doubling); the results are also compared with the pure layer (Model/Coll.v). *)
From Coq Require Import ZArith NArith Bool List.
From PcoreV Require Import Model.Base Model.Heap Model.Coll Model.CollHeap.
Import ListNotations.

Definition c08_check_with (grow : nat -> nat -> nat) (c : list op * (list out * list pv)) : bool :=
  let '(st, outs) := hrun grow empty_state (fst c) in
  list_eqb out_eqb outs (fst (snd c)) && list_eqb pv_eqb (final_obs st) (snd (snd c)).

Definition c08_check (c : list op * (list out * list pv)) : bool :=
  c08_check_with grow_double c && c08_check_with grow_exact c &&
  list_eqb out_eqb (Coll.run (fst c)) (fst (snd c)).

Definition c08_mismatches (cs : list (list op * (list out * list pv))) : list N := failing c08_check cs.
