(* Correspondence obligations for C05: the model's outputs on the inputs the implementation ran. *)
From Coq Require Import ZArith NArith Bool List.
From PcoreV Require Import Model.Base Model.QuoteLex.
Import ListNotations.
Open Scope N_scope.

Definition lexed_agrees (m : lres str) (obs : option str) : bool :=
  match m, obs with
  | LOk t [], Some t' => str_eqb t t'
  | LErr _, None => true
  | _, _ => false
  end.

(* a string: (payload, what ToString2(v, Program) printed, the string token the lexer made of that text) *)
Definition string_check (c : str * str * option str) : bool :=
  let '(s, printed, lexed) := c in
  str_eqb (puppet_quote s) printed && lexed_agrees (lex_string printed) lexed.
Definition string_mismatches (cs : list (str * str * option str)) : list N := failing string_check cs.

(* a regexp: (source, printed text, regexp token) *)
Definition regexp_check (c : str * str * option str) : bool :=
  let '(s, printed, lexed) := c in
  str_eqb (regexp_quote s) printed && lexed_agrees (lex_regexp printed) lexed.
Definition regexp_mismatches (cs : list (str * str * option str)) : list N := failing regexp_check cs.

Definition optZ_eqb (a b : option Z) : bool :=
  match a, b with
  | Some x, Some y => Z.eqb x y
  | None, None => true
  | _, _ => false
  end.

(* an integer: (value, printed text, integer token text, value the parser made of it) *)
Definition int_check (c : Z * str * option str * option Z) : bool :=
  let '(z, printed, lexed, parsed) := c in
  str_eqb (format_int z) printed &&
  match lex_number ascii_letter printed, lexed with
  | LOk (KInteger, t) [], Some t' => str_eqb t t' && optZ_eqb (parse_int0 t) parsed
  | LErr _, None => true
  | _, _ => false
  end.
Definition int_mismatches (cs : list (Z * str * option str * option Z)) : list N := failing int_check cs.

(* the lexer on a literal text: (text, kind of the first token — 0 none (the lexer failed), 3 integer, 4 float,
   5 regexp, 6 string —, its text, and for an integer token what strconv.ParseInt(text, 0, 64) gave) *)
Definition lex_check (letters : list N) (c : str * N * str * option Z) : bool :=
  let '(text, kind, tok, iv) := c in
  let is_letter r := ascii_letter r || existsb (N.eqb r) letters in
  match text with
  | [] => true
  | b :: _ =>
    if (b =? 39) || (b =? 34) then
      match lex_string text with
      | LOk t _ => (kind =? 6) && str_eqb t tok
      | LErr _ => kind =? 0
      | LOutOfFuel => false
      end
    else if b =? 47 then
      match lex_regexp text with
      | LOk t _ => (kind =? 5) && str_eqb t tok
      | LErr _ => kind =? 0
      | LOutOfFuel => false
      end
    else
      match lex_number is_letter text with
      | LOk (KInteger, t) _ => (kind =? 3) && str_eqb t tok && optZ_eqb (parse_int0 t) iv
      | LOk (KFloat, t) _ => (kind =? 4) && str_eqb t tok
      | LErr _ => kind =? 0
      | LOutOfFuel => false
      end
  end.
Definition lex_mismatches (letters : list N) (cs : list (str * N * str * option Z)) : list N :=
  failing (lex_check letters) cs.

(* ---- types (layer L3) ---- *)
From PcoreV Require Import Model.Ty Model.TypePrint.
Open Scope Z_scope.

(* syntactic equality of types (the correspondence compares the decoded structs field by field) *)
Fixpoint ty_beq (a b : ty) {struct a} : bool :=
  match a, b with
  | TAny, TAny | TUnit, TUnit | TUndef, TUndef | TDefault, TDefault | TNumeric, TNumeric | TScalar, TScalar
  | TScalarData, TScalarData | TString, TString | TBinary, TBinary => true
  | TBoolean v, TBoolean w => option_eqb Bool.eqb v w
  | TInteger lo hi, TInteger lo' hi' | TFloat lo hi, TFloat lo' hi' | TStringSz lo hi, TStringSz lo' hi'
  | TCollection lo hi, TCollection lo' hi' => Z.eqb lo lo' && Z.eqb hi hi'
  | TStringVal s, TStringVal s' | TRegexp s, TRegexp s' | TOther s, TOther s' => str_eqb s s'
  | TEnum ci vs, TEnum ci' vs' => Bool.eqb ci ci' && str_eqb_list vs vs'
  | TPattern rxs, TPattern rxs' => str_eqb_list rxs rxs'
  | TArray e lo hi, TArray e' lo' hi' => ty_beq e e' && Z.eqb lo lo' && Z.eqb hi hi'
  | THash k v lo hi, THash k' v' lo' hi' => ty_beq k k' && ty_beq v v' && Z.eqb lo lo' && Z.eqb hi hi'
  | TTuple ts g lo hi, TTuple ts' g' lo' hi' =>
    Bool.eqb g g' && Z.eqb lo lo' && Z.eqb hi hi' &&
    (fix go (l l' : list ty) : bool :=
       match l, l' with
       | [], [] => true
       | x :: r, y :: r' => ty_beq x y && go r r'
       | _, _ => false
       end) ts ts'
  | TStruct ms, TStruct ms' =>
    (fix go (l l' : list (str * (ty * ty))) : bool :=
       match l, l' with
       | [], [] => true
       | (n, (k, v)) :: r, (n', (k', v')) :: r' => str_eqb n n' && ty_beq k k' && ty_beq v v' && go r r'
       | _, _ => false
       end) ms ms'
  | TVariant ts, TVariant ts' =>
    (fix go (l l' : list ty) : bool :=
       match l, l' with
       | [], [] => true
       | x :: r, y :: r' => ty_beq x y && go r r'
       | _, _ => false
       end) ts ts'
  | TOptional x, TOptional y | TNotUndef x, TNotUndef y | TType x, TType y | TSensitive x, TSensitive y => ty_beq x y
  | _, _ => false
  end.

Fixpoint assoc_float (tbl : list (Z * str)) (k : Z) : str :=
  match tbl with
  | [] => []
  | (k', s) :: r => if Z.eqb k k' then s else assoc_float r k
  end.

(* a type: (T decoded, T.String(), the decoded result of ParseType(T.String()) if it parsed, the nested types
   that accept undef (px.IsAssignable(t, Undef)): the oracle for the Struct key convention, whether the resolving
   half is compared: not for the by-specification exception and the open findings of the text layer).
   floats: how the implementation renders the float bounds occurring in the cases; lower: strings.ToLower on
   the Enum values occurring; rx_ok is not consulted (regexp parameters are regexp literals, not strings). *)
Definition type_check (floats : list (Z * str)) (c : ty * str * option ty * list ty * bool) : bool :=
  let '(t, text, t2, au, full) := c in
  (* the oracle is looked up modulo the tuple flag `size != nil` (canon): the flag is not part of what a type
     accepts, and a nested type that was built without a size (a Tuple without slots: flag false) comes back from
     its text with one (Tuple[0, 0]: flag true), so the value type on which the key of the reparsed Struct is
     decided differs from the entry of the table in that flag only *)
  let accepts_undef x := existsb (fun y => ty_beq (canon x) (canon y)) au in
  str_eqb (print_ty (assoc_float floats) accepts_undef t) text &&
  (if full then
     match reparse (fun s => s) (fun _ => true) accepts_undef t, t2 with
     | COk r, Some r' => ty_beq r r'
     | CErr, None => true
     | _, _ => false
     end
   else true).
Definition type_mismatches (floats : list (Z * str)) (cs : list (ty * str * option ty * list ty * bool)) : list N :=
  failing (type_check floats) cs.

(* ---- tokens <-> expressions (layer L2) ---- *)
From PcoreV Require Import Model.TokenParse.

Fixpoint assoc_str (tbl : list (str * str)) (k : str) : str :=
  match tbl with
  | [] => k
  | (k', s) :: r => if str_eqb k k' then s else assoc_str r k
  end.

(* the observed floats are given by the decimal text of their bits; the model keeps the token text: translate *)
Fixpoint norm_floats (tbl : list (str * str)) (v : pval) : pval :=
  match v with
  | PVFloat t => PVFloat (assoc_str tbl t)
  | PVArr es => PVArr (map (norm_floats tbl) es)
  | PVHash kvs => PVHash (map (fun kv => (norm_floats tbl (fst kv), norm_floats tbl (snd kv))) kvs)
  | PVEntry k x => PVEntry (norm_floats tbl k) (norm_floats tbl x)
  | PVType n (Some ps) => PVType n (Some (map (norm_floats tbl) ps))
  | _ => v
  end.

Fixpoint pval_beq (a b : pval) {struct a} : bool :=
  match a, b with
  | PVUndef, PVUndef | PVDefault, PVDefault => true
  | PVBool x, PVBool y => Bool.eqb x y
  | PVInt x, PVInt y => Z.eqb x y
  | PVFloat x, PVFloat y | PVStr x, PVStr y | PVRegexp x, PVRegexp y => str_eqb x y
  | PVArr l, PVArr l' =>
    (fix go (l l' : list pval) : bool :=
       match l, l' with [], [] => true | x :: r, y :: r' => pval_beq x y && go r r' | _, _ => false end) l l'
  | PVHash l, PVHash l' =>
    (fix go (l l' : list (pval * pval)) : bool :=
       match l, l' with
       | [], [] => true
       | (k, x) :: r, (k', y) :: r' => pval_beq k k' && pval_beq x y && go r r'
       | _, _ => false
       end) l l'
  | PVEntry k x, PVEntry k' y => pval_beq k k' && pval_beq x y
  | PVType n None, PVType n' None => str_eqb n n'
  | PVType n (Some l), PVType n' (Some l') =>
    str_eqb n n' &&
    (fix go (l l' : list pval) : bool :=
       match l, l' with [], [] => true | x :: r, y :: r' => pval_beq x y && go r r' | _, _ => false end) l l'
  | _, _ => false
  end.

(* the parser on a token stream: (tokens without the end token, the value types.Parse returned or None for an error).
   Every regexp token of these cases compiles or the implementation reports the error: rx_ok is given per case by
   the outcome (a text with a regexp that does not compile is an error in both). *)
Definition parse_check (pfloats : list (str * str)) (c : list tok * option pval) : bool :=
  let '(ts, obs) := c in
  match parse_tokens (fun _ => true) ts, obs with
  | POk v, Some v' => pval_beq (norm_floats pfloats v) v'
  | PErr, None => true
  | PUnmodelled, _ => true
  | POk _, None => existsb (fun t => match t with KRegexp _ => true | _ => false end) ts   (* a regexp that does not compile *)
  | _, _ => false
  end.
Definition parse_mismatches (pfloats : list (str * str)) (cs : list (list tok * option pval)) : list N :=
  failing (parse_check pfloats) cs.

(* ---- container values over their object graph (which instance sits where) ---- *)
From PcoreV Require Import Model.ValuePrint.

Definition tok_beq (a b : tok) : bool :=
  match a, b with
  | KEnd, KEnd | KLBracket, KLBracket | KRBracket, KRBracket | KLBrace, KLBrace | KRBrace, KRBrace
  | KLParen, KLParen | KRParen, KRParen | KComma, KComma | KDot, KDot | KRocket, KRocket | KEqual, KEqual => true
  | KName s, KName s' | KIdent s, KIdent s' | KInt s, KInt s' | KFloat s, KFloat s' | KRegexp s, KRegexp s'
  | KString s, KString s' => str_eqb s s'
  | _, _ => false
  end.
Fixpoint toks_beq (a b : list tok) : bool :=
  match a, b with
  | [], [] => true
  | x :: r, y :: r' => tok_beq x y && toks_beq r r'
  | _, _ => false
  end.

(* a value: (the Array / Hash instances reachable from it, children before parents; the reference to the value;
   the tokens of the text px.ToString2(v, Program) wrote, None when that text does not lex).
   A text with a `<recursive reference>` marker does not lex. The detector must be empty again at the end. *)
Definition value_check (c : list node * ref * option (list tok)) : bool :=
  let '(h, r, obs) := c in
  match print_value h r, obs with
  | VOk (out, g), Some ts => negb (existsb is_rec out) && toks_beq (strip out) ts && match g with [] => true | _ => false end
  | VOk (out, _), None => existsb is_rec out
  | _, _ => false
  end.
Definition value_mismatches (cs : list (list node * ref * option (list tok))) : list N := failing value_check cs.

(* ---- the whole lexer over a text, and the text of a literal value (Model/LiteralText.v) ---- *)
From PcoreV Require Import Model.LiteralText.

(* the literal values whose text print_lit models exactly: no floats (fmt's digits are an oracle), no types (inside a
   type an identifier key is written bare: Object[{attributes => ...}]) *)
Fixpoint lit_shape (v : pval) : bool :=
  match v with
  | PVFloat _ | PVEntry _ _ | PVType _ _ => false
  | PVArr es => forallb lit_shape es
  | PVHash kvs => forallb (fun kv => lit_shape (fst kv) && lit_shape (snd kv)) kvs
  | _ => true
  end.

(* a text: (the text, whether px.ToString2(v, Program) wrote it for a value v, the tokens types.VerifTokens made of it
   without the end token or None when the lexer failed). The model's lexer gives the same tokens; and a text the value
   printer wrote for a literal without floats and types is print_lit of the value the model's parser reads from it. *)
Definition text_check (letters : list N) (c : str * bool * option (list tok)) : bool :=
  let '(text, printed, obs) := c in
  let il r := (ascii_letter r || existsb (N.eqb r) letters)%bool in
  match lex_text il text, obs with
  | LOk ts _, Some ts' =>
    toks_beq ts ts' &&
    (if printed then
       match parse_tokens (fun _ => true) ts with
       | POk v => if lit_shape v then str_eqb (print_lit v) text else true
       | _ => true
       end
     else true)
  | LErr _, None => true
  | LOutOfFuel, None => true
  | _, _ => false
  end.
Definition text_mismatches (letters : list N) (cs : list (str * bool * option (list tok))) : list N :=
  failing (text_check letters) cs.

(* ---- the expression a type prints as (Model/TypeExpr.v) ---- *)
From PcoreV Require Import Model.TypeExpr.

(* the same cases as type_check: the text of T (print_ty, compared with T.String() there), read by the model's lexer,
   is the token list of expr_of_ty T, and the model's parser makes that expression of it. Compared where the text layer
   round-trips (full) and the model's lexer accepts the text. *)
Definition type_expr_check (floats : list (Z * str)) (c : ty * str * option ty * list ty * bool) : bool :=
  let '(t, text, _, au, full) := c in
  let accepts_undef x := existsb (fun y => ty_beq (canon x) (canon y)) au in
  if full then
    match lex_text ascii_letter text with
    | LOk ts _ =>
      let e := expr_of_ty (assoc_float floats) accepts_undef t in
      toks_beq ts (tokens_of e) &&
      match parse_tokens (fun _ => true) ts with POk e' => pval_beq e' e | _ => false end
    | _ => true
    end
  else true.
Definition type_expr_mismatches (floats : list (Z * str)) (cs : list (ty * str * option ty * list ty * bool)) : list N :=
  failing (type_expr_check floats) cs.

(* ---- the creators on parsed arguments, in every form the parser accepts ---- *)

(* strings.ToLower on ASCII text (the cases of this tie are ASCII) *)
Definition ascii_lower (s : str) : str :=
  map (fun b => if (N.leb 65 b && N.leb b 90)%bool then (b + 32)%N else b) s.

(* (name, resolved arguments, Some T = what the creator returned | None = it reported an error, the nested types
   of T that accept undef). Every regexp string of these cases compiles (rx_ok = true). *)
Definition create_check (c : tname * list pv * option ty * list ty) : bool :=
  let '(n, args, obs, au) := c in
  let accepts_undef x := existsb (ty_beq x) au in
  match create ascii_lower (fun _ => true) accepts_undef n args, obs with
  | COk t, Some t' => ty_beq t t'
  | CErr, None => true
  | CUnmodelled, _ => true
  | _, _ => false
  end.
Definition create_mismatches (cs : list (tname * list pv * option ty * list ty)) : list N := failing create_check cs.

(* ---- Object types: the attributes against the init hash (Model/ObjectPrint.v) ---- *)
From PcoreV Require Import Model.ObjectPrint.

(* Types and values of a case are numbered by the harness: equal (px.Equals) types have one number, equal values
   have one number, the value undef is 0. The tables are what the implementation answered for them. *)
Record otab := {
  tb_gen : list (N * N);      (* value -> px.Generalize(v.PType()) *)
  tb_opt : list N;            (* the types that are *OptionalType *)
  tb_optof : list (N * N);    (* type -> NewOptionalType(type) *)
  tb_undef : list N;          (* the values with v.Equals(undef) *)
  tb_default : list N;        (* the values that are *DefaultValue *)
  tb_inst : list (N * N)      (* (type, value) with px.IsInstance *)
}.

Definition lookupN (l : list (N * N)) (k : N) : N :=
  match find (fun p => N.eqb (fst p) k) l with Some p => snd p | None => 0%N end.
Definition memN (l : list N) (k : N) : bool := existsb (N.eqb k) l.
Definition mem2N (l : list (N * N)) (a b : N) : bool := existsb (fun p => N.eqb (fst p) a && N.eqb (snd p) b) l.

Definition obj_oracle (tb : otab) : oracle N N :=
  {| teq := N.eqb; gen_type := lookupN (tb_gen tb); is_optional := memN (tb_opt tb);
     optional_of := lookupN (tb_optof tb); is_undef := memN (tb_undef tb); is_default := memN (tb_default tb);
     is_instance := mem2N (tb_inst tb); undef := 0%N |}.

Definition oattr := attr N N.
Definition mk_attr (n : str) (t : N) (k : akind) (v : option N) (f o : bool) : oattr :=
  {| a_name := n; a_type := t; a_kind := k; a_value := v; a_final := f; a_override := o |}.
Definition mk_spec (t : N) (f o : option bool) (k : option akind) (v : option N) : aspec N N :=
  {| s_type := t; s_final := f; s_override := o; s_kind := k; s_value := v |}.
Definition mk_ihash (a : list (str * mspec N N)) (c : list (str * N)) : ihash N N :=
  {| h_attributes := a; h_constants := c |}.

Definition optN_eqb := option_eqb N.eqb.
Definition optb_eqb := option_eqb Bool.eqb.
Definition attr_beq (a b : oattr) : bool :=
  str_eqb (a_name a) (a_name b) && N.eqb (a_type a) (a_type b) && akind_eqb (a_kind a) (a_kind b) &&
  optN_eqb (a_value a) (a_value b) && Bool.eqb (a_final a) (a_final b) && Bool.eqb (a_override a) (a_override b).
Definition aspec_beq (a b : aspec N N) : bool :=
  N.eqb (s_type a) (s_type b) && optb_eqb (s_final a) (s_final b) && optb_eqb (s_override a) (s_override b) &&
  option_eqb akind_eqb (s_kind a) (s_kind b) && optN_eqb (s_value a) (s_value b).
Definition mspec_beq (a b : mspec N N) : bool :=
  match a, b with
  | MBare x, MBare y => N.eqb x y
  | MHash x, MHash y => aspec_beq x y
  | _, _ => false
  end.
Definition ihash_beq (a b : ihash N N) : bool :=
  list_eqb (fun p q => str_eqb (fst p) (fst q) && mspec_beq (snd p) (snd q)) (h_attributes a) (h_attributes b) &&
  list_eqb (fun p q => str_eqb (fst p) (fst q) && N.eqb (snd p) (snd q)) (h_constants a) (h_constants b).
Definition oerr_eqb (a b : oerr) : bool :=
  match a, b with
  | EConstantWithFinal, EConstantWithFinal | EIllegalKindValue, EIllegalKindValue | ETypeMismatch, ETypeMismatch
  | EConstantRequiresValue, EConstantRequiresValue | EBothConstantAndAttribute, EBothConstantAndAttribute
  | EOverriddenNotFound, EOverriddenNotFound | EAttributeHasNoValue, EAttributeHasNoValue => true
  | _, _ => false
  end.

(* (tables, the init hash given to InitFromHash, what it made of it: the attributes in order or the issue reported,
   the `attributes` and `constants` of InitHash() of the result) *)
Definition object_check (c : otab * ihash N N * ores (list oattr) * option (ihash N N)) : bool :=
  let '(tb, h, obs, printed) := c in
  let O := obj_oracle tb in
  match init_from_hash O h, obs with
  | OOk l, OOk l' =>
    list_eqb attr_beq l l' &&
    match init_hash O l', printed with
    | OOk p, Some p' => ihash_beq p p'
    | _, _ => false
    end
  | OErr e, OErr e' => oerr_eqb e e'
  | _, _ => false
  end.
Definition object_mismatches (cs : list (otab * ihash N N * ores (list oattr) * option (ihash N N))) : list N :=
  failing object_check cs.

(* ---- extensions of parameterized Object types: My::P[1, 'x'], My::P[{b => 'x'}] (Model/ObjectExt.v) ---- *)
From PcoreV Require Import Model.ObjectExt.

(* values are numbered by the harness up to px.Equals (XAtom); a Hash with String keys is given entry by entry *)
Fixpoint xval_beq (a b : xval) : bool :=
  match a, b with
  | XDefault, XDefault => true
  | XAtom x, XAtom y => N.eqb x y
  | XHash h, XHash g =>
      (fix go (h g : list (str * xval)) : bool :=
         match h, g with
         | [], [] => true
         | (k, v) :: h', (k', v') :: g' => str_eqb k k' && xval_beq v v' && go h' g'
         | _, _ => false
         end) h g
  | _, _ => false
  end.

(* the table of the pairs (parameter name, value) for which px.IsInstance(tp.Type(), value) answered true *)
Definition ext_inst (tb : list (str * xval)) (k : str) (v : xval) : bool :=
  existsb (fun p => str_eqb (fst p) k && xval_beq (snd p) v) tb.

Definition xerr_eqb (a b : xerr) : bool :=
  match a, b with
  | XNotParameterized, XNotParameterized | XMissingParam, XMissingParam | XMismatch, XMismatch
  | XEmptyList, XEmptyList => true
  | _, _ => false
  end.
Definition xres_beq (a b : xres (list xval)) : bool :=
  match a, b with
  | XOk x, XOk y => list_eqb xval_beq x y
  | XErr x, XErr y => xerr_eqb x y
  | _, _ => false
  end.

(* (names of the declared type parameters in order, the arguments given to NewObjectTypeExtension - by the Go
   constructor or by the resolver from a parsed text -, the instance table, Parameters() of the result or the issue
   reported, Parameters() of the type that ParseType makes of its text) *)
Definition ext_check (c : list str * list xval * list (str * xval) * xres (list xval) * option (xres (list xval))) : bool :=
  let '(names, args, tb, obs, obs2) := c in
  let inst := ext_inst tb in
  xres_beq (print_ext inst names args) obs &&
  match obs2 with
  | None => true
  | Some o2 =>
      match initialize inst names args with
      | XOk m => xres_beq (print_ext inst names (parameters inst names m)) o2
      | XErr _ => false
      end
  end.
Definition ext_mismatches (cs : list (list str * list xval * list (str * xval) * xres (list xval) * option (xres (list xval)))) : list N :=
  failing ext_check cs.
