(* Correspondence obligations for C05: the model's outputs on the inputs the implementation ran. *)
From Coq Require Import ZArith NArith Bool List.
From PcoreV Require Import Model.Base Model.QuoteLex.
Import ListNotations.
Open Scope N_scope.

Definition lexed_agrees (m : lres str) (obs : option str) : bool :=
  match m, obs with
  | LOk t [], Some t' => str_eqb t t'
  | LErr _, None => true
  | _, _ => false
  end.

(* a string: (payload, what ToString2(v, Program) printed, the string token the lexer made of that text) *)
Definition string_check (c : str * str * option str) : bool :=
  let '(s, printed, lexed) := c in
  str_eqb (puppet_quote s) printed && lexed_agrees (lex_string printed) lexed.
Definition string_mismatches (cs : list (str * str * option str)) : list N := failing string_check cs.

(* a regexp: (source, printed text, regexp token) *)
Definition regexp_check (c : str * str * option str) : bool :=
  let '(s, printed, lexed) := c in
  str_eqb (regexp_quote s) printed && lexed_agrees (lex_regexp printed) lexed.
Definition regexp_mismatches (cs : list (str * str * option str)) : list N := failing regexp_check cs.

Definition optZ_eqb (a b : option Z) : bool :=
  match a, b with
  | Some x, Some y => Z.eqb x y
  | None, None => true
  | _, _ => false
  end.

(* an integer: (value, printed text, integer token text, value the parser made of it) *)
Definition int_check (c : Z * str * option str * option Z) : bool :=
  let '(z, printed, lexed, parsed) := c in
  str_eqb (format_int z) printed &&
  match lex_number ascii_letter printed, lexed with
  | LOk (KInteger, t) [], Some t' => str_eqb t t' && optZ_eqb (parse_int0 t) parsed
  | LErr _, None => true
  | _, _ => false
  end.
Definition int_mismatches (cs : list (Z * str * option str * option Z)) : list N := failing int_check cs.

(* the lexer on a literal text: (text, kind of the first token — 0 none (the lexer failed), 3 integer, 4 float,
   5 regexp, 6 string —, its text, and for an integer token what strconv.ParseInt(text, 0, 64) gave) *)
Definition lex_check (letters : list N) (c : str * N * str * option Z) : bool :=
  let '(text, kind, tok, iv) := c in
  let is_letter r := ascii_letter r || existsb (N.eqb r) letters in
  match text with
  | [] => true
  | b :: _ =>
    if (b =? 39) || (b =? 34) then
      match lex_string text with
      | LOk t _ => (kind =? 6) && str_eqb t tok
      | LErr _ => kind =? 0
      | LOutOfFuel => false
      end
    else if b =? 47 then
      match lex_regexp text with
      | LOk t _ => (kind =? 5) && str_eqb t tok
      | LErr _ => kind =? 0
      | LOutOfFuel => false
      end
    else
      match lex_number is_letter text with
      | LOk (KInteger, t) _ => (kind =? 3) && str_eqb t tok && optZ_eqb (parse_int0 t) iv
      | LOk (KFloat, t) _ => (kind =? 4) && str_eqb t tok
      | LErr _ => kind =? 0
      | LOutOfFuel => false
      end
  end.
Definition lex_mismatches (letters : list N) (cs : list (str * N * str * option Z)) : list N :=
  failing (lex_check letters) cs.
