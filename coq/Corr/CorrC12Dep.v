(* Correspondence obligations for the dependency loader with module loaders (Model/LoaderDep.v), part of C12:
   on every history the implementation ran - operations `pre` on a loader tree, px.NewDependencyLoader over
   module loaders that wrap loaders of that tree, then operations on the tree and on the dependency loader -
     dep_model — the model produces exactly the observed outputs: entries (absent / cached miss / value),
                 error codes, and for every lookup the list of module loaders whose LoadEntry was called, in order;
                 the history must lie in the domain of the theorems;
     dep_spec  — the observed outputs, a cached miss projected to a miss, are those of the specification
                 (route by module name, else first in order; answers are write-once). *)
From Coq Require Import ZArith NArith Bool List.
From PcoreV Require Import Model.Base Model.Loader Model.LoaderSpec Model.LoaderDep.
Import ListNotations.

Definition dcase : Type := list op * modset * list dop * list dout.

Definition dep_check (cfg : config) (c : dcase) : bool :=
  let '(pre, mods, ds, outs) := c in
  forallb op_wf pre && mods_ok (fst (run cfg pre)) mods && forallb dop_wf ds
  && list_eqb dout_eqb (douts cfg pre mods ds) outs.

Definition dep_mismatches (cfg : config) (cs : list dcase) : list N :=
  if cfg_wf cfg then failing (dep_check cfg) cs else failing (fun _ => false) cs.

Definition dep_spec_check (cfg : config) (c : dcase) : bool :=
  let '(pre, mods, ds, outs) := c in
  list_eqb dout_eqb (dspec_outs cfg pre mods ds) (map dproject outs).

Definition dep_spec_violations (cfg : config) (cs : list dcase) : list N :=
  failing (dep_spec_check cfg) cs.
