(* Correspondence obligations for C16: the model's builder / dispatch / new / instance-of on the inputs
   the implementation ran, compared with what the implementation did. *)
From Coq Require Import ZArith NArith Bool List.
From PcoreV Require Import Model.Base Model.Dispatch.
Import ListNotations.
Open Scope Z_scope.

(* "the call's block - or the absence of one - satisfies the declared block type": oracle table observed from
   px.IsInstance(<declared block type>, lambda) and px.IsInstance(<declared block type>, undef) (`None`)
   (Callable assignability is modelled rather than verified, see props/C16.json) *)
Definition optN_eqb (a b : option N) : bool :=
  match a, b with
  | Some x, Some y => N.eqb x y
  | None, None => true
  | _, _ => false
  end.

Definition btab_inst (tab : list (N * option N)) (bt : N) (b : option N) : bool :=
  existsb (fun p => N.eqb (fst p) bt && optN_eqb (snd p) b) tab.

(* what the harness observed for one generated function: the builder panicked in dispatch i with a
   message of class c (Resolve raising a reported error: dispatch 0, POther), or the results of the calls *)
Inductive fnobs := ObsPanic (i : nat) (c : pcode) | ObsCalls (rs : list callres).

Definition fncase :=
  (list (str * pty) * list (list (bop pty N)) * list (list pval * option N) * fnobs)%type.

(* `look`: the alias objects the function's resolved types refer to (fn_look); instance-of is cinst look *)
Definition obs_of (tab : list (N * option N)) (look : str -> option pty) (r : fnres) (calls : list (list pval * option N)) : fnobs :=
  match r with
  | inl (i, code) => ObsPanic i code
  | inr ds => ObsCalls (map (fun cl => call (cinst look) (btab_inst tab) ds (fst cl) (snd cl)) calls)
  end.

(* the fuel of the model's instance-of was enough: no test of an argument against a parameter type ran out *)
Definition inst_fuel_ok (look : str -> option pty) (r : fnres) (calls : list (list pval * option N)) : bool :=
  match r with
  | inl _ => true
  | inr ds =>
      forallb (fun cl =>
        forallb (fun d =>
          forallb (fun t =>
            forallb (fun v => match pinst_in look inst_fuel [] t v with Some _ => true | None => false end) (fst cl))
            (s_types (d_sig d))) ds) calls
  end.

(* one function built and resolved in a fresh context (function.go:123-180: builder, local types - all bound before any
   is resolved -, createDispatch with the type references resolved against the local types) *)
Definition model_fn (tab : list (N * option N)) (aliases : list (str * pty)) (dss : list (list (bop pty N)))
           (calls : list (list pval * option N)) : fnobs :=
  obs_of tab (fn_look ctx0 (aliases, dss)) (snd (resolve_fn ctx0 (aliases, dss))) calls.

(* Projection of the builder's panics: the two complaints about the ORDER of the parameters (required after
   optional / anything after repeated) are one class — which of the two tests fires first when both apply
   (e.g. Param after OptionalParam; RepeatedParam) is not part of the property. *)
Definition pclass (c : pcode) : pcode :=
  match c with PAfterRepeated => PReqAfterOpt | c' => c' end.

Definition fnobs_eqb (a b : fnobs) : bool :=
  match a, b with
  | ObsPanic i c, ObsPanic j d => Nat.eqb i j && pcode_eqb (pclass c) (pclass d)
  | ObsCalls r, ObsCalls s => list_eqb callres_eqb r s
  | _, _ => false
  end.

Definition fn_check (tab : list (N * option N)) (c : fncase) : bool :=
  let '(aliases, dss, calls, obs) := c in
  fnobs_eqb (model_fn tab aliases dss calls) obs &&
  inst_fuel_ok (fn_look ctx0 (aliases, dss)) (snd (resolve_fn ctx0 (aliases, dss))) calls.

Definition fn_mismatches (tab : list (N * option N)) (cs : list fncase) : list N := failing (fn_check tab) cs.

(* ---- histories: several functions built, resolved (some raising, recovered by the caller) and called one after
   the other in ONE context ------------------------------------------------------------------------------- *)
Definition histcase := list fncase.

Definition decl_of_case (c : fncase) : fndecl := let '(aliases, dss, _, _) := c in (aliases, dss).

Definition hist_check (tab : list (N * option N)) (h : histcase) : bool :=
  let rs := snd (run_history ctx0 (map decl_of_case h)) in
  Nat.eqb (length rs) (length h) &&
  forallb (fun rc => let '(r, c) := rc in
                     let '(aliases, dss, calls, obs) := c in
                     (* the context is the initial one again after every function (C16_resolve_restores_loader) *)
                     let look := fn_look ctx0 (aliases, dss) in
                     fnobs_eqb (obs_of tab look r calls) obs && inst_fuel_ok look r calls)
          (combine rs h).

Definition hist_mismatches (tab : list (N * option N)) (cs : list histcase) : list N := failing (hist_check tab) cs.

(* ---- new ---------------------------------------------------------------------------------------------- *)
Fixpoint pval_eqb (a b : pval) {struct a} : bool :=
  match a, b with
  | VUndef, VUndef => true
  | VBool x, VBool y => Bool.eqb x y
  | VInt x, VInt y => Z.eqb x y
  | VFloat x, VFloat y => N.eqb x y
  | VStr x, VStr y => str_eqb x y
  | VArr xs, VArr ys =>
      (fix go (l : list pval) (m : list pval) : bool :=
         match l, m with
         | [], [] => true
         | x :: l', y :: m' => pval_eqb x y && go l' m'
         | _, _ => false
         end) xs ys
  | VOther x, VOther y => N.eqb x y
  | _, _ => false
  end.

Definition outcome_eqb (a b : outcome pval) : bool :=
  match a, b with
  | OVal x, OVal y => pval_eqb x y
  | OErr e, OErr f => ecode_eqb e f
  | OFault, OFault | OPanic, OPanic => true
  | _, _ => false
  end.

(* The registered constructor function of a core type is an oracle: `raw` is what calling it directly
   (px.Load (constructor, name), Call) did on these arguments.  What is compared is newInstance: the
   constructor lookup by the receiver's name, the AssertInstance re-check against the (constrained)
   receiver with the model's instance-of, and the pass-through of errors. *)
Definition oracle_ctor (raw : outcome pval) : ctor pty pval N :=
  ([mkD (mkSig 0 max_int64 [PAny] None) true], fun _ _ => raw).

Definition pnew (t : pty) (args : list pval) (raw : outcome pval) : outcome pval :=
  new_instance (blk:=N) pinst (fun _ _ => false) pname (fun _ => None) (fun _ => None)
    (fun n => if has_core_ctor n then Some (oracle_ctor raw) else None)
    (fun _ => None) (fun _ => None) (RcvType t) args.

Definition newcase := (pty * list pval * outcome pval * outcome pval)%type.

Definition new_check (c : newcase) : bool :=
  let '(t, args, raw, obs) := c in outcome_eqb (pnew t args raw) obs.

Definition new_mismatches (cs : list newcase) : list N := failing new_check cs.

(* ---- instance-of on the fragment (with the local aliases bound as for a function that declares them) -------- *)
Definition inst_check (aliases : list (str * pty)) (c : pty * pval * bool) : bool :=
  let '(t, v, b) := c in
  let look := fn_look ctx0 (aliases, []) in
  match pinst_in look inst_fuel [] (subst_with (local_ref [] (map fst aliases)) t) v with
  | Some r => Bool.eqb r b
  | None => false
  end.

Definition inst_mismatches (aliases : list (str * pty)) (cs : list (pty * pval * bool)) : list N :=
  failing (inst_check aliases) cs.

(* ---- new with the constructors that are modelled end to end (no oracle): receiver Boolean -------------- *)
Definition is_modelled_recv (t : pty) : bool := match t with PBoolean => true | _ => false end.

Definition new_modelled_check (c : newcase) : bool :=
  let '(t, args, raw, obs) := c in
  if is_modelled_recv t then outcome_eqb (pnew_modelled t args) obs else true.

Definition new_modelled_mismatches (cs : list newcase) : list N := failing new_modelled_check cs.

(* ---- looking at a built function between calls ------------------------------------------------------------------
   The function is built and resolved in a fresh context, the calls are made, then - once per round - the recorded
   read-only accessors are asked (each also of the function a repeated Resolve hands out) and the SAME calls are made
   again.  Compared: what the accessors answered (number of dispatchers / names, type and captures-rest of every
   px.Parameter, the slot types, the size of the parameter tuple, whether there is a block type) and what every call
   did after every round. *)
Fixpoint pty_eqb (a b : pty) {struct a} : bool :=
  match a, b with
  | PAny, PAny | PUndef, PUndef | PBoolean, PBoolean | PNumeric, PNumeric | PFloat, PFloat => true
  | PInteger l h, PInteger l' h' => Z.eqb l l' && Z.eqb h h'
  | PString l h, PString l' h' => Z.eqb l l' && Z.eqb h h'
  | PEnum vs, PEnum ws => list_eqb str_eqb vs ws
  | PEnumCI vs, PEnumCI ws => list_eqb str_eqb vs ws
  | POptional t, POptional u => pty_eqb t u
  | PVariant ts, PVariant us =>
      (fix go (l m : list pty) : bool :=
         match l, m with
         | [], [] => true
         | x :: l', y :: m' => pty_eqb x y && go l' m'
         | _, _ => false
         end) ts us
  | PArray e l h, PArray e' l' h' => pty_eqb e e' && Z.eqb l l' && Z.eqb h h'
  | PRef n, PRef m => str_eqb n m
  | PAliasT n, PAliasT m => str_eqb n m
  | _, _ => false
  end.

Definition caobs := aobs pty N.

(* the harness names an observed type by the declared type expression it prints like (a local name stays a name);
   `sub` resolves the local names as Resolve does *)
Definition aobs_eqb (sub : str -> option pty) (m o : caobs) : bool :=
  match m, o with
  | OCount a, OCount b => Nat.eqb a b
  | OParams ps, OParams qs =>
      list_eqb pty_eqb (map fst ps) (map (fun q => subst_with sub (fst q)) qs) && list_eqb Bool.eqb (map snd ps) (map snd qs)
  | OTypes ts, OTypes us => list_eqb pty_eqb ts (map (subst_with sub) us)
  | OSize a b, OSize c d => Z.eqb a c && Z.eqb b d
  | OBlockT a, OBlockT b => match a, b with Some _, Some _ | None, None => true | _, _ => false end
  | OText, OText => true
  | OResolved a, OResolved b => Bool.eqb a b
  | OIndexFault, OIndexFault => true
  | _, _ => false
  end.

Definition inspcase :=
  (list (str * pty) * list (list (bop pty N)) * list (list pval * option N) * list callres
   * list accessor * list (list caobs * list callres))%type.

(* the state of the function after BuildFunction + Resolve in a fresh context: the builders with their types resolved
   (createDispatch writes them back, function.go:190-193) and the table *)
Definition insp_state (aliases : list (str * pty)) (dss : list (list (bop pty N))) : option (fstate pty N) :=
  match snd (resolve_fn ctx0 (aliases, dss)) with
  | inr ds =>
      match run_all (map (map (subst_op_with (local_ref [] (map fst aliases)))) dss) 0 with
      | inr ss => Some (mkF ss ds)
      | inl _ => None
      end
  | inl _ => None
  end.

Definition calls_on (tab : list (N * option N)) (look : str -> option pty) (st : fstate pty N)
           (calls : list (list pval * option N)) : list callres :=
  map (fun cl => call (cinst look) (btab_inst tab) (f_table st) (fst cl) (snd cl)) calls.

Fixpoint insp_rounds (tab : list (N * option N)) (look sub : str -> option pty) (st : fstate pty N) (accs : list accessor)
         (calls : list (list pval * option N)) (rounds : list (list caobs * list callres)) : bool :=
  match rounds with
  | [] => true
  | (os, rs) :: more =>
      let '(st1, mos) := run_accessors st accs in
      list_eqb (aobs_eqb sub) mos os && list_eqb callres_eqb (calls_on tab look st1 calls) rs &&
      insp_rounds tab look sub st1 accs calls more
  end.

Definition insp_check (tab : list (N * option N)) (c : inspcase) : bool :=
  let '(aliases, dss, calls, before, accs, rounds) := c in
  let look := fn_look ctx0 (aliases, dss) in
  match insp_state aliases dss with
  | Some st =>
      list_eqb callres_eqb (calls_on tab look st calls) before &&
      insp_rounds tab look (local_ref [] (map fst aliases)) st accs calls rounds &&
      inst_fuel_ok look (inr (f_table st)) calls
  | None => false            (* only functions that were built and resolved are looked at *)
  end.

Definition insp_mismatches (tab : list (N * option N)) (cs : list inspcase) : list N := failing (insp_check tab) cs.
