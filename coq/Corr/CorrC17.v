(* Correspondence obligations for C17: the model of Model/Obj.v is run on the worlds (definitions by the
   text route and the init-hash route, construction requests, reads) that the harness ran on the
   implementation; every projected observable must agree.

   Observables per definition: accepted (constructor attributes in positional order with kind, type and
   value, required count, the set of equality attribute names, the parameter type of the named constructor:
   member names, which may be left out, derived value types) or the error code.
   Per construction request: the error code, or for every asked name Get (found/value/error) and the
   read through the type (Member(n).Get), the init-hash, and IsInstance against every accepted
   definition of the world.  Per pair of constructed objects: Equals (false / true / raised / not applicable). *)
From Coq Require Import ZArith NArith Bool List.
From PcoreV Require Import Model.Base Model.Obj Model.ObjNest.
Import ListNotations.
Open Scope Z_scope.

Inductive defobs :=
| DRej (e : ecode)
| DAcc (info : list (str * kind * ty * option value)) (req : nat) (eq : list str)
       (init : ty).   (* the parameter type of the named constructor, as its signature prints it *)

Record getobs := mkGet { g_name : str; g_get : result (option value); g_aget : aget }.

Inductive objobs :=
| ORej (e : ecode)
| OOk (gets : list getobs) (ih : result (list (str * value))) (insts : list bool).

Record defcase := mkDC { dc_route : route; dc_name : str; dc_raw : value; dc_obs : defobs }.
Record newcase := mkNC { nc_t : nat; nc_args : list value; nc_obs : objobs }.
(* Equals of two constructed objects: false / true / raised; EqNA when one of them was not constructed *)
Inductive eqc := EqNo | EqYes | EqRaised | EqNA.
Definition eqc_eqb (a b : eqc) : bool :=
  match a, b with EqNo, EqNo | EqYes, EqYes | EqRaised, EqRaised | EqNA, EqNA => true | _, _ => false end.

Record world := mkWorld { w_defs : list defcase; w_names : list str; w_news : list newcase; w_eq : list (list eqc) }.

(* ---- running the model on a world ---- *)

Fixpoint run_defs (env : list objdef) (ds : list defcase) : list (result objdef) :=
  match ds with
  | [] => []
  | dc :: r =>
    let x := define (dc_route dc) env (dc_name dc) (dc_raw dc) in
    x :: run_defs (match x with Ok d => env ++ [d] | Err _ => env end) r
  end.

Definition run_new (types : list (result objdef)) (nc : newcase) : result obj :=
  match nth_error types (nc_t nc) with
  | Some (Ok d) => new_object d (nc_args nc)
  | _ => Err ENoType
  end.

(* ---- comparing ---- *)

Definition opt_val_eqb (a b : option value) : bool := option_eqb value_eqb a b.

Definition attrobs_eqb (a b : str * kind * ty * option value) : bool :=
  match a, b with
  | (n1, k1, t1, v1), (n2, k2, t2, v2) => str_eqb n1 n2 && kind_eqb k1 k2 && ty_eqb t1 t2 && opt_val_eqb v1 v2
  end.

Definition obs_of_attr (a : attr) : str * kind * ty * option value := (a_name a, a_kind a, a_type a, a_value a).

Definition subset (a b : list str) : bool := forallb (fun x => mem_str x b) a.
Definition same_set (a b : list str) : bool := subset a b && subset b a && Nat.eqb (length a) (length b).

Definition eq_names (info : ainfo) : list str :=
  map (fun i => match nth_error (ai_attrs info) i with Some a => a_name a | None => [] end) (ai_eq info).

Definition check_def (r : result objdef) (o : defobs) : bool :=
  match r, o with
  | Err e, DRej e' => ecode_eqb e e'
  | Ok d, DAcc info req eq init =>
    list_eqb attrobs_eqb (map obs_of_attr (ai_attrs (d_info d))) info
    && Nat.eqb (ai_req (d_info d)) req
    && same_set (eq_names (d_info d)) eq
    (* the hypothesis of the theorems of Properties/C17.v holds of every accepted definition outside the
       input class of the open finding *)
    && (negb (ser_complete d) || info_wf (d_info d))
    (* createInitType / typeAndInit: the Struct the named constructor checks its argument against (a name listed twice
       in a serialization list makes it a Struct with a repeated key: open finding) *)
    && (negb (ser_complete d) || ty_eqb (init_type (d_info d)) init)
  | _, _ => false
  end.

Definition res_eqb {A} (eqb : A -> A -> bool) (a b : result A) : bool :=
  match a, b with
  | Ok x, Ok y => eqb x y
  | Err e, Err e' => ecode_eqb e e'
  | _, _ => false
  end.

Definition aget_eqb (a b : aget) : bool :=
  match a, b with
  | ANone, ANone => true
  | AVal x, AVal y => value_eqb x y
  | AErr e, AErr e' => ecode_eqb e e'
  | _, _ => false
  end.

Definition kv_eqb (a b : str * value) : bool := str_eqb (fst a) (fst b) && value_eqb (snd a) (snd b).

Definition check_get (o : obj) (g : getobs) : bool :=
  res_eqb opt_val_eqb (get o (g_name g)) (g_get g) && aget_eqb (attr_get o (g_name g)) (g_aget g).

Definition insts_of (types : list (result objdef)) (o : obj) : list bool :=
  map (fun t => match t with Ok d => instance_of d o | Err _ => false end) types.

Definition check_obj (types : list (result objdef)) (names : list str) (r : result obj) (ob : objobs) : bool :=
  match r, ob with
  | Err e, ORej e' => ecode_eqb e e'
  | Ok o, OOk gets ih insts =>
    list_eqb str_eqb names (map g_name gets)
    && forallb (check_get o) gets
    && res_eqb (list_eqb kv_eqb) (init_hash o) ih
    && list_eqb Bool.eqb (insts_of types o) insts
  | _, _ => false
  end.

Definition eq_code (a b : result obj) : eqc :=
  match a, b with
  | Ok x, Ok y => match obj_eqb x y with Ok true => EqYes | Ok false => EqNo | Err _ => EqRaised end
  | _, _ => EqNA
  end.

Definition eq_matrix (objs : list (result obj)) : list (list eqc) :=
  map (fun a => map (fun b => eq_code a b) objs) objs.

Definition types_of (w : world) : list (result objdef) := run_defs [] (w_defs w).
Definition objs_of (w : world) : list (result obj) := map (run_new (types_of w)) (w_news w).

Fixpoint all2 {A B} (f : A -> B -> bool) (a : list A) (b : list B) : bool :=
  match a, b with
  | [], [] => true
  | x :: a', y :: b' => f x y && all2 f a' b'
  | _, _ => false
  end.

(* objectType.InitFromHash / Resolve / createAttributesInfo / EqualityAttributes / newAttribute / assertOverride *)
Definition define_check (w : world) : bool :=
  all2 check_def (types_of w) (map dc_obs (w_defs w)).

(* createNewFunction dispatch / NewObjectValue / PositionalFromHash / Get / attribute.Get / InitHash / IsInstance *)
Definition object_check (w : world) : bool :=
  all2 (check_obj (types_of w) (w_names w)) (objs_of w) (map nc_obs (w_news w)).

(* attributeSlice.Equals / objectType.Equals *)
Definition equals_check (w : world) : bool :=
  list_eqb (list_eqb eqc_eqb) (eq_matrix (objs_of w)) (w_eq w).

Definition define_mismatches (ws : list world) : list N := failing define_check ws.
Definition object_mismatches (ws : list world) : list N := failing object_check ws.
Definition equals_mismatches (ws : list world) : list N := failing equals_check ws.

(* ---- the nested family (Model/ObjNest.v): attributes whose type is or contains another Object type ----
   One case per construction: the name and the constructor attributes (layout order, declared values, types - an Object type
   contains the attributes of the type it refers to) of the type, the arguments as given (a nested instance in normal form, a
   nested init-hash as a Hash), the observed outcome (the normal form of the object read attribute by attribute through Get, or
   the class of the rejection) and the observed init-hash.  Besides the outcome and the init-hash the obligation evaluates, on
   every constructed object, the hypotheses and conclusions of the theorems C17_nested_*: the type is well formed, the object is
   an instance of its type, and coercing its full init-hash form gives the object back; the named creator rebuilds it from
   {name_i => v_i}, from its full init-hash form and from the model's InitHash; and the argument hash of every named
   construction denotes the observed object (`repb`, the hypothesis of C17_nested_every_form_builds_the_object). *)
Record ncase := mkNCase { nc_name : str; nc_attrs : nty; nc_nargs : list nvalue; nc_nobs : nres; nc_nih : list (str * nvalue) }.

Definition nres_eqb (a b : nres) : bool :=
  match a, b with
  | NOk x, NOk y => nvalue_eqb x y
  | NIllegalArguments, NIllegalArguments | NMissing, NMissing | NCoerceFails, NCoerceFails => true
  | _, _ => false
  end.

Definition nkv_eqb (a b : str * nvalue) : bool := str_eqb (fst a) (fst b) && nvalue_eqb (snd a) (snd b).

Definition nested_check (c : ncase) : bool :=
  let t := NObj (nc_name c) (nc_attrs c) in
  nres_eqb (nnew (nc_name c) (nc_attrs c) (nc_nargs c)) (nc_nobs c)
  && match nc_nobs c with
     | NOk (NVObj m vals) =>
       list_eqb nkv_eqb (ninit_hash (nc_attrs c) vals) (nc_nih c)
       && nwf t && ninst t (NVObj m vals)
       && match coerce t (to_init t (NVObj m vals)) with Some v => nvalue_eqb v (NVObj m vals) | None => false end
       (* instances of C17_nested_forms_build_one_object / C17_nested_init_hash_roundtrip on the observed object: by name
          from the instances (zipv), from the full init-hash form, and from the model's InitHash *)
       && nres_eqb (named_new m (nc_attrs c) (zipv (nc_attrs c) vals)) (NOk (NVObj m vals))
       && nres_eqb (nnew m (nc_attrs c) [NVHash (to_init_vals (nc_attrs c) vals)]) (NOk (NVObj m vals))
       && nres_eqb (nnew m (nc_attrs c) [NVHash (ninit_hash (nc_attrs c) vals)]) (NOk (NVObj m vals))
       (* the hypothesis of C17_nested_every_form_builds_the_object on the arguments the harness generated: whenever the named
          creator took the call, the argument hash DENOTES the observed object (repb: nested objects as instances or init-hashes
          in any mixture, declared values given or left out) *)
       && match nc_nargs c with
          | [NVHash h] =>
            if keys_known (nc_attrs c) h && ginst_members true (nc_attrs c) h then repb t (NVHash h) (NVObj m vals)
            else posrep (nc_attrs c) (nc_nargs c) vals
          | _ => posrep (nc_attrs c) (nc_nargs c) vals     (* the same for the positional creator: C17_nested_every_tuple_builds_the_object *)
          end
     | NOk _ => false
     | _ => true
     end.

Definition nested_mismatches (cs : list ncase) : list N := failing nested_check cs.
