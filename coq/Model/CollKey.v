(* CollKey.v — the hash key (px.ToKey) of the values of Model/Coll.v.

   Model/Coll.v takes hash-key equality to be Equals (`keq := veq`).  This file gives the key itself: the bytes
   that px.ToKey (types/types.go:396 -> appendKey :577) writes for a value of the C09 universe, through the model
   of every ToKey method in Model/Keys.v (property C07; file:line there):
     undef        UndefValue.ToKey   undeftype.go:113      [1; 'u']
     Boolean      booleanValue.ToKey booleantype.go:302    [1; 'b'; 0|1]
     Integer      integerValue.ToKey integertype.go:413    1 :: 'i' :: the 8 bytes, big endian
     String       stringKey          types.go:569          1 :: 's' :: 8 byte length ++ the bytes
     Array        Array.ToKey        arraytype.go:606      0 :: 'A' :: the keys of the elements ++ [4]
     HashEntry    HashEntry.ToKey    hashtype.go:577       the key of the array [key, value]
     Hash         Hash.ToKey         hashtype.go:1240      0 :: 'H' :: the keys of the ENTRIES, each rendered into its own
                                                          buffer, the rendered strings sorted (sort.Strings: byte
                                                          order) ++ [4]
   so that two hashes with the same entries have the same key whatever the order of the entries, and keys of
   different kinds that print alike (1 and '1', true and 'true', undef and 'undef') have different keys.

   `tokey` is tied to the implementation on every run (Corr/CorrC09.v: key_mismatches, the observed bytes of
   px.ToKey against `tokey`), and Proofs/CollKeyProofs.v shows that equality of `tokey` is `keq`.

   Definitions only. *)
From Coq Require Import ZArith NArith Bool List.
From PcoreV Require Import Model.Base Model.Coll.
From PcoreV Require Model.Keys.
Import ListNotations.
Open Scope Z_scope.

(* the value of the C07 universe that a tree denotes; a marker (only in observed snapshots of a defective tree) has
   no key: it is mapped to a value without a key *)
Fixpoint emb (p : pv) : Keys.value :=
  match p with
  | PUndef => Keys.VUndef
  | PBool b => Keys.VBool b
  | PInt z => Keys.VInt z
  | PStr s => Keys.VStr s
  | PArr l => Keys.VArr (map emb l)
  | PHash es => Keys.VHash (map (fun e => match e with (k, v) => (emb k, emb v) end) es)
  | PEntry k v => Keys.VEntry (emb k) (emb v)
  | PNil | PCut | PBad => Keys.VSensitive Keys.VUndef
  end.

(* px.ToKey *)
Definition tokey (p : pv) : str := Keys.vkey (emb p).

(* px.ToKey(a) == px.ToKey(b): what Hash.valueIndex (hashtype.go:1439), Hash.get (:1127), mergeEntries (:1182),
   uniqueEntries (:680), Delete (:834), DeleteAll (:844) and Array.Unique (arraytype.go:711) compare *)
Definition key_eqb (a b : pv) : bool := str_eqb (tokey a) (tokey b).

(* the ranges of the Go representation: int64 integers, strings whose length fits 8 bytes *)
Fixpoint in_range (p : pv) : bool :=
  match p with
  | PInt z => in_int64 z
  | PStr s => Keys.lenok s
  | PArr l => forallb in_range l
  | PHash es => forallb (fun e => match e with (k, v) => in_range k && in_range v end) es
  | PEntry k v => in_range k && in_range v
  | _ => true
  end.
