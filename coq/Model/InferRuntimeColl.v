(* A container layer over the Runtime leaf types of Model/InferRuntime.v.

   Inside the lattice model (Model/Lattice.v) a Runtime type is the opaque `TOther "Runtime"`, so nothing is proved there
   about Runtime types BELOW Array / Hash / Tuple / Variant / Optional.  This file models those constructors over the
   leaves Runtime (`rty`, with reflect as an oracle), Integer, String and Undef, following the same Go methods, in the same
   order of tests, as Model/Lattice.v (`inst`, `asg`) and Model/Infer.v (`infer_detailed`, `tkeq`, `udedup`, `mk_variant`) do:
     rc_inst      IsInstance            arraytype.go / hashtype.go / tupletype.go / varianttype.go / optionaltype.go,
                                        RuntimeType.IsInstance (rt_inst) at the leaves
     rc_asg       GuardedIsAssignable (types.go:112) + IsAssignable of the same receivers, RuntimeType.IsAssignable (rt_asg) at the leaves
     rc_detailed  px.DetailedValueType  arraytype.go:764 / hashtype.go:1326 privateDetailedType, WrapRuntime's type (rt_of)
     ckeq         equality of the hash keys of two types = what types.UniqueTypes (types.go:141) compares; the key of a
                  Runtime type carries the identity of its reflect.Type (fix 403c461), members of a Variant as a set
   A hash all of whose keys are non-empty strings has a Struct as its detailed type: Struct is in the lattice model only,
   here the result is the marker COut (no value is an instance of it). *)
From Coq Require Import ZArith NArith Bool List.
From PcoreV Require Import Model.Base Model.Lattice Model.InferRuntime.
Import ListNotations.
Open Scope Z_scope.

Inductive ct :=
| CUnit | CAny | CUndef
| CInt (lo hi : Z)
| CString
| CStrVal (s : str)
| CRt (r : rty)
| CArr (e : ct) (lo hi : Z)
| CHash (k v : ct) (lo hi : Z)
| CTuple (ts : list ct) (lo hi : Z)
| CVariant (ts : list ct)
| COptional (t : ct)
| COut.

Inductive rv :=
| RVUndef
| RVInt (z : Z)
| RVStr (s : str)
| RVGo (g : N)                       (* a wrapped Go value, by the number of its reflect.Type *)
| RVArr (vs : list rv)
| RVHash (es : list (rv * rv)).

Section CtInd.
  Variable P : ct -> Prop.
  Hypothesis HUnit : P CUnit. Hypothesis HAny : P CAny. Hypothesis HUndef : P CUndef.
  Hypothesis HInt : forall lo hi, P (CInt lo hi).
  Hypothesis HString : P CString.
  Hypothesis HStrVal : forall s, P (CStrVal s).
  Hypothesis HRt : forall r, P (CRt r).
  Hypothesis HArr : forall e lo hi, P e -> P (CArr e lo hi).
  Hypothesis HHash : forall k v lo hi, P k -> P v -> P (CHash k v lo hi).
  Hypothesis HTuple : forall ts lo hi, Forall P ts -> P (CTuple ts lo hi).
  Hypothesis HVariant : forall ts, Forall P ts -> P (CVariant ts).
  Hypothesis HOptional : forall t, P t -> P (COptional t).
  Hypothesis HOut : P COut.

  Fixpoint ct_ind' (t : ct) : P t :=
    match t with
    | CUnit => HUnit | CAny => HAny | CUndef => HUndef | CInt lo hi => HInt lo hi | CString => HString
    | CStrVal s => HStrVal s | CRt r => HRt r
    | CArr e lo hi => HArr e lo hi (ct_ind' e)
    | CHash k v lo hi => HHash k v lo hi (ct_ind' k) (ct_ind' v)
    | CTuple ts lo hi =>
        HTuple ts lo hi ((fix go (l : list ct) : Forall P l :=
                            match l with [] => Forall_nil _ | x :: r => Forall_cons _ (ct_ind' x) (go r) end) ts)
    | CVariant ts =>
        HVariant ts ((fix go (l : list ct) : Forall P l :=
                        match l with [] => Forall_nil _ | x :: r => Forall_cons _ (ct_ind' x) (go r) end) ts)
    | COptional t => HOptional t (ct_ind' t)
    | COut => HOut
    end.
End CtInd.

Section RvInd.
  Variable P : rv -> Prop.
  Hypothesis HUndef : P RVUndef.
  Hypothesis HInt : forall z, P (RVInt z).
  Hypothesis HStr : forall s, P (RVStr s).
  Hypothesis HGo : forall g, P (RVGo g).
  Hypothesis HArr : forall vs, Forall P vs -> P (RVArr vs).
  Hypothesis HHash : forall es, Forall (fun e => P (fst e) /\ P (snd e)) es -> P (RVHash es).

  Fixpoint rv_ind' (v : rv) : P v :=
    match v with
    | RVUndef => HUndef | RVInt z => HInt z | RVStr s => HStr s | RVGo g => HGo g
    | RVArr vs => HArr vs ((fix go (l : list rv) : Forall P l :=
                              match l with [] => Forall_nil _ | x :: r => Forall_cons _ (rv_ind' x) (go r) end) vs)
    | RVHash es => HHash es ((fix go (l : list (rv * rv)) : Forall (fun e => P (fst e) /\ P (snd e)) l :=
                                match l with
                                | [] => Forall_nil _
                                | (k, x) :: r =>
                                    @Forall_cons _ (fun e => P (fst e) /\ P (snd e)) (k, x) r
                                                 (conj (rv_ind' k) (rv_ind' x)) (go r)
                                end) es)
    end.
End RvInd.

(* tupletype.go:199 IsInstance: the types against the elements, the last type for the elements beyond *)
Section Walk.
  Context {A B : Type} (f : A -> B -> bool).
  Fixpoint walk (ts : list A) (vs : list B) {struct ts} : bool :=
    match ts, vs with
    | [], _ => true
    | _, [] => true
    | [t], v :: vs' => f t v && forallb (f t) vs'
    | t :: ts', v :: vs' => f t v && walk ts' vs'
    end.

  Fixpoint all2 (l : list A) (l' : list B) {struct l} : bool :=
    match l, l' with
    | [], [] => true
    | x :: r, y :: r' => f x y && all2 r r'
    | _, _ => false
    end.
End Walk.

(* ---- equality of the hash keys of two types (Model/Infer.v tkeq on these constructors) ---- *)
Fixpoint ckeq (a b : ct) {struct a} : bool :=
  match a, b with
  | CUnit, CUnit | CAny, CAny | CUndef, CUndef | CString, CString | COut, COut => true
  | CInt lo hi, CInt lo' hi' => Z.eqb lo lo' && Z.eqb hi hi'
  | CStrVal s, CStrVal s' => str_eqb s s'
  | CRt r, CRt r' => rty_eqb r r'                       (* runtimetype.go ToKey: the fields and the reflect.Type (fix 403c461) *)
  | CArr e lo hi, CArr e' lo' hi' => ckeq e e' && Z.eqb lo lo' && Z.eqb hi hi'
  | CHash k v lo hi, CHash k' v' lo' hi' => ckeq k k' && ckeq v v' && Z.eqb lo lo' && Z.eqb hi hi'
  | CTuple ts lo hi, CTuple ts' lo' hi' => all2 ckeq ts ts' && Z.eqb lo lo' && Z.eqb hi hi'
  | CVariant ts, CVariant ts' =>
      forallb (fun t => existsb (fun t' => ckeq t t') ts') ts &&
      forallb (fun u => existsb (fun t => ckeq t u) ts) ts'
  | COptional t, COptional t' => ckeq t t'
  | _, _ => false
  end.

(* types.go:141 UniqueTypes: the first of every group of types with the same hash key, in order *)
Fixpoint cdedup_from (seen l : list ct) : list ct :=
  match l with
  | [] => []
  | t :: r => if existsb (fun s => ckeq s t) seen then cdedup_from seen r else t :: cdedup_from (seen ++ [t]) r
  end.
Definition cdedup (l : list ct) : list ct :=
  match l with
  | [] | [_] => l                                      (* types.go:143 top < 2 *)
  | _ => cdedup_from [] l
  end.

(* varianttype.go:30 NewVariantType *)
Definition cmk_variant (ts : list ct) : ct :=
  match ts with
  | [t] => t
  | _ => CVariant ts
  end.

Definition is_cany (t : ct) : bool := match t with CAny => true | _ => false end.
Definition is_name (k : rv) : bool := match k with RVStr (_ :: _) => true | _ => false end.   (* a non-empty string *)

Section RC.
  Variable gasg : N -> N -> bool.    (* reflect: x.AssignableTo(y) *)
  Variable tname : N -> str.         (* reflect: x.String() *)

  (* ---- IsInstance (Model/Lattice.v inst on these constructors; the Runtime leaf = rt_inst) ---- *)
  Fixpoint rc_inst (t : ct) (v : rv) {struct t} : bool :=
    match t with
    | CAny | CUnit => true
    | CUndef => match v with RVUndef => true | _ => false end
    | CInt lo hi => match v with RVInt z => in_size lo hi z | _ => false end
    | CString => match v with RVStr _ => true | _ => false end
    | CStrVal s => match v with RVStr s' => str_eqb s s' | _ => false end
    | CRt r => match v with RVGo g => rt_inst gasg tname r g | _ => false end          (* runtimetype.go:189 *)
    | CArr e lo hi =>
        match v with
        | RVArr vs => in_size lo hi (zlen vs) && (is_cany e || forallb (rc_inst e) vs)
        | _ => false
        end
    | CHash k x lo hi =>
        match v with
        | RVHash es => in_size lo hi (zlen es) && forallb (fun e => rc_inst k (fst e) && rc_inst x (snd e)) es
        | _ => false
        end
    | CTuple ts lo hi =>
        match v with
        | RVArr vs => in_size lo hi (zlen vs) && walk rc_inst ts vs
        | _ => false
        end
    | CVariant ts => existsb (fun t => rc_inst t v) ts
    | COptional t => match v with RVUndef => true | _ => rc_inst t v end
    | COut => false
    end.

  (* ---- GuardedIsAssignable + IsAssignable (Model/Lattice.v nullable / flat FUndef / asg on these constructors; two
     Runtime leaves = rt_asg, a Runtime receiver accepts no other leaf and no other leaf receiver accepts a Runtime type) ---- *)
  Fixpoint cnullable (x : ct) : bool :=
    match x with
    | CAny | CUnit | CUndef => true
    | COptional _ => true
    | CVariant ts => existsb cnullable ts
    | _ => false
    end.

  Fixpoint cflat_undef (b : ct) : bool :=           (* undefTypeDefault accepts b *)
    match b with
    | CUnit | CUndef => true
    | COptional ot => cflat_undef ot
    | CVariant ts => forallb cflat_undef ts
    | _ => false
    end.

  Fixpoint rc_asg (a : ct) : ct -> bool :=
    fix asg_a (b : ct) : bool :=
      if is_cany a then true else                                   (* types.go:112 *)
      let recv :=                                                   (* a.IsAssignable(b, g) *)
        match a with
        | CAny | CUnit => true
        | CUndef => match b with CUndef => true | _ => false end
        | CInt lo hi => match b with CInt lo' hi' => size_sub lo hi lo' hi' | _ => false end
        | CString => match b with CString | CStrVal _ => true | _ => false end
        | CStrVal s => match b with CStrVal s' => str_eqb s s' | _ => false end
        | CRt r => match b with CRt o => rt_asg gasg r o | _ => false end          (* runtimetype.go:164 *)
        | CArr e lo hi =>
            match b with
            | CArr e' lo' hi' => size_sub lo hi lo' hi' && ((hi' <=? 0) || rc_asg e e')
            | CTuple ts lo' hi' =>
                size_sub lo hi lo' hi' &&
                ((hi' <=? 0) || match ts with [] => rc_asg e CAny | _ => forallb (rc_asg e) ts end)
            | _ => false
            end
        | CHash k v lo hi =>
            match b with
            | CHash k' v' lo' hi' => size_sub lo hi lo' hi' && ((hi' <=? 0) || (rc_asg k k' && rc_asg v v'))
            | _ => false
            end
        | CTuple ts lo hi =>
            match b with
            | CArr e' lo' hi' => size_sub lo hi lo' hi' && ((hi' <=? 0) || forallb (fun t => rc_asg t e') ts)
            | CTuple os lo' hi' =>
                size_sub lo hi lo' hi' &&
                match ts with
                | [] => true
                | _ =>
                  (hi' <=? 0) ||
                  match os with
                  | [] => forallb (fun t => rc_asg t CAny) ts
                  | _ =>
                    (fix pairs (ts : list ct) (os : list ct) {struct ts} : bool :=
                       match ts, os with
                       | [], _ => true
                       | _, [] => true
                       | [t], o :: os' => rc_asg t o && forallb (rc_asg t) os'
                       | t :: ts', [o] => rc_asg t o && forallb (fun t' => rc_asg t' o) ts'
                       | t :: ts', o :: os' => rc_asg t o && pairs ts' os'
                       end) ts os
                  end
                end
            | _ => false
            end
        | CVariant ts => existsb (fun t => rc_asg t b) ts
        | COptional t => cflat_undef b || rc_asg t b
        | COut => false
        end in
      match b with                                                  (* types.go:115 *)
      | CUnit => true
      | COptional ot => if cnullable a then asg_a ot else false
      | CVariant ts => forallb asg_a ts
      | _ => recv
      end.

  (* ---- px.DetailedValueType(v) ---- *)
  Fixpoint rc_detailed (v : rv) : ct :=
    match v with
    | RVUndef => CUndef                                  (* undeftype.go:121 *)
    | RVInt z => CInt z z                                (* integertype.go:456 *)
    | RVStr s => CStrVal s                               (* stringtype.go:591 *)
    | RVGo g => CRt (rt_of tname g)                      (* runtimetype.go:260 WrapRuntime; types.go:376 *)
    | RVArr vs =>                                        (* arraytype.go:764 privateDetailedType *)
        match vs with
        | [] => CArr CUnit 0 0
        | _ => CTuple (map rc_detailed vs) (zlen vs) (zlen vs)
        end
    | RVHash es =>                                       (* hashtype.go:1326 privateDetailedType *)
        match es with
        | [] => CHash CUnit CUnit 0 0
        | _ =>
          if forallb (fun e => is_name (fst e)) es then COut          (* a Struct: Model/Infer.v *)
          else CHash (cmk_variant (cdedup (map (fun e => match e with (k, _) => rc_detailed k end) es)))
                     (cmk_variant (cdedup (map (fun e => match e with (_, x) => rc_detailed x end) es)))
                     (zlen es) (zlen es)
        end
    end.
End RC.

(* the values of this layer: no hash (at any depth) all of whose keys are non-empty strings (its detailed type is a Struct) *)
Fixpoint rv_ok (v : rv) : bool :=
  match v with
  | RVArr vs => forallb rv_ok vs
  | RVHash es =>
      match es with
      | [] => true
      | _ => negb (forallb (fun e => is_name (fst e)) es) &&
             forallb (fun e => match e with (k, x) => rv_ok k && rv_ok x end) es
      end
  | _ => true
  end.
