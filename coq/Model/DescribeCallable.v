(* DescribeCallable.v — executable model of the Callable part of the type mismatch describer (C19).

   Mirrors, AS THEY ARE NOW:
     types/callabletype.go:216      CallableType.IsAssignable
     types/types.go:113             GuardedIsAssignable (the decomposition of the actual type, for an expected Callable)
     internal/typemismatchdescriber.go
       :819-847  describeCallableType        :742 describeArgumentTuple (= describeTuple, Model/Describe.v)
       :872-885  internalDescribe            :856 describe (no TypeReference in the fragment)
       :996      px.DescribeMismatch: describe, then formatMismatch -> text() of every mismatch
     px/types.go:289,314            AssertType / TypeMismatchError

   Universe: a Callable whose parameter tuple and return type are types of Model/Ty.v and whose block type is
   absent, such a Callable, or Optional[such a Callable] (what the type parser builds: callabletype.go:60-110).
   NewCallableType accepts any px.Type as parameters type; a non-Tuple there is not a Callable the library can
   print or call (ParameterNames, Parameters assert *TupleType) and is outside the universe, so the type
   assertion of ep to a TupleType at :823 has no fault site here.  The actual type is such a Callable or any
   type of Model/Ty.v.

   A mismatch is (class, path) as in Model/Describe.v PLUS the presence of the expected and actual type it
   carries: text() of a type/pattern/size/count mismatch is worded from both (shortName, Generalize, the
   assertion to *IntegerType), so a nil type is a nil dereference when px.DescribeMismatch formats the
   message — the explicit fault FNilType of describe_mismatch_callable.  The mismatches produced by the
   describers of Model/Describe.v are lifted with both types present: every type of that universe is a
   non-nil Go value. *)
From Coq Require Import ZArith NArith Bool List Arith.
From PcoreV Require Import Model.Base Model.Ty Model.Lattice Model.Describe.
Import ListNotations.
Open Scope Z_scope.

(* TupleType: types, size != nil, givenOrActualSize (tupletype.go:30) *)
Definition ctuple := (list ty * bool * Z * Z)%type.
Definition tuple_ty (t : ctuple) : ty := match t with (ts, given, lo, hi) => TTuple ts given lo hi end.
Definition tuple_types (t : ctuple) : list ty := match t with (ts, _, _, _) => ts end.
Definition tuple_lo (t : ctuple) : Z := match t with (_, _, lo, _) => lo end.
Definition tuple_hi (t : ctuple) : Z := match t with (_, _, _, hi) => hi end.

(* CallableType{paramsType, returnType, blockType} (callabletype.go:14); `opt` = the block type is
   Optional[Callable…] rather than Callable… *)
Inductive cty :=
| CNoBlock (params : option ctuple) (ret : option ty)
| CBlock (params : option ctuple) (ret : option ty) (opt : bool) (b : cty).

Definition cparams (c : cty) : option ctuple := match c with CNoBlock p _ | CBlock p _ _ _ => p end.
Definition cret (c : cty) : option ty := match c with CNoBlock _ r | CBlock _ r _ _ => r end.
Definition cblock (c : cty) : option (bool * cty) :=
  match c with CNoBlock _ _ => None | CBlock _ _ o b => Some (o, b) end.

(* tupleTypeDefault (tupletype.go:405): no types, size = IntegerTypePositive given *)
Definition default_tuple : ty := TTuple [] true 0 max_int64.

Definition present {A} (o : option A) : bool := match o with Some _ => true | None => false end.

(* the types a mismatch carries: none (key and block mismatches), or expected/actual with their presence *)
Inductive carried := NoTypes | Types (expected_present actual_present : bool).
Definition tmismatch := (mismatch * carried)%type.

Definition carried_eqb (a b : carried) : bool :=
  match a, b with
  | NoTypes, NoTypes => true
  | Types e a', Types e' a'' => Bool.eqb e e' && Bool.eqb a' a''
  | _, _ => false
  end.
Definition tmismatch_eqb (a b : tmismatch) : bool := mismatch_eqb (fst a) (fst b) && carried_eqb (snd a) (snd b).

(* expectedActualMismatch (typemismatchdescriber.go:38): typeMismatch, patternMismatch, basicSizeMismatch, countMismatch *)
Definition has_types (c : mclass) : bool :=
  match c with CType | CPattern | CSize | CCount => true | _ => false end.
(* a mismatch made by a describer of Model/Describe.v *)
Definition lift (m : mismatch) : tmismatch := (m, if has_types (fst m) then Types true true else NoTypes).

(* text() (:365 typeMismatch, :470 patternMismatch, :529 basicSizeMismatch, :594 countMismatch) dereferences both
   carried types; the other classes word their key or nothing *)
Definition text_ok (m : tmismatch) : bool :=
  match snd m with NoTypes => true | Types e a => e && a end.

Inductive actual := ATy (t : ty) | ACallable (c : cty).

(* GuardedIsAssignable(a Callable, b) for b of Model/Ty.v (types.go:113-142): Unit is accepted, NotUndef[T] and
   Variant decompose, Optional needs Undef to be accepted (never), everything else reaches
   CallableType.IsAssignable, which answers false for what is not a CallableType (callabletype.go:217) *)
Fixpoint callable_accepts (b : ty) : bool :=
  match b with
  | TUnit => true
  | TNotUndef t => callable_accepts t
  | TVariant ts => forallb callable_accepts ts
  | _ => false
  end.

Section Callable.
  Variable rx : str -> str -> bool.
  Variable teq : ty -> ty -> bool.
  Notation asg := (asg rx true).

  (* callabletype.go:221 *)
  Definition is_bare (c : cty) : bool :=
    match c with CNoBlock None None => true | _ => false end.

  (* callabletype.go:225-239: the return type (covariant, nil = Any) and the parameters (contravariant) *)
  Definition casg_head (e a : cty) : bool :=
    match cret e with
    | Some er => asg er (match cret a with Some ar => ar | None => TAny end)
    | None => true
    end &&
    match cparams a with
    | Some ap => match cparams e with Some ep => asg (tuple_ty ap) (tuple_ty ep) | None => false end
    | None => true
    end.

  (* CallableType.IsAssignable.  The block types are compared in reverse (callabletype.go:247
     isAssignable(oc.blockType, t.blockType)), so the recursion descends both types at once and swaps
     their roles: `dir` = x is the expected type.  GuardedIsAssignable of two block types
     (Callable / Optional[Callable]): an Optional actual needs Undef accepted, i.e. an Optional expected
     (types.go:131, optionaltype.go:95); then the contained Callables are compared. *)
  Fixpoint cq (x y : cty) (dir : bool) {struct x} : bool :=
    let e := if dir then x else y in
    let a := if dir then y else x in
    is_bare e ||
    (casg_head e a &&
     match x, y with
     | CNoBlock _ _, CNoBlock _ _ => true                      (* :241 *)
     | CBlock _ _ xo xb, CBlock _ _ yo yb =>
         let eo := if dir then xo else yo in
         let ao := if dir then yo else xo in
         implb eo ao && cq xb yb (negb dir)                    (* :247, a's block is the expected side *)
     | _, _ => false                                           (* :242, :245 *)
     end).
  Definition casg (e a : cty) : bool := cq e a true.

  (* px.IsAssignable(expected Callable, actual) *)
  Definition casg_actual (e : cty) (a : actual) : bool :=
    match a with ATy t => callable_accepts t | ACallable c => casg e c end.

  (* px.IsAssignable(eb, NilAs(Undef, ab)) at :834 for the block type (eo, eb) of the expected Callable *)
  Definition block_accepts (eo : bool) (eb : cty) (ab : option (bool * cty)) : bool :=
    match ab with
    | None => eo                                               (* Optional accepts Undef, Callable does not *)
    | Some (ao, ab') => implb ao eo && casg eb ab'
    end.

  (* describeCallableType :819 *)
  Definition describe_callable (e : cty) (a : actual) (p : path) : res (list tmismatch) :=
    match a with
    | ATy _ => Ok [((CType, p), Types true true)]                                   (* :846 *)
    | ACallable ca =>
        bind
          match cparams e with                                                      (* :822 *)
          | None => Ok []
          | Some ep =>
              bind (describe_tuple rx teq (tuple_ty ep)
                      (map (fun t => idesc rx teq t (is_optional_ty t)) (tuple_types ep)) (tuple_lo ep) (tuple_hi ep)
                      (match cparams ca with Some ap => tuple_ty ap | None => default_tuple end) p)   (* :825 NilAs *)
                   (fun ms => Ok (map lift ms))
          end
          (fun paramErrors =>
             match paramErrors with
             | _ :: _ => Ok paramErrors                                             (* :844 *)
             | [] =>
                 let er := cret e in                                                (* :829 *)
                 let ar := Some (match cret ca with Some t => t | None => TAny end) in   (* :830 NilAs(Any, …) *)
                 if match er, ar with
                    | None, _ => true
                    | Some t, Some t' => asg t t'
                    | Some _, None => false                                         (* IsAssignable(er, nil): types.go:118 *)
                    end
                 then
                   match cblock e with                                              (* :832 *)
                   | None => Ok []
                   | Some (eo, eb) =>
                       if block_accepts eo eb (cblock ca) then Ok [] else
                       match cblock ca with
                       | None => Ok [((CMissingRequiredBlock, p), NoTypes)]          (* :838 *)
                       | Some ab => Ok [((CType, pw p PBlock (KName [])), Types true (present (Some ab)))]   (* :840 *)
                       end
                   end
                 else Ok [((CType, pw p PReturn (KName [])), Types (present er) (present ar))]   (* :842 *)
             end)
    end.

  (* internalDescribe :872 for an expected Callable (original = expected) *)
  Definition idesc_callable (e : cty) (a : actual) (p : path) : res (list tmismatch) :=
    if casg_actual e a then Ok [] else
    match describe_callable e a p with
    | Ok [] => Ok [((CType, p), Types true true)]
    | r => r
    end.

  (* px.DescribeMismatch :996: describe, then the text of every mismatch *)
  Definition describe_mismatch_callable (name : str) (e : cty) (a : actual) : res (list tmismatch) :=
    bind (idesc_callable e a (subject_path name))
         (fun ms => if forallb text_ok ms then Ok ms else Fault FNilType).

  (* px.AssertType (px/types.go:289) *)
  Definition assert_type_callable (name : str) (e : cty) (a : actual) : res outcome :=
    if casg_actual e a then Ok Returns else
    bind (describe_mismatch_callable name e a) (fun ms => Ok (Raises TypeMismatchIssue (map fst ms))).
End Callable.
