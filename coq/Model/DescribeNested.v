(* DescribeNested.v — the describer for expected types that contain NAMED types (type aliases) at ANY position
   below Array / Hash / Tuple / Struct / Variant / Optional (C19).

   Model/DescribeHist.v models an alias chain at the TOP of the expected type only.  Here:
     xty        an expected type: a lattice type (XTy), an alias of an xty (XAlias: the alias carries the type it
                resolves to - the unfolding of an alias environment without cycles, see Part 2), or one of the six
                constructors that have a describer of their own over xty's.  The key type of a Struct member is a lattice
                type (String[value] or Optional of it: structtype.go NewStructElement2).
     xres       the type with every alias replaced by what it resolves to: TypeAliasType.IsAssignable / IsInstance
                (types/typealiastype.go) answer as the resolved type, and the constructors ask GuardedIsAssignable about their
                contained types - px.IsAssignable(e, a) = asg (xres e) a.
     orig       what the describers ask about `original`: "is an OptionalType" (describeVariantType :919) and "is a
                TypeAliasType" (describeOptionalType :609, describeVariantType :936); everything else is wording.
     xidesc     internalDescribe(expected, original, actual, path) :872 = the guard, describeByKind :887, the fallback :883:
                  alias   -> describeTypeAliasType :645 = internalDescribe(resolved, original = THIS alias, ..)
                  Optional-> describeOptionalType :606 (an alias original stays, otherwise the Optional becomes original)
                  Variant -> describeVariantType :916 (Undef appended for an Optional original; ONE merged mismatch below an
                             alias original is replaced by a type mismatch of the alias at the given path :936-940)
                  Array / Hash / Tuple / Struct -> the describers of Model/Describe.v over the describers of the
                             contained types, each called as internalDescribe(t, t, ..): original = the contained type itself
                  a lattice type -> idesc of Model/Describe.v / idesc_al of Model/DescribeHist.v (alias original)
     xdescribe  describe :856 (no unresolved reference in this universe): internalDescribe(e, e, actual, path).

   Part 2: alias ENVIRONMENTS.  ety = the written type with references `ERef i` to the i-th declared alias; the
   declarations are a list of bodies.  `env_ok` (a boolean) = every body refers to EARLIER declarations only, i.e. the
   environment has no cycle (every environment without cycles can be written in such an order; a cycle through an alias
   alone is rejected by the library, a cycle through a constructor has no resolved lattice type and stays with the walk /
   actual-side models DescribeWalk.v / DescribeActual.v).  `eunfold` replaces references by the unfolded aliases; it is
   defined (Some) exactly under these conditions (Proofs/DescribeNestedProofs.v). *)
From Coq Require Import ZArith NArith Bool List Arith.
From PcoreV Require Import Model.Base Model.Ty Model.Lattice Model.Describe Model.DescribeHist.
Import ListNotations.

Inductive xty :=
| XTy (t : ty)
| XAlias (r : xty)
| XOptional (t : xty)
| XArray (et : xty) (lo hi : Z)
| XHash (k v : xty) (lo hi : Z)
| XTuple (ts : list xty) (given : bool) (lo hi : Z)
| XStruct (ms : list (str * (ty * xty)))
| XVariant (ts : list xty).

Fixpoint xres (x : xty) : ty :=
  match x with
  | XTy t => t
  | XAlias r => xres r
  | XOptional t => TOptional (xres t)
  | XArray et lo hi => TArray (xres et) lo hi
  | XHash k v lo hi => THash (xres k) (xres v) lo hi
  | XTuple ts g lo hi => TTuple (map xres ts) g lo hi
  | XStruct ms => TStruct (map (fun m => match m with (n, (k, v)) => (n, (k, xres v)) end) ms)
  | XVariant ts => TVariant (map xres ts)
  end.

Inductive orig := ONone | OOpt | OAlias.

(* internalDescribe(t, t, ..): what the contained type t is as `original` *)
Definition xorig (x : xty) : orig :=
  match x with
  | XAlias _ => OAlias
  | XOptional _ => OOpt
  | XTy t => if is_optional_ty t then OOpt else ONone
  | _ => ONone
  end.

Section Nested.
  Variable rx : str -> str -> bool.
  Variable teq : ty -> ty -> bool.

  Definition xasg (e : xty) (a : ty) : bool := asg rx true (xres e) a.
  Definition xinst (e : xty) (v : value) : bool := inst rx true (xres e) v.

  Definition is_oopt (o : orig) : bool := match o with OOpt => true | _ => false end.

  Fixpoint xidesc (x : xty) (o : orig) (a : ty) (p : path) {struct x} : res (list mismatch) :=
    match x with
    | XTy t =>
        match o with
        | OAlias => idesc_al rx teq t a p
        | OOpt => idesc rx teq t true a p
        | ONone => idesc rx teq t false a p
        end
    | XAlias r => guarded rx (xres x) a p (xidesc r OAlias a p)                              (* :645 *)
    | XOptional t =>
        guarded rx (xres x) a p
          (describe_optional (xidesc t (match o with OAlias => OAlias | _ => OOpt end)) a p)   (* :609-614 *)
    | XVariant ts =>
        guarded rx (xres x) a p
          ((match o with OAlias => alias_single p | _ => fun r => r end)                       (* :936-940 *)
             (describe_variant rx (is_oopt o) (map (fun vt => (xres vt, xidesc vt (xorig vt))) ts) a p))
    | XStruct ms =>
        guarded rx (xres x) a p
          (describe_struct rx (xres x)
             (map (fun m => match m with (n, (k, v)) => (n, (k, xres v)) end) ms)
             (map (fun m => match m with
                            | (n, (k, v)) =>
                                (n, is_optional_ty k,
                                 match k with                                                (* e1.ActualKeyType() *)
                                 | TOptional t => idesc rx teq t (is_optional_ty t)
                                 | _ => idesc rx teq k (is_optional_ty k)
                                 end,
                                 xidesc v (xorig v))
                            end) ms) a p)
    | XHash k v lo hi =>
        guarded rx (xres x) a p (describe_hash rx (xres x) (xidesc k (xorig k)) (xidesc v (xorig v)) lo hi a p)
    | XTuple ts _ lo hi =>
        guarded rx (xres x) a p (describe_tuple rx teq (xres x) (map (fun t => xidesc t (xorig t)) ts) lo hi a p)
    | XArray et lo hi =>
        guarded rx (xres x) a p (describe_array rx (xres x) (xres et) (xidesc et (xorig et)) lo hi a p)
    end.

  (* describe :856 *)
  Definition xdescribe (e : xty) (a : ty) (p : path) : res (list mismatch) := xidesc e (xorig e) a p.
  Definition xdescribe_mismatch (name : str) (e : xty) (a : ty) : res (list mismatch) :=
    xdescribe e a (subject_path name).
End Nested.

(* ---- Part 2: alias environments ---- *)

Inductive ety :=
| ETy (t : ty)
| ERef (i : nat)
| EOptional (t : ety)
| EArray (et : ety) (lo hi : Z)
| EHash (k v : ety) (lo hi : Z)
| ETuple (ts : list ety) (given : bool) (lo hi : Z)
| EStruct (ms : list (str * (ty * ety)))
| EVariant (ts : list ety).

(* every reference is to one of the first n declarations *)
Fixpoint refs_below (n : nat) (t : ety) : bool :=
  match t with
  | ETy _ => true
  | ERef i => Nat.ltb i n
  | EOptional u | EArray u _ _ => refs_below n u
  | EHash k v _ _ => refs_below n k && refs_below n v
  | ETuple ts _ _ _ | EVariant ts => forallb (refs_below n) ts
  | EStruct ms => forallb (fun m => match m with (_, (_, v)) => refs_below n v end) ms
  end.

(* the alias environment has no cycle: declaration i refers to declarations < i only *)
Fixpoint env_ok_from (n : nat) (bodies : list ety) : bool :=
  match bodies with
  | [] => true
  | b :: r => refs_below n b && env_ok_from (S n) r
  end.
Definition env_ok (bodies : list ety) : bool := env_ok_from 0 bodies.

(* `done` = the unfolded aliases declared so far; None = a reference to something that is not (yet) declared *)
Definition mapo {A B} (f : A -> option B) : list A -> option (list B) :=
  fix go (l : list A) : option (list B) :=
    match l with
    | [] => Some []
    | x :: r => match f x, go r with Some y, Some ys => Some (y :: ys) | _, _ => None end
    end.

Fixpoint eunfold (done : list xty) (t : ety) : option xty :=
  match t with
  | ETy u => Some (XTy u)
  | ERef i => nth_error done i
  | EOptional u => option_map XOptional (eunfold done u)
  | EArray u lo hi => option_map (fun x => XArray x lo hi) (eunfold done u)
  | EHash k v lo hi =>
      match eunfold done k, eunfold done v with Some a, Some b => Some (XHash a b lo hi) | _, _ => None end
  | ETuple ts g lo hi => option_map (fun l => XTuple l g lo hi) (mapo (eunfold done) ts)
  | EStruct ms =>
      option_map XStruct
        (mapo (fun m => match m with (n, (k, v)) => option_map (fun x => (n, (k, x))) (eunfold done v) end) ms)
  | EVariant ts => option_map XVariant (mapo (eunfold done) ts)
  end.
(* declaration after declaration: alias i = an alias object whose resolved type is its body over the earlier aliases *)
Fixpoint ebuild (done : list xty) (bodies : list ety) : option (list xty) :=
  match bodies with
  | [] => Some done
  | b :: r => match eunfold done b with Some x => ebuild (done ++ [XAlias x]) r | None => None end
  end.
(* the expected type `t` written over the declarations `bodies` *)
Definition eresolve (bodies : list ety) (t : ety) : option xty :=
  match ebuild [] bodies with Some d => eunfold d t | None => None end.

(* ---- Part 3: histories over these expected types (the instance of the generic model of DescribeHist.v) ---- *)
Section NestedHist.
  Variable rx : str -> str -> bool.
  Variable teq : ty -> ty -> bool.
  Definition xworld := world xty ty nvalue.
  Definition xrun := hrun xty ty nvalue (xasg rx) (fun e v => xinst rx e (fst v)) (xdescribe_mismatch rx teq) snd.
  Definition xalone := alone xty ty nvalue (xasg rx) (fun e v => xinst rx e (fst v)) (xdescribe_mismatch rx teq) snd.
End NestedHist.
