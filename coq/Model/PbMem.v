(* PbMem.v — the stack of protoConsumer (proto/convert.go:18-82) and of BasicCollector
   (types/basiccollector.go:7-50) as Go SLICES over backing arrays, not as mathematical lists.

   Model/Pb.v treats `pc.stack` as a list: there, nothing can go wrong when the stack grows.  In Go the stack is a
   slice header (array, len, cap) over a backing array that `append` abandons for a larger one when len = cap
   (NewProtoConsumer: make([][]*datapb.Data, 1, 8), i.e. from the 8th nested container on).  A header or an
   element pointer taken before that `append` keeps naming the OLD array.  Whether the code is right across
   such a move is exactly what the list model cannot say; this file makes it sayable:

     heap     every backing array ever allocated for the stack, by allocation number (never freed, so a retained
              pointer into an abandoned array still reads what was there)
     gslice   array number, len, cap (offset 0: the code only reslices [0:top])
     sl_*     index / store / append (runtime.growslice when len = cap, any growth policy) / reslice,
              with Go's bounds checks as `Fault`

   The frames themselves (`[]*datapb.Data`, `[]px.Value`) stay lists: every append to a frame is stored back into
   its cell in the same statement (convert.go:81 `pc.stack[top] = append(pc.stack[top], value)`,
   basiccollector.go:55), no header of a frame is kept across a call.

   `pcm_ev` is the code as it is (re-indexes `pc.stack[top]` after the doer, convert.go:43,52).  With
   `retained = true` it is NOT the code but the rewrite `frame := &pc.stack[top]; doer(); els := *frame`
   (seeded change C11-m2), kept as the witness that this model tells the two apart (PbMemProofs:
   pcm_retained_pointer_refuted). *)
From Coq Require Import ZArith NArith Bool List Arith.
From PcoreV Require Import Model.Base Model.Json Model.Pb.
Import ListNotations.
Open Scope nat_scope.

Section Slices.
  Context {A : Type}.                       (* a frame *)
  Variable dflt : A.                        (* the zero value of a cell (a nil slice) *)

  Record gslice := mkSl { sl_arr : nat; sl_len : nat; sl_cap : nat }.
  Definition heap := list (list A).
  Record mem := mkMem { m_heap : heap; m_sl : gslice }.

  Definition cell (h : heap) (a i : nat) : A := nth i (nth a h []) dflt.
  Definition set_cell (h : heap) (a i : nat) (x : A) : heap := set_nth a (set_nth i x (nth a h [])) h.

  (* s[i] *)
  Definition sl_index (m : mem) (i : nat) : res A :=
    if i <? sl_len (m_sl m) then Ok (cell (m_heap m) (sl_arr (m_sl m)) i) else Fault.

  (* s[i] = x *)
  Definition sl_store (m : mem) (i : nat) (x : A) : res mem :=
    if i <? sl_len (m_sl m) then Ok (mkMem (set_cell (m_heap m) (sl_arr (m_sl m)) i x) (m_sl m)) else Fault.

  (* s = append(s, x): in place while len < cap, else runtime.growslice: a new array of max(len+1, grow cap) cells,
     the first len cells copied, the old array left as it is *)
  Variable grow : nat -> nat.
  Definition sl_append (m : mem) (x : A) : mem :=
    let s := m_sl m in
    if sl_len s <? sl_cap s
    then mkMem (set_cell (m_heap m) (sl_arr s) (sl_len s) x) (mkSl (sl_arr s) (S (sl_len s)) (sl_cap s))
    else
      let newcap := Nat.max (S (sl_len s)) (grow (sl_cap s)) in
      let cells := firstn (sl_len s) (nth (sl_arr s) (m_heap m) []) ++ x :: repeat dflt (newcap - S (sl_len s)) in
      mkMem (m_heap m ++ [cells]) (mkSl (length (m_heap m)) (S (sl_len s)) newcap).

  (* s = s[0:top]  (top may exceed len but not cap) *)
  Definition sl_reslice (m : mem) (top : nat) : res mem :=
    if top <=? sl_cap (m_sl m) then Ok (mkMem (m_heap m) (mkSl (sl_arr (m_sl m)) top (sl_cap (m_sl m)))) else Fault.

  (* make([]A, 1, cap0) with cell 0 = x *)
  Definition sl_make1 (cap0 : nat) (x : A) : mem :=
    mkMem [x :: repeat dflt (cap0 - 1)] (mkSl 0 1 (Nat.max 1 cap0)).

  (* what the slice holds, bottom frame first *)
  Definition sl_contents (m : mem) : list A := firstn (sl_len (m_sl m)) (nth (sl_arr (m_sl m)) (m_heap m) []).
End Slices.

Arguments gslice : clear implicits.
Arguments mem : clear implicits.
Arguments heap : clear implicits.

(* ---------------------------------------------------------------------------------------------- *)
(* proto/convert.go:18 protoConsumer over that memory *)

Notation pframe := (list pb) (only parsing).
Notation pcm := (mem (list pb)) (only parsing).

(* :79 add: top := len(pc.stack) - 1; pc.stack[top] = append(pc.stack[top], value)   (len 0: index -1) *)
Definition pcm_add (d : pb) (m : pcm) : res pcm :=
  match sl_len (m_sl m) with
  | O => Fault
  | S top => let* f := sl_index [] m top in sl_store m top (f ++ [d])
  end.

Section Consumer.
  Variable grow : nat -> nat.
  Variable retained : bool.   (* false: the code.  true: `frame := &pc.stack[top]` kept across doer() *)

  Definition pcm_seq (f : pcm -> ev -> res pcm) :=
    fix go (m : pcm) (l : list ev) {struct l} : res pcm :=
      match l with
      | [] => Ok m
      | x :: l' => let* m1 := f m x in go m1 l'
      end.

  (* els := pc.stack[top] after the doer (:43, :52) — resp. *frame, the cell `top` of the array the stack had
     right after the push, read in the heap as it is now *)
  Definition read_frame (m1 m2 : pcm) (top : nat) : res pframe :=
    if retained then Ok (cell [] (m_heap m2) (sl_arr (m_sl m1)) top) else sl_index [] m2 top.

  Fixpoint pcm_ev (m : pcm) (e : ev) {struct e} : res pcm :=
    match e with
    | EAdd s => pcm_add (scalar_pb s) m                                  (* :63 *)
    | ERef n => pcm_add (PbRef n) m                                      (* :67 *)
    | EArr l =>                                                          (* :39 AddArray *)
        let top := sl_len (m_sl m) in                                    (* top := len(pc.stack) *)
        let m1 := sl_append [] grow m [] in                              (* pc.stack = append(pc.stack, make(..., 0, cap)) *)
        let* m2 := pcm_seq pcm_ev m1 l in                                (* doer() *)
        let* els := read_frame m1 m2 top in                              (* els := pc.stack[top] *)
        let* m3 := sl_reslice m2 top in                                  (* pc.stack = pc.stack[0:top] *)
        pcm_add (PbArr els) m3
    | EHash l =>                                                         (* :48 AddHash *)
        let top := sl_len (m_sl m) in
        let m1 := sl_append [] grow m [] in
        let* m2 := pcm_seq pcm_ev m1 l in
        let* els := read_frame m1 m2 top in
        let* m3 := sl_reslice m2 top in
        let* ps := pair_up els in                                        (* :55-59 *)
        pcm_add (PbHash ps) m3
    end.
End Consumer.

(* :71 Value(): bs := pc.stack[0]; first element or nil *)
Definition pcm_value (m : pcm) : res pb :=
  let* bs := sl_index [] m 0 in
  match bs with d :: _ => Ok d | [] => Ok PbNil end.

(* :22 NewProtoConsumer: make([][]*datapb.Data, 1, cap0) (cap0 = 8), one top-level call, Value() *)
Definition pcm_run (grow : nat -> nat) (cap0 : nat) (retained : bool) (e : ev) : res pb :=
  let* m := pcm_ev grow retained (sl_make1 [] cap0 []) e in pcm_value m.

(* what the Go runtime does for these sizes: the capacity doubles (runtime.growslice below its threshold) *)
Definition go_grow (c : nat) : nat := 2 * c.
Definition pc_run_mem (e : ev) : res pb := pcm_run go_grow 8 false e.

(* n nested arrays around e *)
Fixpoint nest (n : nat) (e : ev) : ev :=
  match n with O => e | S n' => EArr [nest n' e] end.
