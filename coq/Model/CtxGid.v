(* CtxGid.v — model of the goroutine id of threadlocal/gid.go (property C14).

   threadlocal/gid.go:14 getg():
       const prefixLen = 10                       // "goroutine "
       var buf [64]byte
       l := runtime.Stack(buf[:64], false)        // "goroutine <id> [<status>]:\n<frames>", cut to len(buf)
       n := int64(0)
       for i := prefixLen; i < l; i++ {
           d := buf[i]; if d < 0x30 || d > 0x39 { break }
           n = n*10 + int64(d-0x30)
       }
       if n == 0 { panic(...) }
       return n
   The value is the key of the goroutine-local table (`tls[gid]`): Model/Ctx.v indexes `tls` by an injective
   goroutine id; this file models how that id is READ, so that "injective" is a theorem about getg (given that
   the Go runtime gives every goroutine its own goid and prints it in decimal) and not an assumption.
   Definitions only. *)
From Coq Require Import ZArith NArith Bool List.
From PcoreV Require Import Model.Base.
Import ListNotations.

(* ---- what the Go runtime writes: runtime.Stack / traceback.go goroutineheader ------------------------------- *)

(* decimal rendering of the goid (runtime print of a uint64), most significant digit first *)
Fixpoint digits_aux (fuel : nat) (n : N) (acc : list N) : list N :=
  match fuel with
  | O => acc
  | S f =>
    let acc' := (48 + n mod 10)%N :: acc in
    if (n / 10 =? 0)%N then acc' else digits_aux f (n / 10)%N acc'
  end.
Definition digits (n : N) : list N := digits_aux (S (N.to_nat (N.log2 n))) n [].

Definition goroutine_prefix : list N := [103; 111; 114; 111; 117; 116; 105; 110; 101; 32]%N.   (* "goroutine " *)

(* the text runtime.Stack produces for goroutine `id`: "goroutine " id " " tail, tail = "[running]:\n" + frames *)
Definition stack_text (id : N) (tail : list N) : list N := goroutine_prefix ++ digits id ++ 32%N :: tail.

(* runtime.Stack(buf, false): the text cut to len(buf); the returned l is the length of the result *)
Definition runtime_stack (buflen : nat) (text : list N) : list N := firstn buflen text.

(* ---- threadlocal/gid.go:14 ---------------------------------------------------------------------------------- *)

Definition prefix_len : nat := 10.     (* gid.go:15 *)
Definition buf_len : nat := 64.        (* gid.go:16 var buf [64]byte *)

(* gid.go:20-26 the loop from index i to l; n is an int64 (wrapping arithmetic) *)
Fixpoint parse_id (bs : list N) (n : Z) : Z :=
  match bs with
  | [] => n                                                        (* i == l *)
  | d :: bs' =>
    if (d <? 48)%N || (57 <? d)%N then n                           (* :22 break *)
    else parse_id bs' (wrap64 (n * 10 + Z.of_N (d - 48)))          (* :25 *)
  end.

(* getg with a buffer of buflen bytes on the text the runtime has for the calling goroutine; None = the panic of :28 *)
Definition getg_of (buflen : nat) (text : list N) : option Z :=
  let buf := runtime_stack buflen text in
  let n := parse_id (skipn prefix_len buf) 0%Z in
  if (n =? 0)%Z then None else Some n.

Definition getg (id : N) (tail : list N) : option Z := getg_of buf_len (stack_text id tail).

(* the largest goid for which the statements are made: goids are handed out one by one from 1 (runtime/proc.go
   newproc1: sched.goidgen), int64 in getg *)
Definition max_goid : N := 9223372036854775807%N.
