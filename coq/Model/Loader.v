(* Loader.v — executable model of the loaders of lyraproj/pcore, as the code is NOW (after the fixes
   e8cb2ca, 305662b, 3bc6110, 8923fe0, e06ca50, 93f19c3, 6364f0d):
     loader/loader.go       basicLoader, parentedLoader, typeSetLoader, load()
     loader/dependency.go   dependencyLoader without module loaders (px.NewDependencyLoader(nil))
     types/typedname.go     newTypedName2, MapKey, Parts, IsParent, RelativeTo, child, typedNameFromMapKey
     types/typeset.go       typeSet.GetType / GetType2 for type sets without references
     internal/context.go    Fork (= NewParentedLoader over the context's loader), px.AddTypes (= SetEntry)
   One Gallina function per Go method, same order of tests, Go file:line in the comment.
   Definitions only.  Self-contained (imports Base only) so that other models may import it.

   A loader tree is a list of nodes in creation order; a node refers to its parent by index (always
   smaller than its own).  A node owns `namedEntries` as an association list from map key to entry
   value, where `None` is the cached miss (`&loaderEntry{nil, nil}`, loader.go:20).  Go's map iteration
   order is not modelled: the only iteration (Discover) sorts its result.
   Entries are never shared between two maps in the modelled code paths (every SetEntry argument is a
   fresh `&loaderEntry{}`) and since 6364f0d an entry is never written to after it was stored.

   Not modelled (the domain `tn_wf` of the theorems excludes it, the harness never generates it): the
   InvalidCharactersInName panic of TypedName.Parts for a name segment outside [A-Za-z][0-9A-Za-z_]*;
   non-ASCII case folding of strings.ToLower; type-set references. *)
From Coq Require Import NArith Bool List.
From PcoreV Require Import Model.Base.
Import ListNotations.

(* ---------------------------------------------------------------------------------------------- *)
(* Values bound to names.  What SetEntry can observe of a value: its identity, whether it implements
   px.Equality (and then its equivalence class under Equals), whether it is a px.Type. *)
Record val := mkV { vid : N; vcls : option N; vty : bool }.

(* Go: `ov == nv` on interface values holding pointers — identity (loader.go:150) *)
Definition val_same (o n : val) : bool := N.eqb (vid o) (vid n).
(* Go: `ea, ok := ov.(px.Equality); ok && ea.Equals(nv, nil)` (loader.go:153) *)
Definition val_equals (o n : val) : bool :=
  match vcls o, vcls n with Some a, Some b => N.eqb a b | _, _ => false end.
Definition val_eqb (a b : val) : bool :=
  N.eqb (vid a) (vid b) && option_eqb N.eqb (vcls a) (vcls b) && Bool.eqb (vty a) (vty b).

(* ---------------------------------------------------------------------------------------------- *)
(* Typed names (types/typedname.go) *)
Definition c_slash : N := 47%N.
Definition c_colon : N := 58%N.

(* strings.ToLower restricted to ASCII *)
Definition lower_byte (c : N) : N := if (N.leb 65 c && N.leb c 90)%bool then (c + 32)%N else c.
Definition to_lower (s : str) : str := map lower_byte s.

Record tname := mkTn { tn_auth : str; tn_ns : str; tn_name : str }.

(* strings.TrimPrefix(name, "::") *)
Definition trim_cc (s : str) : str :=
  match s with
  | c :: d :: s' => if (N.eqb c c_colon && N.eqb d c_colon)%bool then s' else s
  | _ => s
  end.

(* typedname.go:117 newTypedName2 *)
Definition new_typed_name (ns name auth : str) : tname := mkTn auth ns (trim_cc name).
(* the harness hands (authority, namespace, raw name) to px.NewTypedName2 *)
Definition norm (n : tname) : tname := new_typed_name (tn_ns n) (tn_name n) (tn_auth n).

(* typedname.go:232 MapKey (computed by newTypedName2 :123 since the canonical form is shared): strings.ToLower(authority + "/" + namespace + "/" + name) *)
Definition map_key (n : tname) : str :=
  to_lower (tn_auth n ++ c_slash :: tn_ns n ++ c_slash :: tn_name n).

(* strings.Split(s, "::") *)
Fixpoint split_cc_aux (s cur : str) : list str :=
  match s with
  | [] => [rev cur]
  | c :: s1 =>
    match s1 with
    | d :: s2 => if (N.eqb c c_colon && N.eqb d c_colon)%bool then rev cur :: split_cc_aux s2 []
                 else split_cc_aux s1 (c :: cur)
    | [] => [rev (c :: cur)]
    end
  end.
Definition split_cc (s : str) : list str := split_cc_aux s [].

(* typedname.go:239 Parts (without the character check, see header) *)
Definition parts (n : tname) : list str := split_cc (to_lower (tn_name n)).

(* typedname.go:225 IsQualified: strings.Contains(name, "::") resp. len(parts) > 1 *)
Definition is_qualified (n : tname) : bool := Nat.ltb 1 (length (parts n)).

(* typedname.go:203 IsParent: t's parts are a strict prefix of o's (namespace and authority are not compared) *)
Fixpoint prefix_eqb (a b : list str) : bool :=
  match a, b with
  | [], _ => true
  | x :: a', y :: b' => str_eqb x y && prefix_eqb a' b'
  | _ :: _, [] => false
  end.
Definition is_parent (t o : tname) : bool :=
  Nat.ltb (length (parts t)) (length (parts o)) && prefix_eqb (parts t) (parts o).

(* typedname.go:145 child(stripCount): `sx = strings.Index(name, "::")`, `name = name[sx+2:]`, stripCount times *)
Fixpoint drop_seg (s : str) : option str :=
  match s with
  | [] => None
  | c :: s1 =>
    match s1 with
    | d :: s2 => if (N.eqb c c_colon && N.eqb d c_colon)%bool then Some s2 else drop_seg s1
    | [] => None
    end
  end.
Fixpoint child_name (k : nat) (s : str) : option str :=
  match k with
  | O => Some s
  | S k' => match drop_seg s with Some s' => child_name k' s' | None => None end
  end.

(* typedname.go:218 RelativeTo.  `child` answers nil when the name has too few "::" — impossible after
   IsParent (the name has more parts than the parent); that case is merged into "not relative" here. *)
Definition relative_to (n parent : tname) : option tname :=
  if is_parent parent n then
    match child_name (length (parts parent)) (tn_name n) with
    | Some s => Some (mkTn (tn_auth n) (tn_ns n) s)
    | None => None
    end
  else None.

(* split at the last '/' : strings.LastIndexByte *)
Fixpoint split_last_slash (s : str) : option (str * str) :=
  match s with
  | [] => None
  | c :: s' =>
    match split_last_slash s' with
    | Some (a, b) => Some (c :: a, b)
    | None => if N.eqb c c_slash then Some ([], s') else None
    end
  end.

(* typedname.go:127 typedNameFromMapKey; None = panic InvalidTypedNameMapKey *)
Definition tn_of_key (k : str) : option tname :=
  match split_last_slash k with
  | Some (pfx, name) =>
    match pfx with
    | [] => None                                     (* i > 0 *)
    | _ =>
      match split_last_slash pfx with
      | Some (auth, ns) =>
        match auth with
        | [] => None                                 (* i > 0 *)
        | _ => Some (new_typed_name ns name auth)
        end
      | None => None
      end
    end
  | None => None
  end.

(* ---------------------------------------------------------------------------------------------- *)
(* Type sets (types/typeset.go), without references *)
Record tset := mkTs { ts_auth : str; ts_name : str; ts_types : list (str * val) }.

Definition ns_type : str := [116; 121; 112; 101]%N.   (* px.NsType = "type" *)

(* typeset.go:422 t.typedName = NewTypedName2(NsType, t.name, t.nameAuthority) *)
Definition ts_typed_name (ts : tset) : tname := new_typed_name ns_type (ts_name ts) (ts_auth ts).

Fixpoint assoc {V : Type} (k : str) (l : list (str * V)) : option V :=
  match l with
  | [] => None
  | (k', v) :: l' => if str_eqb k' k then Some v else assoc k l'
  end.

(* typeset.go:250 dcToCcMap[strings.ToLower(key)] = key  (a later key overwrites) *)
Definition dc_to_cc (ts : tset) (name : str) : option str :=
  fold_left (fun acc kv => if str_eqb (to_lower (fst kv)) name then Some (fst kv) else acc) (ts_types ts) None.

(* typeset.go:364 GetType2: types.Get6(name, func { types.Get5(dcToCcMap[name], nil) }) *)
Definition ts_get_type2 (ts : tset) (name : str) : option val :=
  match assoc name (ts_types ts) with
  | Some v => Some v
  | None => match dc_to_cc ts name with Some cc => assoc cc (ts_types ts) | None => None end
  end.

(* typeset.go:328 GetType (len(t.references) == 0) *)
Definition ts_get_type (ts : tset) (n : tname) : option val :=
  if negb (str_eqb (tn_ns n) ns_type && str_eqb (tn_auth n) (ts_auth ts)) then None
  else match parts n with
       | [first] => ts_get_type2 ts first
       | _ => None
       end.

(* ---------------------------------------------------------------------------------------------- *)
(* Loader tree *)
Inductive lkind :=
| KBasic                                  (* basicLoader: the static loader *)
| KDep                                    (* dependencyLoader with no module loaders *)
| KParented (p : nat)                     (* parentedLoader: px.NewParentedLoader, Context.Fork *)
| KTypeSet (p : nat) (ts : tset).         (* typeSetLoader *)

Definition ents := list (str * option val).
Record lnode := mkNode { nkind : lkind; nents : ents }.
Definition lstate := list lnode.

Record config := mkCfg { cfg_auth : str;                       (* px.RuntimeNameAuthority *)
                         cfg_static : list (str * val);        (* content of loader.StaticLoader *)
                         cfg_tsets : list tset }.

Definition init_state (cfg : config) : lstate :=
  [mkNode KBasic (map (fun kv => (fst kv, Some (snd kv))) (cfg_static cfg))].

Fixpoint set_ents (st : lstate) (l : nat) (es : ents) : lstate :=
  match st, l with
  | [], _ => []
  | nd :: st', O => mkNode (nkind nd) es :: st'
  | nd :: st', S l' => nd :: set_ents st' l' es
  end.

Definition own_ents (st : lstate) (l : nat) : ents :=
  match nth_error st l with Some nd => nents nd | None => [] end.

(* `m[k] = e` on a Go map: afterwards the map has exactly one entry for k, with value e.  A Go map has no order; the association list keeps one pair
   per key and the position of a pair carries no meaning (the pair for k is moved to the end). *)
Fixpoint ents_remove (es : ents) (k : str) : ents :=
  match es with
  | [] => []
  | (k', e') :: es' => if str_eqb k' k then ents_remove es' k else (k', e') :: ents_remove es' k
  end.
Definition ents_put (es : ents) (k : str) (e : option val) : ents := ents_remove es k ++ [(k, e)].

Inductive ecode := ERedefine | ERedefineType | EOther.

(* result of SetEntry: the returned entry's value / a panic with a reported error / ill-formed tree *)
Inductive sres := SOk (e : option val) | SErr (c : ecode) | SStuck.

(* loader.go:120 basicLoader.GetEntry: None = no entry, Some None = cached miss *)
Definition b_get (es : ents) (n : tname) : option (option val) := assoc (map_key n) es.

(* loader.go:127 basicLoader.HasEntry: found && e.Value() != nil *)
Definition b_has (es : ents) (n : tname) : bool :=
  match assoc (map_key n) es with Some (Some _) => true | _ => false end.

(* loader.go:134 basicLoader.SetEntry (after e06ca50, 6364f0d) *)
Definition b_set (es : ents) (n : tname) (e : option val) : ents * sres :=
  match assoc (map_key n) es with
  | Some old =>
    match e with
    | None => (es, SOk old)                                                 (* :139 a cached miss never replaces, nor conflicts with, what is there *)
    | Some nv =>
      match old with
      | None => (ents_put es (map_key n) e, SOk e)                          (* :144 the entry without value is replaced *)
      | Some ov =>
        if val_same ov nv then (es, SOk (Some ov))                          (* :150 ov == nv *)
        else if val_equals ov nv then (es, SOk (Some ov))                   (* :153 Equality *)
        else if (vty ov && vty nv)%bool then (es, SErr ERedefineType)       (* :157-163 *)
        else (es, SErr ERedefine)                                           (* :166 *)
      end
    end
  | None => (ents_put es (map_key n) e, SOk e)                              (* :168 *)
  end.

(* result of LoadEntry: the entry (None = nil) / a panic / ill-formed tree or out of fuel *)
Inductive lres := LEnt (e : option (option val)) | LPanic (c : ecode) | LStuck.

(* loader.go:198 parentedLoader.LoadEntry, given the outcome of l.parent.LoadEntry *)
Definition parented_after (pr : lstate * lres) (l : nat) (n : tname) : lstate * lres :=
  let '(st1, r) := pr in
  match r with
  | LEnt None | LEnt (Some None) => (st1, LEnt (b_get (own_ents st1 l) n))  (* :200 entry == nil || entry.Value() == nil *)
  | _ => (st1, r)
  end.

Fixpoint load_entry (fuel : nat) (st : lstate) (l : nat) (n : tname) : lstate * lres :=
  match fuel with
  | O => (st, LStuck)
  | S f =>
    match nth_error st l with
    | None => (st, LStuck)
    | Some nd =>
      match nkind nd with
      | KBasic => (st, LEnt (b_get (nents nd) n))                           (* loader.go:116 *)
      | KDep =>                                                             (* dependency.go:30 *)
        match b_get (nents nd) n with
        | Some e => (st, LEnt (Some e))
        | None =>
          (* find: no index, no loaders, basicLoader.LoadEntry again: nil.  Since 8923fe0 the miss is
             not cached: `return &loaderEntry{nil, nil}` *)
          (st, LEnt (Some None))
        end
      | KParented p => parented_after (load_entry f st p n) l n             (* loader.go:198 *)
      | KTypeSet p ts =>                                                    (* loader.go:247 *)
        match ts_get_type ts n with
        | Some tp => (st, LEnt (Some (Some tp)))                            (* :248 a fresh entry holding the type *)
        | None =>
          let '(st1, r) := parented_after (load_entry f st p n) l n in      (* :251 *)
          match r with
          | LEnt None =>
            match relative_to n (ts_typed_name ts) with
            | Some child => load_entry f st1 l child                        (* :254 *)
            | None =>
              let '(es', r') := b_set (own_ents st1 l) n None in            (* :257 l.parentedLoader.SetEntry *)
              (set_ents st1 l es', match r' with SOk _ => LEnt (Some None) | SErr c => LPanic c | SStuck => LStuck end)
            end
          | _ => (st1, r)
          end
        end
      end
    end
  end.

(* HasEntry; None = ill-formed tree or out of fuel *)
Fixpoint has_entry (fuel : nat) (st : lstate) (l : nat) (n : tname) : option bool :=
  match fuel with
  | O => None
  | S f =>
    match nth_error st l with
    | None => None
    | Some nd =>
      match nkind nd with
      | KBasic | KDep => Some (b_has (nents nd) n)                          (* loader.go:127 *)
      | KParented p =>                                                      (* loader.go:194 *)
        match has_entry f st p n with
        | Some true => Some true
        | Some false => Some (b_has (nents nd) n)
        | None => None
        end
      | KTypeSet p ts =>                                                    (* loader.go:234 *)
        match ts_get_type ts n with
        | Some _ => Some true
        | None =>
          match has_entry f st p n with                                     (* :238 parentedLoader.HasEntry *)
          | None => None
          | Some true => Some true
          | Some false =>
            if b_has (nents nd) n then Some true
            else match relative_to n (ts_typed_name ts) with
                 | Some child => has_entry f st l child                     (* :242 *)
                 | None => Some false
                 end
          end
        end
      end
    end
  end.

(* enough fuel for every call chain: each call either moves to the parent (smaller index) or to a
   relative name (shorter text) *)
Definition fuel_of (l : nat) (n : tname) : nat := S (l + length (tn_name n)).
Definition has_entry_top (st : lstate) (l : nat) (n : tname) : option bool := has_entry (fuel_of l n) st l n.

(* SetEntry *)
Fixpoint set_entry (fuel : nat) (st : lstate) (l : nat) (n : tname) (e : option val) : lstate * sres :=
  match fuel with
  | O => (st, SStuck)
  | S f =>
    match nth_error st l with
    | None => (st, SStuck)
    | Some nd =>
      match nkind nd with
      | KTypeSet p _ => set_entry f st p n e                                (* loader.go:263 l.parent.(DefiningLoader).SetEntry *)
      | _ => let '(es', r) := b_set (nents nd) n e in (set_ents st l es', r) (* loader.go:134 *)
      end
    end
  end.

(* sort.Slice(found, MapKey <) on the projected keys *)
Fixpoint ins_key (k : str) (l : list str) : list str :=
  match l with
  | [] => [k]
  | x :: l' => if str_ltb x k then x :: ins_key k l' else k :: l
  end.
Definition sort_keys (l : list str) : list str := fold_right ins_key [] l.

Inductive dres := DNames (ks : list str) | DPanic (c : ecode) | DStuck.

(* the body of `for _, k := range l.boundKeys()` of Discover (loader.go:92, :179; boundKeys :104): the keys appended *)
Fixpoint disc_own (hasp : tname -> option bool) (P : tname -> bool) (es : ents) : dres :=
  match es with
  | [] => DNames []
  | (k, e) :: es' =>
    match e with
    | None => disc_own hasp P es'                                           (* :108 boundKeys: a cached miss is not a binding *)
    | Some _ =>
      match tn_of_key k with
      | None => DPanic EOther                                               (* InvalidTypedNameMapKey *)
      | Some tn =>
        match hasp tn with                                                  (* :181 !l.parent.HasEntry(tn) *)
        | None => DStuck
        | Some true => disc_own hasp P es'
        | Some false =>
          if P tn then
            match disc_own hasp P es' with DNames ks => DNames (map_key tn :: ks) | other => other end
          else disc_own hasp P es'
        end
      end
    end
  end.

(* loader.go:176 parentedLoader.Discover, given the outcome of l.parent.Discover *)
Definition disc_parented (pf : dres) (st : lstate) (p : nat) (es : ents) (P : tname -> bool) : dres :=
  match pf with
  | DNames found =>
    match disc_own (has_entry_top st p) P es with
    | DNames [] => DNames found                                             (* !added: not sorted again *)
    | DNames add => DNames (sort_keys (found ++ add))                       (* :189 *)
    | other => other
    end
  | other => other
  end.

Definition mem_key (k : str) (l : list str) : bool := existsb (str_eqb k) l.

Fixpoint discover (fuel : nat) (st : lstate) (l : nat) (P : tname -> bool) : dres :=
  match fuel with
  | O => DStuck
  | S f =>
    match nth_error st l with
    | None => DStuck
    | Some nd =>
      match nkind nd with
      | KBasic | KDep =>                                                    (* loader.go:90 *)
        match disc_own (fun _ => Some false) P (nents nd) with
        | DNames ks => DNames (sort_keys ks)
        | other => other
        end
      | KParented p => disc_parented (discover f st p P) st p (nents nd) P  (* loader.go:176 *)
      | KTypeSet p ts =>                                                    (* loader.go:215 *)
        let tns := map (fun kv => new_typed_name ns_type (fst kv) (ts_auth ts)) (ts_types ts) in   (* :221 *)
        let inset := map map_key tns in
        let found := map map_key (filter P tns) in
        let P' := fun tn => negb (mem_key (map_key tn) inset) && P tn in    (* :228 *)
        match disc_parented (discover f st p P') st p (nents nd) P' with
        | DNames pf => DNames (sort_keys (found ++ pf))                     (* :229-230 *)
        | other => other
        end
      end
    end
  end.

(* ---------------------------------------------------------------------------------------------- *)
(* Operations and observable results (the harness prints exactly these terms) *)
Inductive pred := PAll | PNs (s : str) | PNameLower (s : str) | PQualified.

Definition pred_eval (p : pred) (n : tname) : bool :=
  match p with
  | PAll => true
  | PNs s => str_eqb (tn_ns n) s                          (* string(tn.Namespace()) == s *)
  | PNameLower s => str_eqb (to_lower (tn_name n)) s      (* strings.ToLower(tn.Name()) == s *)
  | PQualified => is_qualified n                          (* tn.IsQualified() *)
  end.

Inductive op :=
| ONewDep                                  (* px.NewDependencyLoader(nil) *)
| ONewParented (l : nat)                   (* px.NewParentedLoader(l) *)
| OFork (l : nat)                          (* Context.Fork with loader l: internal/context.go:106 *)
| ONewTypeSet (l t : nat)                  (* px.NewTypeSetLoader(l, tsets[t]) *)
| ODefine (l : nat) (n : tname) (v : val)  (* l.SetEntry(n, NewLoaderEntry(v, nil)); px.AddTypes *)
| OLoad (l : nat) (n : tname)              (* px.Load with l as the context's loader *)
| OLoadEntry (l : nat) (n : tname)
| OGetEntry (l : nat) (n : tname)
| OHas (l : nat) (n : tname)
| ODiscover (l : nat) (p : pred).

Inductive eobs := ENone | EPlaceholder | EVal (v : val).

Inductive out :=
| RNew (l : nat)
| RBadLoader
| RDefined (v : val)
| RFound (v : option val)
| REntry (e : eobs)
| RBool (b : bool)
| RNames (ks : list str)
| RErr (c : ecode)        (* a panic carrying an issue.Reported with this code *)
| RFault                  (* a Go runtime error *)
| RStuck.                 (* out of fuel / ill-formed tree: excluded by the theorems *)

Definition eobs_of (e : option (option val)) : eobs :=
  match e with None => ENone | Some None => EPlaceholder | Some (Some v) => EVal v end.

Definition add_node (st : lstate) (k : lkind) : lstate * out := (st ++ [mkNode k []], RNew (length st)).

Definition step (cfg : config) (st : lstate) (o : op) : lstate * out :=
  match o with
  | ONewDep => add_node st KDep
  | ONewParented l | OFork l =>
    if Nat.ltb l (length st) then add_node st (KParented l) else (st, RBadLoader)
  | ONewTypeSet l t =>
    if Nat.ltb l (length st) then
      match nth_error (cfg_tsets cfg) t with
      | Some ts => add_node st (KTypeSet l ts)
      | None => (st, RBadLoader)
      end
    else (st, RBadLoader)
  | ODefine l n0 v =>
    if Nat.ltb l (length st) then
      let n := norm n0 in
      let '(st', r) := set_entry (S l) st l n (Some v) in
      (st', match r with
            | SOk (Some v') => RDefined v'
            | SOk None => RFault
            | SErr c => RErr c
            | SStuck => RStuck
            end)
    else (st, RBadLoader)
  | OLoad l n0 =>                                                           (* loader.go:71 load() *)
    if Nat.ltb l (length st) then
      let n := norm n0 in
      if negb (str_eqb (tn_auth n) (cfg_auth cfg)) then (st, RFound None)   (* :73 every NameAuthority() is the runtime one *)
      else
        let '(st1, r) := load_entry (fuel_of l n) st l n in                 (* :76 *)
        match r with
        | LEnt None =>                                                      (* :77 every modelled loader is a DefiningLoader *)
          let '(st2, r') := set_entry (S l) st1 l n None in                 (* :80 *)
          (st2, match r' with SOk _ => RFound None | SErr c => RErr c | SStuck => RStuck end)
        | LEnt (Some None) => (st1, RFound None)                            (* :84 *)
        | LEnt (Some (Some v)) => (st1, RFound (Some v))                    (* :87 *)
        | LPanic c => (st1, RErr c)
        | LStuck => (st1, RStuck)
        end
    else (st, RBadLoader)
  | OLoadEntry l n0 =>
    if Nat.ltb l (length st) then
      let n := norm n0 in
      let '(st1, r) := load_entry (fuel_of l n) st l n in
      (st1, match r with LEnt e => REntry (eobs_of e) | LPanic c => RErr c | LStuck => RStuck end)
    else (st, RBadLoader)
  | OGetEntry l n0 =>                                                       (* loader.go:120, not overridden by any modelled loader *)
    if Nat.ltb l (length st) then (st, REntry (eobs_of (b_get (own_ents st l) (norm n0))))
    else (st, RBadLoader)
  | OHas l n0 =>
    if Nat.ltb l (length st) then
      (st, match has_entry_top st l (norm n0) with Some b => RBool b | None => RStuck end)
    else (st, RBadLoader)
  | ODiscover l p =>
    if Nat.ltb l (length st) then
      (st, match discover (S l) st l (pred_eval p) with
           | DNames ks => RNames ks
           | DPanic c => RErr c
           | DStuck => RStuck
           end)
    else (st, RBadLoader)
  end.

Fixpoint run_from (cfg : config) (st : lstate) (ops : list op) : lstate * list out :=
  match ops with
  | [] => (st, [])
  | o :: ops' =>
    let '(st1, r) := step cfg st o in
    let '(st2, rs) := run_from cfg st1 ops' in
    (st2, r :: rs)
  end.

Definition run (cfg : config) (ops : list op) : lstate * list out := run_from cfg (init_state cfg) ops.
Definition outs (cfg : config) (ops : list op) : list out := snd (run cfg ops).

(* ---------------------------------------------------------------------------------------------- *)
(* Decidable equality of results (for the correspondence check) *)
Definition ecode_eqb (a b : ecode) : bool :=
  match a, b with
  | ERedefine, ERedefine | ERedefineType, ERedefineType | EOther, EOther => true
  | _, _ => false
  end.
Definition eobs_eqb (a b : eobs) : bool :=
  match a, b with
  | ENone, ENone | EPlaceholder, EPlaceholder => true
  | EVal x, EVal y => val_eqb x y
  | _, _ => false
  end.
Definition out_eqb (a b : out) : bool :=
  match a, b with
  | RNew x, RNew y => Nat.eqb x y
  | RBadLoader, RBadLoader => true
  | RDefined x, RDefined y => val_eqb x y
  | RFound x, RFound y => option_eqb val_eqb x y
  | REntry x, REntry y => eobs_eqb x y
  | RBool x, RBool y => Bool.eqb x y
  | RNames x, RNames y => str_eqb_list x y
  | RErr x, RErr y => ecode_eqb x y
  | RFault, RFault => true
  | RStuck, RStuck => true
  | _, _ => false
  end.

(* ---------------------------------------------------------------------------------------------- *)
(* The domain of the theorems: well-formed typed names.  Go itself rejects (panics on) names with
   other segments as soon as Parts() is needed. *)
Definition is_alpha (c : N) : bool := (N.leb 65 c && N.leb c 90) || (N.leb 97 c && N.leb c 122).
Definition is_word (c : N) : bool := is_alpha c || (N.leb 48 c && N.leb c 57) || N.eqb c 95.
(* typedname.go:115 allowedCharacters = \A[A-Za-z][0-9A-Z_a-z]*\z *)
Definition seg_valid (s : str) : bool :=
  match s with c :: s' => is_alpha c && forallb is_word s' | [] => false end.
Definition no_slash (s : str) : bool := forallb (fun c => negb (N.eqb c c_slash)) s.
Definition starts_cc (s : str) : bool :=
  match s with c :: d :: _ => N.eqb c c_colon && N.eqb d c_colon | _ => false end.

(* a normalised typed name *)
Definition tn_wf (n : tname) : bool :=
  match tn_auth n with [] => false | _ => true end
  && no_slash (tn_ns n) && no_slash (tn_name n) && negb (starts_cc (tn_name n))
  && forallb seg_valid (parts n).

Definition op_wf (o : op) : bool :=
  match o with
  | ODefine _ n _ | OLoad _ n | OLoadEntry _ n | OGetEntry _ n | OHas _ n => tn_wf (norm n)
  | _ => true
  end.
