(* TypePrint.v — property C05, layer L3 (type parameters <-> types).
   Executable models of
     Parameters() of every type of the fragment `ty` (Model/Ty.v)            types/*type.go
     TypeToString / basicTypeToString: Name + '[' parameters ']'             types/types.go:206-252
     the printing of parameter values in the default format (ints, floats by an oracle table, strings by
     PuppetQuote, regexps by RegexpQuote, default, booleans, nested types, the Struct hash)
     Resolve / ResolveWithParams / DeferredType.Resolve                      types/resolver.go, deferredtype.go:55
     the positional creators new*Type2 of the same types                     types/*type.go
   as the code is in /repo NOW (after the fix: commits listed in design_notes/C05.md).
   A creator argument that is an Array: the alternative forms Tuple[[T...]], Tuple[[T...], Integer[min, max]],
   Enum[[v...]], Enum[[v...], flag], Pattern[[r...]], Struct[[{...}]] are modelled (create_array_forms; the parser
   accepts them, Parameters() never writes one); any other place of an Array (nested lists, Variant[[...]],
   Callable) is outside the model: CUnmodelled.
   Definitions only. *)
From Coq Require Import ZArith NArith Bool List.
From PcoreV Require Import Model.Base Model.Ty Model.QuoteLex.
Import ListNotations.
Open Scope Z_scope.

(* ------------------------------------------------------------------------------------------ *)
(* parameter values                                                                             *)

(* a px.Value as it occurs among the parameters of a type; A = what stands for a type there (the type
   itself, its printed text, or the result of resolving it) *)
Inductive gpv (A : Type) :=
| GInt (z : Z) | GFloat (k : Z)            (* k: order key of the float (Model/Ty.v) *)
| GDefault | GUndef | GBool (b : bool)
| GStr (s : str) | GRegexp (s : str)
| GArr (es : list (gpv A))
| GHash (kvs : list (gpv A * gpv A))
| GTy (a : A).
Arguments GInt {A}. Arguments GFloat {A}. Arguments GDefault {A}. Arguments GUndef {A}. Arguments GBool {A}.
Arguments GStr {A}. Arguments GRegexp {A}. Arguments GArr {A}. Arguments GHash {A}. Arguments GTy {A}.

Definition pv := gpv ty.

(* order keys of -Inf and +Inf (types.VerifFloatKey), the bounds of the unbounded Float type (floattype.go:26) *)
Definition fmax_key : Z := 9218868437227405312.
Definition fmin_key : Z := -9218868437227405312.

Definition is_unit (t : ty) : bool := match t with TUnit => true | _ => false end.
Definition is_any (t : ty) : bool := match t with TAny => true | _ => false end.
Definition is_optional (t : ty) : bool := match t with TOptional _ => true | _ => false end.

Section Params.
  Context {A : Type}.
  (* what stands for a nested type *)
  Variable sub : ty -> A.
  (* what stands for the type NotUndef[k], given what stands for k (structtype.go:345 writes such a key) *)
  Variable sub_notundef : A -> ty -> A.
  (* isAssignable(t, Undef) (structtype.go:335): decided by the lattice (C01-C03), a parameter here *)
  Variable accepts_undef : ty -> bool.

  (* integertype.go:293 SizeParameters *)
  Definition size_params (lo hi : Z) : list (gpv A) :=
    [GInt lo; if hi =? max_int64 then GDefault else GInt hi].
  (* integertype.go:276 IntegerType.Parameters *)
  Definition int_params (lo hi : Z) : list (gpv A) :=
    if lo =? min_int64 then (if hi =? max_int64 then [] else [GDefault; GInt hi])
    else if hi =? max_int64 then [GInt lo] else [GInt lo; GInt hi].
  (* floattype.go:176 *)
  Definition float_params (lo hi : Z) : list (gpv A) :=
    if lo =? fmin_key then (if hi =? fmax_key then [] else [GDefault; GFloat hi])
    else if hi =? fmax_key then [GFloat lo] else [GFloat lo; GFloat hi].
  Definition is_positive (lo hi : Z) : bool := (lo =? 0) && (hi =? max_int64).
  Definition is_zero (lo hi : Z) : bool := (lo =? 0) && (hi =? 0).

  (* optionaltype.go:111, notundeftype.go:111 *)
  Definition wrapper_params (t : ty) : list (gpv A) :=
    if is_any t then []
    else match t with
         | TStringVal s => match s with [] => [GTy (sub t)] | _ => [GStr s] end
         | _ => [GTy (sub t)]
         end.

  (* structtype.go:328 the key of one member *)
  Definition struct_key (name : str) (k v : ty) : gpv A :=
    if is_optional k
    then (if accepts_undef v then GStr name else GTy (sub k))
    else (if accepts_undef v then GTy (sub_notundef (sub k) k) else GStr name).

  (* Parameters() of each type *)
  Definition params_gen (t : ty) : list (gpv A) :=
    match t with
    | TAny | TUnit | TUndef | TDefault | TNumeric | TScalar | TScalarData | TBinary => []
    | TBoolean None => []                                               (* booleantype.go:160 *)
    | TBoolean (Some b) => [GBool b]
    | TInteger lo hi => int_params lo hi
    | TFloat lo hi => float_params lo hi
    | TString => []                                                     (* stringtype.go:253 *)
    | TStringSz lo hi => int_params lo hi                               (* stringtype.go:257 *)
    | TStringVal _ => []                 (* vcStringType: by specification prints as String *)
    | TEnum ci vs => map GStr vs ++ (if ci then [GBool true] else [])   (* enumtype.go:202 *)
    | TPattern rxs => map GRegexp rxs                                   (* patterntype.go:159 *)
    | TRegexp p => match p with [] => [] | _ => [GRegexp p] end         (* regexptype.go:136 *)
    | TCollection lo hi => if is_positive lo hi then [] else size_params lo hi   (* collectiontype.go:141 *)
    | TArray e lo hi =>                                                 (* arraytype.go:252 *)
      if is_unit e && is_zero lo hi then size_params lo hi
      else (if negb (is_any e) || is_zero lo hi then [GTy (sub e)] else [])
           ++ (if is_positive lo hi then [] else size_params lo hi)
    | THash k v lo hi =>                                                (* hashtype.go:319 *)
      if is_any k && is_any v && is_positive lo hi then []
      else if is_unit k && is_unit v && is_zero lo hi then [GInt 0; GInt 0]
      else [GTy (sub k); GTy (sub v)] ++ (if is_positive lo hi then [] else size_params lo hi)
    | TTuple ts _ lo hi =>                                              (* tupletype.go:375 *)
      let top := Z.of_nat (length ts) in
      map (fun x => GTy (sub x)) ts ++
      (if ((top =? 0) && is_positive lo hi) || ((0 <? top) && (lo =? top) && (hi =? top)) then []
       else size_params lo hi)
    | TStruct ms =>                                                     (* structtype.go:328 *)
      match ms with
      | [] => []
      | _ => [GHash (map (fun m => let '(n, (k, v)) := m in (struct_key n k v, GTy (sub v))) ms)]
      end
    | TVariant ts => map (fun x => GTy (sub x)) ts                      (* varianttype.go:118 *)
    | TOptional t' | TNotUndef t' => wrapper_params t'
    | TType t' | TSensitive t' => if is_any t' then [] else [GTy (sub t')]   (* typetype.go:124, sensitivetype.go:119 *)
    | TOther _ => []
    end.
End Params.

(* ------------------------------------------------------------------------------------------ *)
(* names                                                                                        *)

Inductive tname :=
| NAny | NUnit | NUndef | NDefault | NBoolean | NInteger | NFloat | NNumeric | NScalar | NScalarData
| NString | NEnum | NPattern | NRegexp | NBinary | NCollection | NArray | NHash | NTuple | NStruct
| NVariant | NOptional | NNotUndef | NType | NSensitive | NOtherName (s : str).

(* Name() of each type *)
Definition name_of (t : ty) : tname :=
  match t with
  | TAny => NAny | TUnit => NUnit | TUndef => NUndef | TDefault => NDefault | TBoolean _ => NBoolean
  | TInteger _ _ => NInteger | TFloat _ _ => NFloat | TNumeric => NNumeric | TScalar => NScalar
  | TScalarData => NScalarData | TString | TStringSz _ _ | TStringVal _ => NString
  | TEnum _ _ => NEnum | TPattern _ => NPattern | TRegexp _ => NRegexp | TBinary => NBinary
  | TCollection _ _ => NCollection | TArray _ _ _ => NArray | THash _ _ _ _ => NHash
  | TTuple _ _ _ _ => NTuple | TStruct _ => NStruct | TVariant _ => NVariant | TOptional _ => NOptional
  | TNotUndef _ => NNotUndef | TType _ => NType | TSensitive _ => NSensitive | TOther s => NOtherName s
  end.

Definition name_text (n : tname) : str :=
  (match n with
   | NAny => [65;110;121] | NUnit => [85;110;105;116] | NUndef => [85;110;100;101;102]
   | NDefault => [68;101;102;97;117;108;116] | NBoolean => [66;111;111;108;101;97;110]
   | NInteger => [73;110;116;101;103;101;114] | NFloat => [70;108;111;97;116]
   | NNumeric => [78;117;109;101;114;105;99] | NScalar => [83;99;97;108;97;114]
   | NScalarData => [83;99;97;108;97;114;68;97;116;97] | NString => [83;116;114;105;110;103]
   | NEnum => [69;110;117;109] | NPattern => [80;97;116;116;101;114;110] | NRegexp => [82;101;103;101;120;112]
   | NBinary => [66;105;110;97;114;121] | NCollection => [67;111;108;108;101;99;116;105;111;110]
   | NArray => [65;114;114;97;121] | NHash => [72;97;115;104] | NTuple => [84;117;112;108;101]
   | NStruct => [83;116;114;117;99;116] | NVariant => [86;97;114;105;97;110;116]
   | NOptional => [79;112;116;105;111;110;97;108] | NNotUndef => [78;111;116;85;110;100;101;102]
   | NType => [84;121;112;101] | NSensitive => [83;101;110;115;105;116;105;118;101]
   | NOtherName s => s
   end)%N.

(* resolver.go:10 Resolve(name) = coreTypes[name]: the default type of that name *)
Definition default_of (n : tname) : option ty :=
  match n with
  | NAny => Some TAny | NUnit => Some TUnit | NUndef => Some TUndef | NDefault => Some TDefault
  | NBoolean => Some (TBoolean None) | NInteger => Some (TInteger min_int64 max_int64)
  | NFloat => Some (TFloat fmin_key fmax_key) | NNumeric => Some TNumeric | NScalar => Some TScalar
  | NScalarData => Some TScalarData | NString => Some TString | NEnum => Some (TEnum false [])
  | NPattern => Some (TPattern []) | NRegexp => Some (TRegexp []) | NBinary => Some TBinary
  | NCollection => Some (TCollection 0 max_int64) | NArray => Some (TArray TAny 0 max_int64)
  | NHash => Some (THash TAny TAny 0 max_int64) | NTuple => Some (TTuple [] true 0 max_int64)
  | NStruct => Some (TStruct []) | NVariant => Some (TVariant []) | NOptional => Some (TOptional TAny)
  | NNotUndef => Some (TNotUndef TAny) | NType => Some (TType TAny) | NSensitive => Some (TSensitive TAny)
  | NOtherName _ => None
  end.

(* ------------------------------------------------------------------------------------------ *)
(* printing: T.String()                                                                         *)

Definition comma_space : str := [44; 32]%N.
Definition rocket : str := [32; 61; 62; 32]%N.

Fixpoint join (sep : str) (l : list str) : str :=
  match l with
  | [] => []
  | [x] => x
  | x :: r => x ++ sep ++ join sep r
  end.

Section Print.
  (* fmt's rendering of a float (floattype.go:330 floatGFormat): an oracle, given per run as a table *)
  Variable float_text : Z -> str.

  (* a parameter value in the default format; nested types are already text *)
  Fixpoint print_gpv (p : gpv str) : str :=
    match p with
    | GInt z => format_int z
    | GFloat k => float_text k
    | GDefault => [100;101;102;97;117;108;116]%N
    | GUndef => [117;110;100;101;102]%N
    | GBool true => [116;114;117;101]%N
    | GBool false => [102;97;108;115;101]%N
    | GStr s => puppet_quote s
    | GRegexp s => regexp_quote s
    | GArr es => [91]%N ++ join comma_space (map print_gpv es) ++ [93]%N
    | GHash kvs =>
      [123]%N ++ join comma_space (map (fun kv => print_gpv (fst kv) ++ rocket ++ print_gpv (snd kv)) kvs) ++ [125]%N
    | GTy text => text
    end.

  Variable accepts_undef : ty -> bool.

  (* types.go:223 basicTypeToString: the name, then the parameters as an array when there are any *)
  Definition print_named (n : tname) (ps : list (gpv str)) : str :=
    name_text n ++
    match ps with
    | [] => []
    | _ => [91]%N ++ join comma_space (map print_gpv ps) ++ [93]%N
    end.
  (* NotUndef[k] given the text of k *)
  Definition print_notundef (ktext : str) (k : ty) : str :=
    print_named NNotUndef (wrapper_params (fun _ => ktext) k).
  Fixpoint print_ty (t : ty) : str :=
    print_named (name_of t) (params_gen print_ty print_notundef accepts_undef t).
End Print.

(* ------------------------------------------------------------------------------------------ *)
(* the positional creators                                                                      *)

Inductive cres (A : Type) :=
| COk (a : A)
| CErr                 (* the creator (or NewIntegerType ...) reports an illegal argument *)
| CUnmodelled.         (* an Array argument: alternative forms outside the model *)
Arguments COk {A}. Arguments CErr {A}. Arguments CUnmodelled {A}.

Definition cbind {A B} (r : cres A) (f : A -> cres B) : cres B :=
  match r with COk a => f a | CErr => CErr | CUnmodelled => CUnmodelled end.

Definition has_array (args : list pv) : bool :=
  existsb (fun p => match p with GArr _ => true | _ => false end) args.

(* integertype.go:145 NewIntegerType: min > max is an error *)
Definition new_range (lo hi : Z) : cres (Z * Z) := if hi <? lo then CErr else COk (lo, hi).

(* an int or `default` standing for dflt *)
Definition int_or_default (p : pv) (dflt : Z) : cres Z :=
  match p with GInt z => COk z | GDefault => COk dflt | _ => CErr end.
Definition float_or_default (p : pv) (dflt : Z) : cres Z :=
  match p with GFloat k => COk k | GDefault => COk dflt | _ => CErr end.

(* all arguments are types (types.go:277 toTypes, without its nested form) *)
Fixpoint all_types (args : list pv) : cres (list ty) :=
  match args with
  | [] => COk []
  | GTy t :: r => cbind (all_types r) (fun ts => COk (t :: ts))
  | _ => CErr
  end.

Section Create.
  (* strings.ToLower (enumtype.go:44) and regexp.Compile succeeding (regexptype.go:62): oracles *)
  Variable to_lower : str -> str.
  Variable rx_ok : str -> bool.
  Variable accepts_undef : ty -> bool.

  (* stringtype.go:90 NewStringType(rng, "") *)
  Definition new_string_sized (lo hi : Z) : ty :=
    if (lo <=? 0) && (hi =? max_int64) then TString else TStringSz lo hi.   (* min <= 0 && max == MaxInt64 (fix: negative minimum) *)
  (* stringtype.go:90 NewStringType(nil, s) *)
  Definition new_string_value (s : str) : ty := match s with [] => TString | _ => TStringVal s end.

  (* enumtype.go:86-97 the loop over two or more arguments; idx counts from the end: last = true for the
     last argument *)
  Fixpoint enum_values (args : list pv) : cres (list str * bool) :=
    match args with
    | [] => COk ([], false)
    | [GStr s] => COk ([s], false)
    | [GBool b] => COk ([], b)          (* the flag, not a value (fix dcbdeb2) *)
    | GStr s :: r => cbind (enum_values r) (fun vc => COk (s :: fst vc, snd vc))
    | _ => CErr
    end.

  Definition new_enum (vs : list str) (ci : bool) : ty :=           (* enumtype.go:38 NewEnumType *)
    TEnum ci (if ci then map to_lower vs else vs).

  (* patterntype.go:53-65 *)
  Fixpoint pattern_sources (l : list pv) : cres (list str) :=
    match l with
    | [] => COk []
    | GTy (TRegexp p) :: r => cbind (pattern_sources r) (fun ps => COk (p :: ps))
    | GRegexp p :: r => cbind (pattern_sources r) (fun ps => COk (p :: ps))
    | GStr s :: r => if rx_ok s then cbind (pattern_sources r) (fun ps => COk (s :: ps)) else CErr
    | _ => CErr
    end.

  (* tupletype.go:66 tupleFromArgs(false, args), args without an Array *)
  Definition tuple_from_args (args : list pv) : cres ty :=
    let argc := length args in
    match rev args with
    | [] => COk (TTuple [] true 0 max_int64)
    | last :: before =>
      let maxo := match last with
                  | GDefault => Some max_int64
                  | GInt n => if 0 <=? n then Some n else None
                  | _ => None
                  end in
      match maxo with
      | Some mx =>
        (* a size is given *)
        let sized (lo hi : Z) (targs : list pv) : cres ty :=
            cbind (new_range lo hi) (fun _ =>
            match targs with
            | [] => COk (TTuple [] true lo hi)      (* empty, default or sized tuple without types *)
            | _ => cbind (all_types targs) (fun ts => COk (TTuple ts true lo hi))
            end) in
        match before with
        | [] => sized 0 max_int64 []                                  (* tupletype.go:99 argc == 1 *)
        | GInt mn :: before' => sized mn mx (rev before')             (* min and max *)
        | _ => sized mx (Z.of_nat (length before)) (rev before)       (* tupletype.go:107 *)
        end
      | None =>
        cbind (all_types args) (fun ts => COk (TTuple ts false (Z.of_nat argc) (Z.of_nat argc)))
      end
    end.

  (* structtype.go:53 NewStructElement *)
  Definition new_struct_element (key : pv) (v : ty) : cres (str * (ty * ty)) :=
    match key with
    | GStr [] => CErr
    | GStr n => COk (n, (if accepts_undef v then TOptional (TStringVal n) else TStringVal n, v))
    | GTy (TStringVal []) => CErr
    | GTy (TStringVal n) => COk (n, (TStringVal n, v))
    | GTy (TOptional (TStringVal [])) => CErr
    | GTy (TOptional (TStringVal n)) => COk (n, (TOptional (TStringVal n), v))
    | GTy (TNotUndef (TStringVal [])) => CErr
    | GTy (TNotUndef (TStringVal n)) => COk (n, (TStringVal n, v))     (* fix 5448e38 *)
    | _ => CErr
    end.

  Fixpoint struct_elements (kvs : list (pv * pv)) : cres (list (str * (ty * ty))) :=
    match kvs with
    | [] => COk []
    | (k, GTy v) :: r =>
      cbind (new_struct_element k v) (fun e => cbind (struct_elements r) (fun es => COk (e :: es)))
    | _ => CErr
    end.

  (* the size arguments of Array / Hash (arraytype.go:106, hashtype.go:206): what is left after the types *)
  Definition size_args (rest : list pv) : cres (Z * Z) :=
    match rest with
    | [] => COk (0, max_int64)
    | [GInt sz] => new_range sz max_int64
    | [GTy (TInteger lo hi)] => COk (lo, hi)
    | [a; b] => cbind (int_or_default a 0) (fun mn => cbind (int_or_default b max_int64) (fun mx => new_range mn mx))
    | _ => CErr
    end.

  (* enumtype.go:57 newEnumType3 on arguments without an Array *)
  Definition enum_from_args (args : list pv) : cres ty :=
    match args with
    | [] => COk (TEnum false [])
    | [GStr s] => COk (new_enum [s] false)
    | [GBool b] => COk (new_enum [] b)                               (* fix 4ee7f0d *)
    | [_] => CErr
    | _ => cbind (enum_values args) (fun vc => COk (new_enum (fst vc) (snd vc)))
    end.

  (* structtype.go:98 newStructType2 on arguments without an Array *)
  Definition struct_from_args (args : list pv) : cres ty :=
    match args with
    | [] => COk (TStruct [])
    | [GHash kvs] => cbind (struct_elements kvs) (fun es => COk (TStruct es))
    | [_] => CErr
    | _ => CErr                                                      (* structtype.go:128 argument count *)
    end.

  (* The alternative forms with an Array argument (the parser accepts them; Parameters() never writes one).
     A list inside the list is outside the model. *)
  Definition tuple_from_list (flat : list pv) : cres ty :=          (* tupletype.go:87 on, after :72-85 *)
    if has_array flat then CUnmodelled
    else match flat with
         | [] => COk (TTuple [] true 0 0)          (* an empty list of types: tupleTypeEmpty (fix a9cad06) *)
         | _ => tuple_from_args flat
         end.

  Definition create_array_forms (n : tname) (args : list pv) : cres ty :=
    match n, args with
    (* tupletype.go:72-85: the list (and the parameters of the size type) become the arguments *)
    | NTuple, [GArr es] => tuple_from_list es
    | NTuple, [GArr es; GTy (TInteger lo hi)] => tuple_from_list (es ++ size_params lo hi)   (* both bounds (fix 2cf439c) *)
    | NTuple, [GArr _; _] => CErr                                    (* tupletype.go:78 *)
    (* enumtype.go:68 one argument, an Array: newEnumType3(first) *)
    | NEnum, [GArr es] => if has_array es then CUnmodelled else enum_from_args es
    (* enumtype.go:77 first argument an Array: its elements, then the other arguments *)
    | NEnum, GArr es :: rest =>
      let flat := es ++ rest in
      if has_array flat then CUnmodelled
      else match flat with
           | [] => COk (TEnum false [])
           | _ => cbind (enum_values flat) (fun vc => COk (new_enum (fst vc) (snd vc)))
           end
    (* patterntype.go:48 one argument, an Array: newPatternType3(av) *)
    | NPattern, [GArr es] =>
      if has_array es then CUnmodelled else cbind (pattern_sources es) (fun ps => COk (TPattern ps))
    (* structtype.go:110 one argument, an Array: newStructType2(elements...) *)
    | NStruct, [GArr es] => if has_array es then CUnmodelled else struct_from_args es
    | _, _ => CUnmodelled
    end.

  (* ResolveWithParams (resolver.go:18): the positional creator of the named type on resolved arguments *)
  Definition create (n : tname) (args : list pv) : cres ty :=
    if has_array args then create_array_forms n args else
    match n with
    | NBoolean =>                                                      (* booleantype.go:78 *)
      match args with [] => COk (TBoolean None) | [GBool b] => COk (TBoolean (Some b)) | _ => CErr end
    | NInteger =>                                                      (* integertype.go:165 *)
      match args with
      | [] => COk (TInteger min_int64 max_int64)
      | [a] => cbind (int_or_default a min_int64) (fun mn => cbind (new_range mn max_int64) (fun r => COk (TInteger (fst r) (snd r))))
      | [a; b] => cbind (int_or_default a min_int64) (fun mn => cbind (int_or_default b max_int64) (fun mx =>
                  cbind (new_range mn mx) (fun r => COk (TInteger (fst r) (snd r)))))
      | _ => CErr
      end
    | NFloat =>                                                        (* floattype.go:78 *)
      match args with
      | [] => COk (TFloat fmin_key fmax_key)
      | [a] => cbind (float_or_default a fmin_key) (fun mn => cbind (new_range mn fmax_key) (fun r => COk (TFloat (fst r) (snd r))))
      | [a; b] => cbind (float_or_default a fmin_key) (fun mn => cbind (float_or_default b fmax_key) (fun mx =>
                  cbind (new_range mn mx) (fun r => COk (TFloat (fst r) (snd r)))))
      | _ => CErr
      end
    | NString =>                                                       (* stringtype.go:101 *)
      match args with
      | [] => COk TString
      | [GStr s] => COk (new_string_value s)
      | [GTy (TInteger lo hi)] => COk (new_string_sized lo hi)
      | [GInt mn] => cbind (new_range mn max_int64) (fun r => COk (new_string_sized (fst r) (snd r)))
      | [a; b] =>                                  (* an integer or default for either bound (fix d2e056c) *)
        cbind (int_or_default a min_int64) (fun mn => cbind (int_or_default b max_int64) (fun mx =>
        cbind (new_range mn mx) (fun r => COk (new_string_sized (fst r) (snd r)))))
      | _ => CErr
      end
    | NEnum => enum_from_args args                                     (* enumtype.go:57 *)
    | NPattern => cbind (pattern_sources args) (fun ps => COk (TPattern ps))   (* patterntype.go:41 *)
    | NRegexp =>                                                       (* regexptype.go:76 *)
      match args with
      | [] => COk (TRegexp [])
      | [GStr s] => if rx_ok s then COk (TRegexp s) else CErr
      | [GRegexp p] => COk (TRegexp p)
      | _ => CErr
      end
    | NCollection =>                                                   (* collectiontype.go:37 *)
      match args with
      | [] => COk (TCollection 0 max_int64)
      | [GTy (TInteger lo hi)] => COk (TCollection lo hi)
      | [a] => cbind (int_or_default a 0) (fun sz => cbind (new_range sz max_int64) (fun r => COk (TCollection (fst r) (snd r))))
      | [a; b] => cbind (int_or_default a 0) (fun mn => cbind (int_or_default b max_int64) (fun mx =>
                  cbind (new_range mn mx) (fun r => COk (TCollection (fst r) (snd r)))))
      | _ => CErr
      end
    | NArray =>                                                        (* arraytype.go:92 *)
      match args with
      | [] => COk (TArray TAny 0 max_int64)
      | GTy e :: rest =>
        match rest with
        | _ :: _ :: _ :: _ => CErr
        | _ => cbind (size_args rest) (fun r => COk (TArray e (fst r) (snd r)))
        end
      | rest =>
        match rest with
        | _ :: _ :: _ :: _ => CErr
        | [_; _] => cbind (size_args rest) (fun r =>
                      (* Array[0, 0]: the empty array type, element type Unit (fix fca0e9e) *)
                      COk (TArray (if is_zero (fst r) (snd r) then TUnit else TAny) (fst r) (snd r)))
        | _ => cbind (size_args rest) (fun r => COk (TArray TAny (fst r) (snd r)))
        end
      end
    | NHash =>                                                         (* hashtype.go:182 *)
      match args with
      | [] => COk (THash TAny TAny 0 max_int64)
      | [_] => CErr
      | _ :: _ :: _ :: _ :: _ :: _ => CErr
      | GTy k :: GTy v :: rest => cbind (size_args rest) (fun r => COk (THash k v (fst r) (snd r)))
      | GTy _ :: _ => CErr
      | [_; _] => cbind (size_args args) (fun r =>
                    COk (if is_zero (fst r) (snd r) then THash TUnit TUnit 0 0     (* hashTypeEmpty *)
                         else THash TAny TAny (fst r) (snd r)))
      | _ => COk (THash TAny TAny 0 max_int64)   (* three or four arguments, no types: no case of the
                                                    switch at hashtype.go:207 applies, the size stays nil *)
      end
    | NTuple => tuple_from_args args                                   (* tupletype.go:62 *)
    | NStruct => struct_from_args args                                 (* structtype.go:98 *)
    | NVariant =>                                                      (* varianttype.go:45 *)
      match args with
      | [] => COk (TVariant [])
      | [GTy t] => COk t
      | [_] => CErr
      | _ => cbind (all_types args) (fun ts => COk (TVariant ts))
      end
    | NOptional =>                                                     (* optionaltype.go:42 *)
      match args with
      | [] => COk (TOptional TAny)
      | [GTy t] => COk (TOptional t)
      | [GStr s] => COk (TOptional (new_string_value s))
      | _ => CErr
      end
    | NNotUndef =>                                                     (* notundeftype.go:42 *)
      match args with
      | [] => COk (TNotUndef TAny)
      | [GTy t] => COk (TNotUndef t)
      | [GStr s] => COk (TNotUndef (new_string_value s))
      | _ => CErr
      end
    | NType => match args with [] => COk (TType TAny) | [GTy t] => COk (TType t) | _ => CErr end
    | NSensitive => match args with [] => COk (TSensitive TAny) | [GTy t] => COk (TSensitive t) | _ => CErr end
    | NAny | NUnit | NUndef | NDefault | NNumeric | NScalar | NScalarData | NBinary | NOtherName _ =>
      CErr                                                             (* resolver.go:30 not a parameterized type *)
    end.

  (* the arguments after their types have been resolved: the first failure wins *)
  Fixpoint sequence_gpv (p : gpv (cres ty)) : cres pv :=
    match p with
    | GInt z => COk (GInt z) | GFloat k => COk (GFloat k) | GDefault => COk GDefault | GUndef => COk GUndef
    | GBool b => COk (GBool b) | GStr s => COk (GStr s) | GRegexp s => COk (GRegexp s)
    | GArr es =>
      cbind ((fix go (l : list (gpv (cres ty))) : cres (list pv) :=
                match l with
                | [] => COk []
                | x :: r => cbind (sequence_gpv x) (fun x' => cbind (go r) (fun r' => COk (x' :: r')))
                end) es) (fun es' => COk (GArr es'))
    | GHash kvs =>
      cbind ((fix go (l : list (gpv (cres ty) * gpv (cres ty))) : cres (list (pv * pv)) :=
                match l with
                | [] => COk []
                | (k, v) :: r =>
                  cbind (sequence_gpv k) (fun k' => cbind (sequence_gpv v) (fun v' =>
                  cbind (go r) (fun r' => COk ((k', v') :: r'))))
                end) kvs) (fun kvs' => COk (GHash kvs'))
    | GTy r => cbind r (fun t => COk (GTy t))
    end.

  Fixpoint sequence_list (l : list (gpv (cres ty))) : cres (list pv) :=
    match l with
    | [] => COk []
    | x :: r => cbind (sequence_gpv x) (fun x' => cbind (sequence_list r) (fun r' => COk (x' :: r')))
    end.

  (* print T, parse the text, resolve the expression (deferredtype.go:55): the parameters are resolved
     first (resolveValue), then the creator of the name is applied; a name without parameters resolves to
     the default type of that name. The expression that the text of T parses to has the name of T and,
     for each parameter value, the literal it prints as; so resolving it is this recursion over T. *)
  Definition resolve_named (n : tname) (ps : list (gpv (cres ty))) : cres ty :=
    match ps with
    | [] => match default_of n with Some d => COk d | None => CErr end
    | _ => cbind (sequence_list ps) (create n)
    end.
  Definition reparse_notundef (kres : cres ty) (k : ty) : cres ty :=
    resolve_named NNotUndef (wrapper_params (fun _ => kres) k).
  Fixpoint reparse (t : ty) : cres ty :=
    resolve_named (name_of t) (params_gen reparse reparse_notundef accepts_undef t).
End Create.

(* ------------------------------------------------------------------------------------------ *)
(* what the theorem ranges over                                                                 *)

(* the tuple flag `size != nil` as the creator sets it: a size is absent exactly when the tuple has
   element types and its size equals their number. TupleType.Equals does not look at the flag
   (it compares givenOrActualSize, tupletype.go Equals) *)
Fixpoint canon (t : ty) : ty :=
  match t with
  | TArray e lo hi => TArray (canon e) lo hi
  | THash k v lo hi => THash (canon k) (canon v) lo hi
  | TTuple ts g lo hi =>
    let top := Z.of_nat (length ts) in
    TTuple (map canon ts) (negb ((0 <? top) && (lo =? top) && (hi =? top))) lo hi
  | TStruct ms => TStruct (map (fun m => let '(n, (k, v)) := m in (n, (k, canon v))) ms)
  | TVariant ts => TVariant (map canon ts)
  | TOptional x => TOptional (canon x)
  | TNotUndef x => TNotUndef (canon x)
  | TType x => TType (canon x)
  | TSensitive x => TSensitive (canon x)
  | _ => t
  end.

Section Wf.
  Variable to_lower : str -> str.

  Definition range_ok (lo hi : Z) : bool := in_int64 lo && in_int64 hi && (lo <=? hi).
  Definition is_exact_string (t : ty) : bool := match t with TStringVal _ => true | _ => false end.

  (* what the Go constructors guarantee, and the exclusions the property names (an exact-value String type,
     except where it prints its value: directly under Optional / NotUndef when not empty, and as a Struct key) *)
  Fixpoint c05_ok (t : ty) : bool :=
    match t with
    | TInteger lo hi => range_ok lo hi
    | TFloat lo hi => (fmin_key <=? lo) && (lo <=? hi) && (hi <=? fmax_key)
    | TStringSz lo hi =>     (* NewStringType makes every size Integer[min, default] with min <= 0 the String type *)
      range_ok lo hi && negb ((lo <=? 0) && (hi =? max_int64))
    | TStringVal _ => false
    | TEnum ci vs => if ci then forallb (fun v => str_eqb (to_lower v) v) vs else true
    | TCollection lo hi => range_ok lo hi
    | TArray e lo hi => c05_ok e && range_ok lo hi
    | THash k v lo hi => c05_ok k && c05_ok v && range_ok lo hi
    | TTuple ts _ lo hi => forallb c05_ok ts && range_ok lo hi && (0 <=? hi)
    | TStruct ms =>
      forallb (fun m => let '(n, (k, v)) := m in
                        negb (match n with [] => true | _ => false end) &&
                        (match k with
                         | TStringVal n' => str_eqb n' n
                         | TOptional (TStringVal n') => str_eqb n' n
                         | _ => false
                         end) && c05_ok v) ms
    | TVariant ts => forallb c05_ok ts && negb (Nat.eqb (length ts) 1)
    | TOptional x | TNotUndef x =>
      match x with
      | TStringVal [] => false
      | TStringVal _ => true
      | _ => c05_ok x
      end
    | TType x | TSensitive x => c05_ok x
    | TOther _ => false
    | _ => true
    end.
End Wf.
