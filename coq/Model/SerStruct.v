(* SerStruct.v — object INSTANCES on their way through the rich-data serializer and back (property C10).
   Definitions only.

   An instance of an Object type (a value built by the type's constructor: attributeSlice; or the wrapper of a Go
   struct registered through Reflector().TypeFromReflect / TypeSetFromReflect: reflectedObject) travels as
   {__ptype => type, name => value ...} of its InitHash(), which leaves out EVERY attribute that holds its
   declared default (not only the trailing ones).  The consumer allocates an instance and calls InitFromHash:
   name -> position with the defaults filled in, the trailing default-valued optional attributes trimmed AGAIN,
   and then - for a Go struct - every field is set from the short slice, a position beyond its end receiving the
   declared default.

   Go sources mirrored:
     serialization/serializer.go:312-324   valueToDataHash, the px.PuppetObject arm: addHash(2), __ptype, the type,
                                           the entries of po.InitHash()
     types/objectvalue.go:187-197          makeValueHash (attributeSlice.InitHash)
     types/objectvalue.go:445-470          reflectedObject.InitHash: the same test per Go field
     serialization/deserializer.go:157-165 pcoreTypeHashToValue: allocate, InitFromHash(converted hash)
     types/objectvalue.go:21-36, 300-302   valuesFromHash / reflectedObject.InitFromHash = setValues(valuesFromHash)
     types/attributesinfo.go:47-64         PositionalFromHash: fill (Model/SerAttrs.v), then
                                             for i := len(va)-1; i >= RequiredCount(); i-- {
                                               if !attrs[i].Default(va[i]) { break }; va = va[:i] }
     types/attribute.go:93-95              Default(v) = a.value != nil && a.value.Equals(v)
     types/objectvalue.go:305-327          reflectedObject.setValues: field i := values[i] if i < len(values), else
                                           the declared default, else undef
     types/objectvalue.go:119-131          attributeSlice.Get: the same rule when an attribute is read

   Data of the term (supplied by the harness through the public API): the attribute list of the type in
   declaration order, RequiredCount(), attribute.Get(instance) (for a Go struct: the field), attribute.Default of
   it, attribute.HasValue()/Value(). *)
From Coq Require Import ZArith NArith Bool List.
From PcoreV Require Import Model.Base Model.Ser Model.SerAttrs.
Import ListNotations.
Local Open Scope nat_scope.

Section Struct.
Context {payload : Type}.
Notation attr := (attr payload).
Notation decl := (decl payload).

(* ---- the producer side ---- *)

(* objectvalue.go:191-195 / :462-466: an attribute is part of the init hash unless
   attr.HasValue() && v.Equals(attr.Value()) *)
Definition init_attrs (l : list attr) : list attr := filter (fun a => negb (a_isdef a)) l.

(* serializer.go:312-324 = the VObj arm of Ser.to_data on the entries of the init hash *)
Definition VObjS (id : N) (ty : @rvalue payload) (l : list attr) (disp : str) : @rvalue payload :=
  VObj id ty 2 (attr_fields (init_attrs l)) disp.

(* ---- the consumer side ---- *)

(* Value.Equals on the values the consumer holds *)
Variable veq : @pvalue payload -> @pvalue payload -> bool.

(* attribute.go:93-95 *)
Definition decl_isdef (d : decl) (v : @pvalue payload) : bool :=
  match d_default d with Some dv => veq dv v | None => false end.

(* attributesinfo.go:58-63 on the reversed list of (attribute, value); n = iterations still allowed *)
Fixpoint drop_defaults_p (n : nat) (rl : list (decl * @pvalue payload)) : list (decl * @pvalue payload) :=
  match n, rl with
  | S n', p :: rl' => if decl_isdef (fst p) (snd p) then drop_defaults_p n' rl' else rl
  | _, _ => rl
  end.

Definition trim_p (req : nat) (ds : list decl) (vs : list (@pvalue payload)) : list (@pvalue payload) :=
  map snd (rev (drop_defaults_p (length vs - req) (rev (combine ds vs)))).

(* attributesinfo.go:47-64 as a whole *)
Definition positional_from_hash (req : nat) (ds : list decl) (given : list (@pvalue payload * @pvalue payload))
  : res (list (@pvalue payload)) :=
  bind (fill ds given) (fun vs => Ok (trim_p req ds vs)).

(* objectvalue.go:311-325 (and :119-131 for an attributeSlice that is read) *)
Definition default_or_undef (d : decl) : @pvalue payload :=
  match d_default d with Some dv => dv | None => PUndef end.

Fixpoint set_values (ds : list decl) (vs : list (@pvalue payload)) : list (@pvalue payload) :=
  match ds with
  | [] => []
  | d :: ds' =>
      match vs with
      | v :: vs' => v :: set_values ds' vs'
      | [] => default_or_undef d :: set_values ds' []
      end
  end.

(* objectvalue.go:300-302: what the fields of the allocated instance hold after InitFromHash *)
Definition init_from_hash (req : nat) (ds : list decl) (given : list (@pvalue payload * @pvalue payload))
  : res (list (@pvalue payload)) :=
  bind (positional_from_hash req ds given) (fun vs => Ok (set_values ds vs)).

End Struct.
