(* C13 - a file based loader whose SmartPath serves SEVERAL namespaces (loader.NewSmartPath with more than one
   namespace, registered in loader.SmartPathFactories): one file defines a name in each of the namespaces, and
   fileBasedLoader.instantiate maps whatever name was asked for to the name in the FIRST namespace - under that name
   the file is locked, marked and instantiated (filebased.go:242-250) - and hands out the nentry of the name that was
   asked for (:281).

   The tree is  static <- M  (M the file based loader), the operations px.Load and HasEntry through M of names in M's
   namespaces.  A name is (s, b): namespace index s (0 = the first namespace of the path) and base name b.  As in
   Model/Conc.v an operation is cut into the atomic segments between the yield points verifhook.Point of /repo:

     loader/loader.go     load :71, parentedLoader.LoadEntry :197 ("parented.between")
     loader/filebased.go  LoadEntry :80-103 ("filebased.before-find", "filebased.before-set"), find :119,
                          instantiate :242-281 ("instantiate.before-lock", ".locked", ".checked", ".marked", ".unlocked"),
                          HasEntry :325 (index only)

   [keymode]: KeyMapped is the code (the lock table is keyed by the name AFTER it was mapped to the first namespace);
   KeyRequested is the variant that keys the lock table by the name that was asked for (seeded change C13-m8): two
   requests for one file through different namespaces then use different mutexes (ConcNsProofs.key_requested_refuted). *)
From Coq Require Import NArith Arith Bool List.
Import ListNotations.

Definition nsid := nat.
Definition ntid := nat.
Definition nlockid := nat.

Inductive keymode := KeyMapped | KeyRequested.

Record ncfg := mkNC {
  n_files : list N;      (* base names that have a file under M *)
  n_bad : list N;        (* those whose file cannot be instantiated: the instantiator panics before it defines anything *)
  n_extra : nat          (* the path serves 1 + n_extra namespaces *)
}.
Definition has_file (c : ncfg) (b : N) : bool := existsb (N.eqb b) (n_files c).
Definition is_bad (c : ncfg) (b : N) : bool := existsb (N.eqb b) (n_bad c).

(* a *loaderEntry of M: None = nentry whose value is nil (cached miss / instantiation mark); Some k = the value
   that instantiation number k of the file made (k = 0 wherever the file is instantiated once) *)
Definition nentry := option nat.
Inductive nrd := NdNil | NdHole | NdVal (k : nat).

Inductive nop :=
| NLoad (s : nsid) (b : N)       (* px.Load with a context whose loader is M *)
| NHas (s : nsid) (b : N).       (* M.HasEntry *)

Inductive nres :=
| NFound (v : option nat)        (* px.Load: (value of instantiation k, true) / (nil, false) *)
| NBool (x : bool)
| NFileErr                       (* px.Load escaped with the error of the instantiator of a broken file *)
| NErr                           (* px.Load escaped with AttemptToRedefine (a second instantiation binds the names again) *)
| NFault.

Inductive nevent :=
| NvRes (t : ntid) (o : nop) (r : nres)
| NvParse (t : ntid) (b : N).     (* thread t read and instantiated the file of b *)

Record nshared := mkNS {
  nents : nsid -> N -> option nentry;           (* M.namedEntries *)
  nlockmap : nsid -> N -> option nlockid;       (* M.locks, keyed by a name *)
  nheld : nlockid -> option ntid;
  nnext : nlockid
}.

Definition nupd2 {A} (f : nsid -> N -> A) (s : nsid) (b : N) (a : A) : nsid -> N -> A :=
  fun s' b' => if Nat.eqb s' s && N.eqb b' b then a else f s' b'.
Definition nupd1 {A} (f : nat -> A) (k : nat) (a : A) : nat -> A :=
  fun k' => if Nat.eqb k' k then a else f k'.

Definition nset_ents (sh : nshared) s b (e : nentry) : nshared :=
  mkNS (nupd2 (nents sh) s b (Some e)) (nlockmap sh) (nheld sh) (nnext sh).
Definition nset_lockmap (sh : nshared) s b (o : option nlockid) : nshared :=
  mkNS (nents sh) (nupd2 (nlockmap sh) s b o) (nheld sh) (nnext sh).
Definition nset_held (sh : nshared) lk (o : option ntid) : nshared :=
  mkNS (nents sh) (nlockmap sh) (nupd1 (nheld sh) lk o) (nnext sh).
Definition nbump (sh : nshared) : nshared :=
  mkNS (nents sh) (nlockmap sh) (nheld sh) (S (nnext sh)).

Definition ninit_shared : nshared := mkNS (fun _ _ => None) (fun _ _ => None) (fun _ => None) 0.

(* basicLoader.GetEntry *)
Definition nget (sh : nshared) (s : nsid) (b : N) : nrd :=
  match nents sh s b with
  | None => NdNil
  | Some None => NdHole
  | Some (Some k) => NdVal k
  end.

(* basicLoader.SetEntry of an nentry without value (cached miss, mark): neither replaces nor conflicts *)
Definition nset_hole (sh : nshared) (s : nsid) (b : N) : nshared :=
  match nents sh s b with
  | None => nset_ents sh s b None
  | Some _ => sh
  end.

(* the instantiator: SetEntry of the value in namespace 0, 1, ... in turn; the values of two instantiations are
   different objects: AttemptToRedefine (loader.go:148) ends it at the first name that already has a value *)
Fixpoint bind_from (sh : nshared) (b : N) (k : nat) (s : nsid) (count : nat) : nshared * bool :=
  match count with
  | 0 => (sh, true)
  | S c' =>
      match nents sh s b with
      | Some (Some _) => (sh, false)
      | _ => bind_from (nset_ents sh s b (Some k)) b k (S s) c'
      end
  end.
Definition bind_all (c : ncfg) (sh : nshared) (b : N) (k : nat) : nshared * bool :=
  bind_from sh b k 0 (S (n_extra c)).

(* the key of the lock table for a request of (s, b) *)
Definition lock_ns (m : keymode) (s : nsid) : nsid := match m with KeyMapped => 0 | KeyRequested => s end.

Inductive npc :=
| NIdle
| NBetween (s : nsid) (b : N)                    (* "parented.between": the static loader had nothing *)
| NBeforeFind (s : nsid) (b : N)                 (* "filebased.before-find": M's own map had nothing *)
| NBeforeSet (s : nsid) (b : N)                  (* "filebased.before-set": find returned nil *)
| NBeforeLock (s : nsid) (b : N) (lk : nlockid)   (* "instantiate.before-lock" *)
| NLocked (s : nsid) (b : N) (lk : nlockid)
| NChecked (s : nsid) (b : N) (lk : nlockid)      (* GetEntry(first-namespace name) was nil *)
| NMarked (s : nsid) (b : N) (lk : nlockid)
| NUnlocked (s : nsid) (b : N) (lk : nlockid) (r : option nrd).   (* r: GetEntry(requested name); None: panicking *)

Record nthread := mkNT { nt_pc : npc; nt_todo : list nop }.

Definition nfin (t : ntid) (o : nop) (r : nres) : npc * list nevent := (NIdle, [NvRes t o r]).

(* fileBasedLoader.LoadEntry handed e (not nil) to load() *)
Definition nfinish (t : ntid) (s : nsid) (b : N) (e : nrd) : npc * list nevent :=
  match e with
  | NdVal k => nfin t (NLoad s b) (NFound (Some k))
  | _ => nfin t (NLoad s b) (NFound None)
  end.

Fixpoint nsparse (b : N) (log : list nevent) : nat :=
  match log with
  | [] => 0
  | NvParse _ b' :: log' => (if N.eqb b' b then 1 else 0) + nsparse b log'
  | _ :: log' => nsparse b log'
  end.

Definition nstart (c : ncfg) (t : ntid) (o : nop) : npc * list nevent :=
  match o with
  | NLoad s b => (NBetween s b, [])               (* the static loader has none of these names *)
  | NHas s b => nfin t o (NBool (Nat.leb s (n_extra c) && has_file c b))
  end.

(* the segment that starts at yield point p; None: the thread cannot move (its mutex is held).  [k]: the number of
   instantiations of the file so far (the identity of the value that this one makes) *)
Definition nseg (m : keymode) (c : ncfg) (sh : nshared) (log : list nevent) (t : ntid) (p : npc)
  : option (nshared * (npc * list nevent)) :=
  match p with
  | NIdle => None
  | NBetween s b =>                                   (* loader.go:190 + filebased.go:82-91 *)
      match nget sh s b with
      | NdNil => Some (sh, (NBeforeFind s b, []))
      | e => Some (sh, nfinish t s b e)
      end
  | NBeforeFind s b =>                                (* find :119 -> findExistingPath, instantiate :242-260 *)
      if Nat.leb s (n_extra c) && has_file c b then
        match nlockmap sh (lock_ns m s) b with
        | Some lk => Some (sh, (NBeforeLock s b lk, []))
        | None => let lk := nnext sh in
                  Some (nbump (nset_lockmap sh (lock_ns m s) b (Some lk)), (NBeforeLock s b lk, []))
        end
      else Some (sh, (NBeforeSet s b, []))
  | NBeforeSet s b =>                                 (* :100-102: the fresh nentry without value is returned *)
      Some (nset_hole sh s b, nfinish t s b NdHole)
  | NBeforeLock s b lk =>
      match nheld sh lk with
      | Some _ => None
      | None => Some (nset_held sh lk (Some t), (NLocked s b lk, []))
      end
  | NLocked s b lk =>                                 (* :272 GetEntry(name), name = the one of the first namespace *)
      match nget sh 0 b with
      | NdNil => Some (sh, (NChecked s b lk, []))
      | _ => Some (nset_held sh lk None, (NUnlocked s b lk (Some (nget sh s b)), []))     (* :281, deferred unlock *)
      end
  | NChecked s b lk =>                                (* :275 *)
      Some (nset_hole sh 0 b, (NMarked s b lk, []))
  | NMarked s b lk =>                                 (* :278 the instantiator, then :281 GetEntry(rn), deferred unlock *)
      if is_bad c b
      then Some (nset_held sh lk None, (NUnlocked s b lk None, [NvParse t b]))
      else
        match bind_all c sh b (nsparse b log) with
        | (sh', true) => Some (nset_held sh' lk None, (NUnlocked s b lk (Some (nget sh' s b)), [NvParse t b]))
        | (sh', false) => Some (nset_held sh' lk None, (NUnlocked s b lk None, [NvParse t b]))
        end
  | NUnlocked s b lk r =>                             (* :267-269 delete(l.locks, key) *)
      let sh' := nset_lockmap sh (lock_ns m s) b None in
      match r with
      | None => Some (sh', nfin t (NLoad s b) (if is_bad c b then NFileErr else NErr))
      | Some NdNil => Some (sh', (NBeforeSet s b, []))          (* find returned nil: filebased.go:98 *)
      | Some e => Some (sh', nfinish t s b e)
      end
  end.

Record nstate := mkNSt { ns_sh : nshared; ns_thr : ntid -> nthread; ns_log : list nevent }.

Definition nprog := list (list nop).

Definition ninit (p : nprog) : nstate :=
  mkNSt ninit_shared (fun t => mkNT NIdle (nth t p [])) [].

Definition nstep (m : keymode) (c : ncfg) (st : nstate) (t : ntid) : nstate :=
  let th := ns_thr st t in
  match nt_pc th with
  | NIdle =>
      match nt_todo th with
      | [] => st
      | o :: todo =>
          let '(p', evs) := nstart c t o in
          mkNSt (ns_sh st) (nupd1 (ns_thr st) t (mkNT p' todo)) (ns_log st ++ evs)
      end
  | p =>
      match nseg m c (ns_sh st) (ns_log st) t p with
      | None => st
      | Some (sh', (p', evs)) =>
          mkNSt sh' (nupd1 (ns_thr st) t (mkNT p' (nt_todo th))) (ns_log st ++ evs)
      end
  end.

Definition nexec (m : keymode) (c : ncfg) (p : nprog) (s : list ntid) : nstate := fold_left (nstep m c) s (ninit p).
Definition ntrace (m : keymode) (c : ncfg) (p : nprog) (s : list ntid) : list nevent := ns_log (nexec m c p s).

Fixpoint nresults_of (t : ntid) (log : list nevent) : list nres :=
  match log with
  | [] => []
  | NvRes t' _ r :: log' => if Nat.eqb t' t then r :: nresults_of t log' else nresults_of t log'
  | _ :: log' => nresults_of t log'
  end.

Fixpoint nparses_by (t : ntid) (log : list nevent) : nat :=
  match log with
  | [] => 0
  | NvParse t' _ :: log' => (if Nat.eqb t' t then 1 else 0) + nparses_by t log'
  | _ :: log' => nparses_by t log'
  end.

Fixpoint nall_done (st : nstate) (k : nat) : bool :=
  match k with
  | 0 => true
  | S k' => (match nt_pc (ns_thr st k'), nt_todo (ns_thr st k') with NIdle, [] => true | _, _ => false end) && nall_done st k'
  end.
