(* C06, resolve stage: the walk over a set of named alias declarations.

   What is modelled (the code as it is, pinned tree + fix commits):
     types/typeset.go:412-438      typeSet.Resolve: every member of `types` is resolved in the order of declaration
                                   under the loader of the type set                                  -> resolve_all
     types/typealiastype.go:155-165 TypeAliasType.Resolve: nothing to do when the alias has a resolved type or is
                                   being resolved (fix 32b5790: a re-entrant request gets the alias as it is);
                                   otherwise resolving := true, resolvedType := expression.Resolve(c)    -> alias_resolve
     types/deferredtype.go:56-76   DeferredType.Resolve: a bare name is looked up (resolver.go:10-16, 35-46: core type,
                                   else the loader, else a TypeReference - an undeclared name is NOT an error here);
                                   Name[args]: the arguments are resolved left to right (resolveValue), then
                                   ResolveWithParams (resolver.go:18-33) calls the creator of the named type -> dt_resolve
     types/typereferencetype.go:109-118 TypeReferenceType.Resolve: parses the name again; the same reference again is
                                   PCORE_UNRESOLVED_TYPE                                                -> ty_resolve (TRef)
     Resolve of Array / Hash / Tuple / Variant / Optional / NotUndef / Type (arraytype.go:241 ..): resolve(c, member)
                                   for every contained type (types.go:89-93)                            -> ty_resolve
     types/objecttype.go:383-400   InitFromHash of an Object type written in place: the parent is resolved
                                   (pt.Resolve(c): this is the one place where resolving an alias asks for another - or
                                   the same - alias to be resolved), then resolvedParent
     types/objecttype.go:1337-1362 resolvedParent: follows the resolved types of aliases with a list of the aliases seen;
                                   an alias met twice or anything that is no Object is PCORE_ILLEGAL_OBJECT_INHERITANCE,
                                   an alias without resolved type is PCORE_UNRESOLVED_TYPE (typealiastype.go:167-172) -> rp_loop
   The loader lookup (loader.go:248-261, typeset.go:364-372) is the finite map `state` itself: a name is declared or not.
   The pinned tree has NO error for an alias that leads only to itself (A = A, A = Variant[A], A = B with B = A): such a
   set resolves; the model follows the code (design_notes/C06.md, "Left as it is").

   A type is kept as far as the walk reads it: the head of a container with its contained types (they are resolved
   again when the container is the parent of an Object), an Object type as such. A name is a number; the harness
   numbers the names of a text. *)
From Coq Require Import List Arith Bool Lia.
Import ListNotations.

(* which container: the walk treats them alike, the printer (below) and the assignability test do not *)
Inductive k1 : Type := KArray | KOptional | KNotUndef | KType.
Inductive k2 : Type := KHash | KTuple | KVariant.

(* the expression of a declaration (a *DeferredType) *)
Inductive aexp : Type :=
| XCore                         (* a core type name without arguments: Integer, String, .. (resolver.go:11) *)
| XName (n : nat)               (* any other name: looked up in the loader *)
| XCont1 (k : k1) (e : aexp)            (* Array[e], Optional[e], NotUndef[e], Type[e]: the creator stores the type unasked *)
| XCont2 (k : k2) (a b : aexp)          (* Hash[a, b], Tuple[a, b], Variant[a, b] *)
| XVar1 (e : aexp)              (* Variant[e]: the member itself (varianttype.go:52-56) *)
| XArgs (n : nat) (e : aexp)    (* Name[e] for a name that is no core type *)
| XObj0                         (* Object[{}] *)
| XObj (p : aexp).              (* Object[{parent => p}] written in place *)

Inductive rty : Type :=
| TCore
| TRef (n : nat)                (* *TypeReferenceType *)
| TAlias (n : nat)              (* the *TypeAliasType declared under the name n (a pointer: its state is in `state`) *)
| TC1 (k : k1) (t : rty)
| TC2 (k : k2) (a b : rty)
| TObj.

(* TypeAliasType{resolvedType, resolving} *)
Inductive slot : Type := SUnres | SResolving | SDone (t : rty).

Definition state := list (nat * (aexp * slot)).

Fixpoint lookup (st : state) (n : nat) : option (aexp * slot) :=
  match st with
  | [] => None
  | (m, v) :: st' => if Nat.eqb m n then Some v else lookup st' n
  end.

Definition set_slot (st : state) (n : nat) (s : slot) : state :=
  map (fun x => if Nat.eqb (fst x) n then (fst x, (fst (snd x), s)) else x) st.

Definition init_state (decls : list (nat * aexp)) : state :=
  map (fun d => (fst d, (snd d, SUnres))) decls.

Inductive ecode : Type :=
| EUnresolvedType          (* PCORE_UNRESOLVED_TYPE *)
| EIllegalInheritance      (* PCORE_ILLEGAL_OBJECT_INHERITANCE *)
| ENotParameterized        (* PCORE_NOT_PARAMETERIZED_TYPE: Name[..] for a declared alias (resolver.go:32) *)
| EIllegalArgument         (* PCORE_ILLEGAL_ARGUMENT_TYPE: Name[type] for an undeclared name, the creator of TypeReference *)
| EIllegalArgumentOrUnresolved      (* one of the two: the model does not predict whether wording the error raises *)
| EIllegalInheritanceOrUnresolved.

Inductive rres : Type := ROk (st : state) (t : rty) | RErr (c : ecode) | ROutOfFuel.

Definition rbind (r : rres) (k : state -> rty -> rres) : rres :=
  match r with ROk st t => k st t | RErr c => RErr c | ROutOfFuel => ROutOfFuel end.

(* resolver.go:10-16, 35-46 for a name that is no core type *)
Definition name_type (st : state) (n : nat) : rty :=
  match lookup st n with Some _ => TAlias n | None => TRef n end.

(* objecttype.go:1337-1362 *)
Inductive pres : Type := PObj | PUnresolved | PIllegal | POutOfFuel.

Fixpoint rp_loop (fuel : nat) (st : state) (seen : list nat) (tp : rty) : pres :=
  match fuel with
  | O => POutOfFuel
  | S f =>
    match tp with
    | TObj => PObj
    | TAlias n =>
      if existsb (Nat.eqb n) seen then PIllegal
      else match lookup st n with
           | Some (_, SDone t) => rp_loop f st (n :: seen) t      (* tp = at.ResolvedType() *)
           | _ => PUnresolved                                      (* ResolvedType() raises *)
           end
    | _ => PIllegal
    end
  end.

Definition resolved_parent (st : state) (tp : rty) : pres := rp_loop (S (length st)) st [] tp.

(* ---- the printer that words PCORE_ILLEGAL_ARGUMENT_TYPE (types.go:212 px.DetailedValueType(actual).String()) and
        PCORE_ILLEGAL_OBJECT_INHERITANCE (objecttype.go:1379-1382 illegalParent: tp.PType().String()) with a type.
   Both print Type[t]: TypeToString / basicTypeToString (types.go:220-262) write the name and then the list of
   Parameters() as an Array value (WrapValues(params).ToString, arraytype.go:628); the Array value asks for its own type
   (PType = privateReducedType, arraytype.go:817-833), which folds commonType (commonality.go:12) over the types of
   the elements: for the parameters [a, b] of Hash / Tuple / Variant that is commonType(Type[a], Type[b]) =
   isAssignable(Type[a], Type[b]), then isAssignable(Type[b], Type[a]), then (both TypeType) the same for a and b, then
   the element types of two Array / NotUndef / Type. An alias prints as its name (typealiastype.go:178-199: the
   format is never %#b), so the printer never walks into an alias - but the assignability test does, and
   TypeAliasType.IsAssignable (typealiastype.go:122-132) asks ResolvedType(), which raises PCORE_UNRESOLVED_TYPE for an
   alias that has no resolved type (:167-172): the error that was being worded is replaced by that one.
   The format lookups (px.GetFormat over DefaultFormats, format.go:136-145) and the tail of commonType
   (isCommonNumeric .. isCommonRichData) have a fixed core type on the left and an alias without resolved type on the
   right is `false` (types.go:137-148 with the nil resolved type, :118), so they never raise. ---- *)

Inductive tri : Type := TT | TF | TRaise | TUnk.      (* true / false / raises PCORE_UNRESOLVED_TYPE / not modelled *)

(* a type or the Undef type (undefTypeDefault: Optional and NotUndef ask about it) *)
Inductive aty : Type := AUndef | AT (t : rty).

Definition k1_eqb (a b : k1) : bool :=
  match a, b with KArray, KArray | KOptional, KOptional | KNotUndef, KNotUndef | KType, KType => true | _, _ => false end.
Definition k2_eqb (a b : k2) : bool :=
  match a, b with KHash, KHash | KTuple, KTuple | KVariant, KVariant => true | _, _ => false end.

Fixpoint rty_eqb (a b : rty) : bool :=
  match a, b with
  | TCore, TCore | TObj, TObj => true
  | TRef n, TRef m | TAlias n, TAlias m => Nat.eqb n m
  | TC1 k x, TC1 k' x' => k1_eqb k k' && rty_eqb x x'
  | TC2 k x y, TC2 k' x' y' => k2_eqb k k' && rty_eqb x x' && rty_eqb y y'
  | _, _ => false
  end.

Definition aty_eqb (a b : aty) : bool :=
  match a, b with AUndef, AUndef => true | AT x, AT y => rty_eqb x y | _, _ => false end.

(* a == b of types.go:114 as far as the model can tell: the same alias, the one Integer type, the one Undef type *)
Definition same_ptr (a b : aty) : bool :=
  match a, b with
  | AUndef, AUndef | AT TCore, AT TCore => true
  | AT (TAlias n), AT (TAlias m) => Nat.eqb n m
  | _, _ => false
  end.

Definition resolved_of (st : state) (n : nat) : option rty :=
  match lookup st n with Some (_, SDone t) => Some t | _ => None end.

(* px.Guard: the pairs under comparison; the functional list is released on return as g.Done does *)
Definition seen_pair (g : list (aty * aty)) (a b : aty) : bool :=
  existsb (fun p => aty_eqb (fst p) a && aty_eqb (snd p) b) g.

Definition same_shape_result (r : tri) : tri := match r with TT => TT | _ => TUnk end.

(* GuardedIsAssignable (types.go:113-153) and X.IsAssignable of the types of the model *)
Fixpoint asg (fuel : nat) (st : state) (g : list (aty * aty)) (a b : aty) {struct fuel} : tri :=
  match fuel with
  | O => TUnk
  | S f =>
    if same_ptr a b then TT
    else
    let r :=
    match b with
    | AT (TC1 KNotUndef x) =>                                  (* :122-130 *)
      match asg f st g a (AT x) with
      | TT => TT
      | TF => match asg f st g (AT x) AUndef with
              | TF => TF
              | TT => asg_left f st g a b
              | r => r
              end
      | r => r
      end
    | AT (TC1 KOptional x) =>                                  (* :131-136 *)
      match asg f st g a AUndef with
      | TT => asg f st g a (AT x)
      | r => r
      end
    | AT (TAlias m) =>                                         (* :137-148: the nil resolved type is `false` (:118) *)
      if seen_pair g a b then TT
      else match resolved_of st m with
           | Some t => asg f st ((a, b) :: g) a (AT t)
           | None => TF
           end
    | AT (TC2 KVariant x y) =>                                 (* :149-150 allAssignableTo *)
      match asg f st g a (AT x) with
      | TT => asg f st g a (AT y)
      | r => r
      end
    | _ => asg_left f st g a b
    end in
    (* two containers of the same shape may be one and the same Go object (reached twice through the resolved type of
       an alias: a == b, true at once) or two objects; the model does not know which *)
    if aty_eqb a b then same_shape_result r else r
  end

with asg_left (fuel : nat) (st : state) (g : list (aty * aty)) (a b : aty) {struct fuel} : tri :=
  match fuel with
  | O => TUnk
  | S f =>
    match a with
    | AUndef => match b with AUndef => TT | _ => TF end                        (* undeftype.go:44 *)
    | AT TCore => match b with AT TCore => TT | _ => TF end                    (* integertype.go:234 *)
    | AT (TRef n) => match b with AT (TRef m) => if Nat.eqb n m then TT else TF | _ => TF end   (* typereferencetype.go:73 *)
    | AT (TC1 KArray x) =>                                                     (* arraytype.go:187-208, sizes 0.. / 2..2 *)
      match b with
      | AT (TC1 KArray y) => asg f st g (AT x) (AT y)
      | AT (TC2 KTuple y z) =>
        match asg f st g (AT x) (AT y) with TT => asg f st g (AT x) (AT z) | r => r end
      | _ => TF
      end
    | AT (TC1 KOptional x) =>                                                  (* optionaltype.go:95 *)
      match asg f st g AUndef b with TF => asg f st g (AT x) b | r => r end
    | AT (TC1 KNotUndef x) =>                                                  (* notundeftype.go:95 *)
      match asg f st g b AUndef with TT => TF | TF => asg f st g (AT x) b | r => r end
    | AT (TC1 KType x) =>                                                      (* typetype.go:102 *)
      match b with AT (TC1 KType y) => asg f st g (AT x) (AT y) | _ => TF end
    | AT (TC2 KHash k v) =>                                                    (* hashtype.go:285-291 *)
      match b with
      | AT (TC2 KHash k' v') =>
        match asg f st g (AT k) (AT k') with TT => asg f st g (AT v) (AT v') | r => r end
      | _ => TF
      end
    | AT (TC2 KTuple x y) =>                                                   (* tupletype.go:238-291: 2..2 takes no Array *)
      match b with
      | AT (TC2 KTuple x' y') =>
        match asg f st g (AT x) (AT x') with TT => asg f st g (AT y) (AT y') | r => r end
      | _ => TF
      end
    | AT (TC2 KVariant x y) =>                                                 (* varianttype.go:104 *)
      match asg f st g (AT x) b with TF => asg f st g (AT y) b | r => r end
    | AT (TAlias n) =>                                                         (* typealiastype.go:122-132 *)
      if seen_pair g a b then TT
      else match resolved_of st n with
           | Some t => asg f st ((a, b) :: g) (AT t) b
           | None => TRaise                                                    (* ResolvedType() :167-172 *)
           end
    | AT TObj => match b with AT TObj => TUnk | _ => TF end                    (* objecttype.go:677-686; two Object types: not modelled *)
    end
  end.

Inductive ppred : Type := PFine | PRaises | PUnknown.

Definition pjoin (a b : ppred) : ppred :=
  match a, b with
  | PRaises, _ | _, PRaises => PRaises
  | PUnknown, _ | _, PUnknown => PUnknown
  | PFine, PFine => PFine
  end.

Definition print_fuel : nat := 24.

(* commonType(Type[a], Type[b]) (commonality.go:12-26, :129-132, :72-78, :106-109); two Tuple types
   (CommonElementType) and two Variant types (UniqueTypes) are not modelled *)
Fixpoint common_pred (st : state) (a b : rty) {struct a} : ppred :=
  match asg print_fuel st [] (AT a) (AT b) with
  | TT => PFine | TRaise => PRaises | TUnk => PUnknown
  | TF =>
    match asg print_fuel st [] (AT b) (AT a) with
    | TT => PFine | TRaise => PRaises | TUnk => PUnknown
    | TF =>
      match a, b with
      | TC1 KArray x, TC1 KArray y => common_pred st x y
      | TC1 KNotUndef x, TC1 KNotUndef y => common_pred st x y
      | TC1 KType x, TC1 KType y => common_pred st x y
      | TC2 KTuple _ _, TC2 KTuple _ _ => PUnknown
      | TC2 KVariant _ _, TC2 KVariant _ _ => PUnknown
      | _, _ => PFine
      end
    end
  end.

(* the walk of the printer over the type: the parameter list first, then every parameter *)
Fixpoint print_walk (st : state) (t : rty) : ppred :=
  match t with
  | TC2 _ a b => pjoin (common_pred st a b) (pjoin (print_walk st a) (print_walk st b))
  | TC1 _ a => print_walk st a
  | _ => PFine
  end.

(* can an alias without resolved type be reached from t at all (through containers and the resolved types of
   aliases)? If not, nothing can raise. `taint k` is exact after as many rounds as there are declarations. *)
Fixpoint tmentions (p : nat -> bool) (t : rty) : bool :=
  match t with
  | TAlias n => p n
  | TC1 _ a => tmentions p a
  | TC2 _ a b => tmentions p a || tmentions p b
  | _ => false
  end.

Fixpoint taint (k : nat) (st : state) (n : nat) : bool :=
  match lookup st n with
  | Some (_, SDone t) => match k with O => false | S k' => tmentions (taint k' st) t end
  | Some _ => true
  | None => false
  end.

Definition tainted (st : state) (t : rty) : bool := tmentions (taint (length st) st) t.

Definition print_pred (st : state) (t : rty) : ppred :=
  if tainted st t then print_walk st t else PFine.

(* the type the loop of resolvedParent stands at when it gives up (the one illegalParent words) *)
Fixpoint rp_culprit (fuel : nat) (st : state) (seen : list nat) (tp : rty) : rty :=
  match fuel with
  | O => tp
  | S f =>
    match tp with
    | TAlias n =>
      if existsb (Nat.eqb n) seen then tp
      else match lookup st n with
           | Some (_, SDone t) => rp_culprit f st (n :: seen) t
           | _ => tp
           end
    | _ => tp
    end
  end.

Definition illegal_parent_type (st : state) (tp : rty) : rty := rp_culprit (S (length st)) st [] tp.

(* the error as it leaves the wording *)
Definition worded (c either : ecode) (p : ppred) : ecode :=
  match p with PFine => c | PRaises => EUnresolvedType | PUnknown => either end.

Fixpoint dt_resolve (fuel : nat) (st : state) (e : aexp) {struct fuel} : rres :=
  match fuel with
  | O => ROutOfFuel
  | S f =>
    match e with
    | XCore => ROk st TCore
    | XName n => ROk st (name_type st n)
    | XCont1 k a => rbind (dt_resolve f st a) (fun st1 ta => ROk st1 (TC1 k ta))
    | XCont2 k a b =>
      rbind (dt_resolve f st a) (fun st1 ta =>
      rbind (dt_resolve f st1 b) (fun st2 tb => ROk st2 (TC2 k ta tb)))
    | XVar1 a => dt_resolve f st a
    | XArgs n a =>
      (* the arguments first (deferredtype.go:68), then the creator of what the name stands for *)
      rbind (dt_resolve f st a) (fun st1 ta =>
        match lookup st1 n with
        | Some _ => RErr ENotParameterized
        | None => RErr (worded EIllegalArgument EIllegalArgumentOrUnresolved (print_pred st1 ta))   (* types.go:212 *)
        end)
    | XObj0 => ROk st TObj
    | XObj p =>
      rbind (dt_resolve f st p) (fun st1 tp =>
      rbind (ty_resolve f st1 tp) (fun st2 tp' =>            (* objecttype.go:387 t.parent = pt.Resolve(c) *)
        match resolved_parent st2 tp' with                    (* :399-400 *)
        | PObj => ROk st2 TObj
        | PUnresolved => RErr EUnresolvedType
        | PIllegal => RErr (worded EIllegalInheritance EIllegalInheritanceOrUnresolved
                                   (print_pred st2 (illegal_parent_type st2 tp')))      (* :1379-1382 *)
        | POutOfFuel => ROutOfFuel
        end))
    end
  end

(* typealiastype.go:155-165 *)
with alias_resolve (fuel : nat) (st : state) (n : nat) {struct fuel} : rres :=
  match fuel with
  | O => ROutOfFuel
  | S f =>
    match lookup st n with
    | Some (d, SUnres) =>
      rbind (dt_resolve f (set_slot st n SResolving) d) (fun st1 t => ROk (set_slot st1 n (SDone t)) (TAlias n))
    | _ => ROk st (TAlias n)
    end
  end

(* X.Resolve(c) of a type value; types.go:89-93 for the contained types *)
with ty_resolve (fuel : nat) (st : state) (t : rty) {struct fuel} : rres :=
  match fuel with
  | O => ROutOfFuel
  | S f =>
    match t with
    | TCore => ROk st TCore
    | TObj => ROk st TObj                                      (* objecttype.go:779-782: initialized already *)
    | TAlias n => alias_resolve f st n
    | TRef n =>
      (* typereferencetype.go:109-118: c.ParseType(name) *)
      match lookup st n with
      | None => RErr EUnresolvedType
      | Some _ => alias_resolve f st n
      end
    | TC1 k a => rbind (ty_resolve f st a) (fun st1 a' => ROk st1 (TC1 k a'))
    | TC2 k a b =>
      rbind (ty_resolve f st a) (fun st1 a' =>
      rbind (ty_resolve f st1 b) (fun st2 b' => ROk st2 (TC2 k a' b')))
    end
  end.

(* sizes: the fuel bound *)
Fixpoint esize (e : aexp) : nat :=
  match e with
  | XCore | XObj0 => 1
  | XName _ => 2
  | XCont1 _ a | XVar1 a | XArgs _ a | XObj a => S (esize a)
  | XCont2 _ a b => S (esize a + esize b)
  end.

Fixpoint tsize (t : rty) : nat :=
  match t with
  | TCore | TObj => 1
  | TRef _ | TAlias _ => 2
  | TC1 _ a => S (tsize a)
  | TC2 _ a b => S (tsize a + tsize b)
  end.

(* what the aliases that nobody has asked for yet can still cost *)
Fixpoint weight (st : state) : nat :=
  match st with
  | [] => 0
  | (_, (d, SUnres)) :: st' => S (esize d) + weight st'
  | _ :: st' => weight st'
  end.

(* typeset.go:427-436: the members in the order of declaration *)
Fixpoint resolve_names (fuel : nat) (st : state) (ns : list nat) : rres :=
  match ns with
  | [] => ROk st TCore
  | n :: ns' => rbind (alias_resolve fuel st n) (fun st1 _ => resolve_names fuel st1 ns')
  end.

Definition set_fuel (decls : list (nat * aexp)) : nat := S (weight (init_state decls)).

Definition resolve_all (decls : list (nat * aexp)) : rres :=
  resolve_names (set_fuel decls) (init_state decls) (map fst decls).

(* an expression resolved against a declared set, as Context.ParseType does with the loader of the set *)
Definition resolve_in (decls : list (nat * aexp)) (e : aexp) : rres :=
  dt_resolve (esize e + weight (init_state decls)) (init_state decls) e.

(* observables for the correspondence *)
Definition rres_class (r : rres) : nat :=
  match r with
  | ROk _ _ => 0
  | RErr EUnresolvedType => 1
  | RErr EIllegalInheritance => 2
  | RErr ENotParameterized => 3
  | RErr EIllegalArgument => 4
  | RErr EIllegalArgumentOrUnresolved => 41
  | RErr EIllegalInheritanceOrUnresolved => 21
  | ROutOfFuel => 9
  end.

(* the head of the resolved type of every declared alias, in the order of declaration:
   0 core, 1 TypeReference, 2 alias, 3 container, 4 Object, 5 none *)
Definition head_kind (s : slot) : nat :=
  match s with
  | SDone TCore => 0 | SDone (TRef _) => 1 | SDone (TAlias _) => 2
  | SDone (TC1 _ _) | SDone (TC2 _ _ _) => 3 | SDone TObj => 4
  | _ => 5
  end.

Definition resolved_heads (r : rres) : list nat :=
  match r with
  | ROk st _ => map (fun x => head_kind (snd (snd x))) st
  | _ => []
  end.
