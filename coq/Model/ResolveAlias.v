(* C06, resolve stage: the walk over a set of named alias declarations.

   What is modelled (the code as it is, pinned tree + fix commits):
     types/typeset.go:412-438      typeSet.Resolve: every member of `types` is resolved in the order of declaration
                                   under the loader of the type set                                  -> resolve_all
     types/typealiastype.go:155-165 TypeAliasType.Resolve: nothing to do when the alias has a resolved type or is
                                   being resolved (fix 32b5790: a re-entrant request gets the alias as it is);
                                   otherwise resolving := true, resolvedType := expression.Resolve(c)    -> alias_resolve
     types/deferredtype.go:56-76   DeferredType.Resolve: a bare name is looked up (resolver.go:10-16, 35-46: core type,
                                   else the loader, else a TypeReference - an undeclared name is NOT an error here);
                                   Name[args]: the arguments are resolved left to right (resolveValue), then
                                   ResolveWithParams (resolver.go:18-33) calls the creator of the named type -> dt_resolve
     types/typereferencetype.go:109-118 TypeReferenceType.Resolve: parses the name again; the same reference again is
                                   PCORE_UNRESOLVED_TYPE                                                -> ty_resolve (TRef)
     Resolve of Array / Hash / Tuple / Variant / Optional / NotUndef / Type (arraytype.go:241 ..): resolve(c, member)
                                   for every contained type (types.go:89-93)                            -> ty_resolve
     types/objecttype.go:383-400   InitFromHash of an Object type written in place: the parent is resolved
                                   (pt.Resolve(c): this is the one place where resolving an alias asks for another - or
                                   the same - alias to be resolved), then resolvedParent
     types/objecttype.go:1337-1362 resolvedParent: follows the resolved types of aliases with a list of the aliases seen;
                                   an alias met twice or anything that is no Object is PCORE_ILLEGAL_OBJECT_INHERITANCE,
                                   an alias without resolved type is PCORE_UNRESOLVED_TYPE (typealiastype.go:167-172) -> rp_loop
   The loader lookup (loader.go:248-261, typeset.go:364-372) is the finite map `state` itself: a name is declared or not.
   The pinned tree has NO error for an alias that leads only to itself (A = A, A = Variant[A], A = B with B = A): such a
   set resolves; the model follows the code (design_notes/C06.md, "Left as it is").

   A type is kept as far as the walk reads it: the head of a container with its contained types (they are resolved
   again when the container is the parent of an Object), an Object type as such. A name is a number; the harness
   numbers the names of a text. *)
From Coq Require Import List Arith Bool Lia.
Import ListNotations.

(* the expression of a declaration (a *DeferredType) *)
Inductive aexp : Type :=
| XCore                         (* a core type name without arguments: Integer, String, .. (resolver.go:11) *)
| XName (n : nat)               (* any other name: looked up in the loader *)
| XCont1 (e : aexp)             (* Array[e], Optional[e], NotUndef[e], Type[e]: the creator stores the type unasked *)
| XCont2 (a b : aexp)           (* Hash[a, b], Tuple[a, b], Variant[a, b] *)
| XVar1 (e : aexp)              (* Variant[e]: the member itself (varianttype.go:52-56) *)
| XArgs (n : nat) (e : aexp)    (* Name[e] for a name that is no core type *)
| XObj0                         (* Object[{}] *)
| XObj (p : aexp).              (* Object[{parent => p}] written in place *)

Inductive rty : Type :=
| TCore
| TRef (n : nat)                (* *TypeReferenceType *)
| TAlias (n : nat)              (* the *TypeAliasType declared under the name n (a pointer: its state is in `state`) *)
| TC1 (t : rty)
| TC2 (a b : rty)
| TObj.

(* TypeAliasType{resolvedType, resolving} *)
Inductive slot : Type := SUnres | SResolving | SDone (t : rty).

Definition state := list (nat * (aexp * slot)).

Fixpoint lookup (st : state) (n : nat) : option (aexp * slot) :=
  match st with
  | [] => None
  | (m, v) :: st' => if Nat.eqb m n then Some v else lookup st' n
  end.

Definition set_slot (st : state) (n : nat) (s : slot) : state :=
  map (fun x => if Nat.eqb (fst x) n then (fst x, (fst (snd x), s)) else x) st.

Definition init_state (decls : list (nat * aexp)) : state :=
  map (fun d => (fst d, (snd d, SUnres))) decls.

Inductive ecode : Type :=
| EUnresolvedType          (* PCORE_UNRESOLVED_TYPE *)
| EIllegalInheritance      (* PCORE_ILLEGAL_OBJECT_INHERITANCE *)
| ENotParameterized        (* PCORE_NOT_PARAMETERIZED_TYPE: Name[..] for a declared alias (resolver.go:32) *)
| EIllegalArgument.        (* PCORE_ILLEGAL_ARGUMENT_TYPE: Name[type] for an undeclared name, the creator of TypeReference *)

Inductive rres : Type := ROk (st : state) (t : rty) | RErr (c : ecode) | ROutOfFuel.

Definition rbind (r : rres) (k : state -> rty -> rres) : rres :=
  match r with ROk st t => k st t | RErr c => RErr c | ROutOfFuel => ROutOfFuel end.

(* resolver.go:10-16, 35-46 for a name that is no core type *)
Definition name_type (st : state) (n : nat) : rty :=
  match lookup st n with Some _ => TAlias n | None => TRef n end.

(* objecttype.go:1337-1362 *)
Inductive pres : Type := PObj | PUnresolved | PIllegal | POutOfFuel.

Fixpoint rp_loop (fuel : nat) (st : state) (seen : list nat) (tp : rty) : pres :=
  match fuel with
  | O => POutOfFuel
  | S f =>
    match tp with
    | TObj => PObj
    | TAlias n =>
      if existsb (Nat.eqb n) seen then PIllegal
      else match lookup st n with
           | Some (_, SDone t) => rp_loop f st (n :: seen) t      (* tp = at.ResolvedType() *)
           | _ => PUnresolved                                      (* ResolvedType() raises *)
           end
    | _ => PIllegal
    end
  end.

Definition resolved_parent (st : state) (tp : rty) : pres := rp_loop (S (length st)) st [] tp.

Fixpoint dt_resolve (fuel : nat) (st : state) (e : aexp) {struct fuel} : rres :=
  match fuel with
  | O => ROutOfFuel
  | S f =>
    match e with
    | XCore => ROk st TCore
    | XName n => ROk st (name_type st n)
    | XCont1 a => rbind (dt_resolve f st a) (fun st1 ta => ROk st1 (TC1 ta))
    | XCont2 a b =>
      rbind (dt_resolve f st a) (fun st1 ta =>
      rbind (dt_resolve f st1 b) (fun st2 tb => ROk st2 (TC2 ta tb)))
    | XVar1 a => dt_resolve f st a
    | XArgs n a =>
      (* the arguments first (deferredtype.go:68), then the creator of what the name stands for *)
      rbind (dt_resolve f st a) (fun st1 _ =>
        match lookup st1 n with
        | Some _ => RErr ENotParameterized
        | None => RErr EIllegalArgument
        end)
    | XObj0 => ROk st TObj
    | XObj p =>
      rbind (dt_resolve f st p) (fun st1 tp =>
      rbind (ty_resolve f st1 tp) (fun st2 tp' =>            (* objecttype.go:387 t.parent = pt.Resolve(c) *)
        match resolved_parent st2 tp' with                    (* :399-400 *)
        | PObj => ROk st2 TObj
        | PUnresolved => RErr EUnresolvedType
        | PIllegal => RErr EIllegalInheritance
        | POutOfFuel => ROutOfFuel
        end))
    end
  end

(* typealiastype.go:155-165 *)
with alias_resolve (fuel : nat) (st : state) (n : nat) {struct fuel} : rres :=
  match fuel with
  | O => ROutOfFuel
  | S f =>
    match lookup st n with
    | Some (d, SUnres) =>
      rbind (dt_resolve f (set_slot st n SResolving) d) (fun st1 t => ROk (set_slot st1 n (SDone t)) (TAlias n))
    | _ => ROk st (TAlias n)
    end
  end

(* X.Resolve(c) of a type value; types.go:89-93 for the contained types *)
with ty_resolve (fuel : nat) (st : state) (t : rty) {struct fuel} : rres :=
  match fuel with
  | O => ROutOfFuel
  | S f =>
    match t with
    | TCore => ROk st TCore
    | TObj => ROk st TObj                                      (* objecttype.go:779-782: initialized already *)
    | TAlias n => alias_resolve f st n
    | TRef n =>
      (* typereferencetype.go:109-118: c.ParseType(name) *)
      match lookup st n with
      | None => RErr EUnresolvedType
      | Some _ => alias_resolve f st n
      end
    | TC1 a => rbind (ty_resolve f st a) (fun st1 a' => ROk st1 (TC1 a'))
    | TC2 a b =>
      rbind (ty_resolve f st a) (fun st1 a' =>
      rbind (ty_resolve f st1 b) (fun st2 b' => ROk st2 (TC2 a' b')))
    end
  end.

(* sizes: the fuel bound *)
Fixpoint esize (e : aexp) : nat :=
  match e with
  | XCore | XObj0 => 1
  | XName _ => 2
  | XCont1 a | XVar1 a | XArgs _ a | XObj a => S (esize a)
  | XCont2 a b => S (esize a + esize b)
  end.

Fixpoint tsize (t : rty) : nat :=
  match t with
  | TCore | TObj => 1
  | TRef _ | TAlias _ => 2
  | TC1 a => S (tsize a)
  | TC2 a b => S (tsize a + tsize b)
  end.

(* what the aliases that nobody has asked for yet can still cost *)
Fixpoint weight (st : state) : nat :=
  match st with
  | [] => 0
  | (_, (d, SUnres)) :: st' => S (esize d) + weight st'
  | _ :: st' => weight st'
  end.

(* typeset.go:427-436: the members in the order of declaration *)
Fixpoint resolve_names (fuel : nat) (st : state) (ns : list nat) : rres :=
  match ns with
  | [] => ROk st TCore
  | n :: ns' => rbind (alias_resolve fuel st n) (fun st1 _ => resolve_names fuel st1 ns')
  end.

Definition set_fuel (decls : list (nat * aexp)) : nat := S (weight (init_state decls)).

Definition resolve_all (decls : list (nat * aexp)) : rres :=
  resolve_names (set_fuel decls) (init_state decls) (map fst decls).

(* an expression resolved against a declared set, as Context.ParseType does with the loader of the set *)
Definition resolve_in (decls : list (nat * aexp)) (e : aexp) : rres :=
  dt_resolve (esize e + weight (init_state decls)) (init_state decls) e.

(* observables for the correspondence *)
Definition rres_class (r : rres) : nat :=
  match r with
  | ROk _ _ => 0
  | RErr EUnresolvedType => 1
  | RErr EIllegalInheritance => 2
  | RErr ENotParameterized => 3
  | RErr EIllegalArgument => 4
  | ROutOfFuel => 9
  end.

(* the head of the resolved type of every declared alias, in the order of declaration:
   0 core, 1 TypeReference, 2 alias, 3 container, 4 Object, 5 none *)
Definition head_kind (s : slot) : nat :=
  match s with
  | SDone TCore => 0 | SDone (TRef _) => 1 | SDone (TAlias _) => 2
  | SDone (TC1 _) | SDone (TC2 _ _) => 3 | SDone TObj => 4
  | _ => 5
  end.

Definition resolved_heads (r : rres) : list nat :=
  match r with
  | ROk st _ => map (fun x => head_kind (snd (snd x))) st
  | _ => []
  end.
