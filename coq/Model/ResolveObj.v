(* ResolveObj.v — model of two more pieces of the resolve stage of Context.ParseType, both reached only through
   user-declared Object types (in one text: the members of a `type T = TypeSet[{... types => {A => Object[..],
   B => ..}}]`, or an Object whose parent is written in place):

     - the override check of a member that an Object type declares under the name of an inherited member:
       attribute.initialize (types/attribute.go:40-50: a constant is final), the constants section of
       objectType.InitFromHash (types/objecttype.go:446-459: a constant overrides exactly when something is
       inherited under its name), assertOverride and assertCanBeOverridden (types/annotatedmember.go:78-104);
     - the parameter walk of objectTypeExtension.initialize (types/objecttypeextension.go:168-217), reached from
       ResolveWithParams (types/resolver.go:20) when `Name[...]` names an Object type that has type parameters.

   Definitions only.  One Gallina function per Go function, same order of tests.  Every implicit fault site is an
   explicit branch: the unchecked type assertion member.(px.Attribute) of annotatedmember.go:95 (OFault) and the
   index initParameters[idx] of objecttypeextension.go:207 (XFault).

   Not modelled (the correspondence cases are built so that these do not decide, see CorrC06.v): px.IsAssignable of
   the two member types (the last test of assertCanBeOverridden: outcome OPass stands for "the type comparison
   decides"), px.AssertInstance of a parameter value against the parameter's type (an argument of the model: the
   value is the default, fits, or does not fit), the choice between named and positional arguments (a single hash
   that is no instance of the first parameter's type). *)
From Coq Require Import Arith Bool List.
Import ListNotations.

(* ---- declarations of members ------------------------------------------------------------------------------ *)

Inductive decl :=
  | DcAttr (is_constant : bool) (final_given : option bool) (override : bool)
      (* attributes => {x => T} or {x => {type => T, kind => .., final => .., override => ..}} *)
  | DcConst                                   (* constants => {x => value} *)
  | DcFunc (final override : bool).           (* functions => {x => T} or {x => {type => T, final => .., override => ..}} *)

Inductive feature := FAttribute | FFunction.

Definition feature_eqb (a b : feature) : bool :=
  match a, b with FAttribute, FAttribute | FFunction, FFunction => true | _, _ => false end.

(* what the checks read of a px.AnnotatedMember: FeatureType(), (for an attribute) Kind() == constant, Final(),
   Override() *)
Record member := mkMember { mb_feature : feature; mb_constant : bool; mb_final : bool; mb_override : bool }.

Inductive ocode := MemberMismatch | OverrideOfFinal | OverrideIsMissing | OverriddenNotFound | ConstantWithFinal.

Inductive ores :=
  | OPass             (* every test before the type comparison passed: px.IsAssignable(a.Type(), member.Type()) decides *)
  | ONoParent         (* nothing is inherited under this name and override is not asked for *)
  | OErr (c : ocode)  (* a reported error *)
  | OFault.           (* a failed type assertion *)

(* attribute.go:40-50 (`if a.kind == constant { if initHash.IncludesKey2(keyFinal) && !a.final { panic ConstantWithFinal };
   a.final = true }`), objecttype.go:452-458 (constants: kind constant, override = parentMembers.Includes(key)),
   annotatedmember.go:30-31 (final and override default to false) *)
Definition member_of_decl (parent_has : bool) (d : decl) : member + ocode :=
  match d with
  | DcAttr true (Some false) _ => inr ConstantWithFinal
  | DcAttr true _ ov => inl (mkMember FAttribute true true ov)
  | DcAttr false fg ov => inl (mkMember FAttribute false (match fg with Some b => b | None => false end) ov)
  | DcConst => inl (mkMember FAttribute true true parent_has)
  | DcFunc f ov => inl (mkMember FFunction false f ov)
  end.

(* x.(px.Attribute): Some (Kind() == constant) when x is an attribute, None when the assertion fails *)
Definition as_attribute (m : member) : option bool :=
  match mb_feature m with FAttribute => Some (mb_constant m) | FFunction => None end.

(* annotatedmember.go:88-104 *)
Definition assert_can_be_overridden (a m : member) : ores :=
  if negb (feature_eqb (mb_feature a) (mb_feature m)) then OErr MemberMismatch     (* :89 *)
  else
    let final_test : option ores :=                                                (* :92-97 *)
      if mb_final a then
        match as_attribute a with                       (* aa, ok := a.(px.Attribute) *)
        | Some true =>                                  (* ok && aa.Kind() == constant: && evaluates its right operand *)
          match as_attribute m with                     (* member.(px.Attribute), unchecked *)
          | None => Some OFault
          | Some true => None
          | Some false => Some (OErr OverrideOfFinal)
          end
        | _ => Some (OErr OverrideOfFinal)
        end
      else None in
    match final_test with
    | Some r => r
    | None => if negb (mb_override m) then OErr OverrideIsMissing                   (* :98 *)
              else OPass                                                            (* :101 *)
    end.

(* annotatedmember.go:78-86 *)
Definition assert_override (parent : option member) (m : member) : ores :=
  match parent with
  | Some a => assert_can_be_overridden a m
  | None => if mb_override m then OErr OverriddenNotFound else ONoParent
  end.

(* an Object type that declares d under a name under which its parent (which inherits nothing itself) declares
   pd, or nothing: first the parent type is built, then the member, then the check (objecttype.go:484-485, 534-535) *)
Definition declare (parent : option decl) (d : decl) : ores :=
  match parent with
  | None =>
    match member_of_decl false d with
    | inr c => OErr c
    | inl m => assert_override None m
    end
  | Some pd =>
    match member_of_decl false pd with
    | inr c => OErr c
    | inl a =>
      match member_of_decl true d with
      | inr c => OErr c
      | inl m => assert_override (Some a) m
      end
    end
  end.

(* the same two tests in the other order ("final first"): what seeded change C06-m5 made of lines 89-97; used only
   to show that the order of the tests is what keeps the assertion safe (ResolveObjProofs.final_first_faults) *)
Definition final_first (a m : member) : ores :=
  let final_test : option ores :=
    if mb_final a then
      match as_attribute a with
      | Some true =>
        match as_attribute m with
        | None => Some OFault
        | Some true => None
        | Some false => Some (OErr OverrideOfFinal)
        end
      | _ => Some (OErr OverrideOfFinal)
      end
    else None in
  match final_test with
  | Some r => r
  | None =>
    if negb (feature_eqb (mb_feature a) (mb_feature m)) then OErr MemberMismatch
    else if negb (mb_override m) then OErr OverrideIsMissing else OPass
  end.

(* ---- Name[arguments] for an Object type with n type parameters ---------------------------------------------- *)

(* an argument as checkParam (objecttypeextension.go:181) and the test for `default` see it, relative to the
   parameter it is matched with *)
Inductive parg := PgDefault | PgGood | PgBad.

Inductive xargs :=
  | XPositional (l : list parg)
  | XNamed (entries : list (option nat * parg)).     (* name -> Some i: the i-th parameter; None: pts.Get fails *)

Inductive xcode := NotParameterized | EmptyParameterList | ParamTypeMismatch | MissingTypeParameter.

Inductive xres :=
  | XOk (set : list nat)      (* the parameters that were given a value, in the order of byName.Put *)
  | XErr (c : xcode)
  | XFault.

(* objecttypeextension.go:203-213: `for idx, t := range pvs { if idx < len(initParameters) { tp := t.( *typeParameter );
   pv := initParameters[idx]; if !pv.Equals(WrapDefault(), nil) { byName.Put(tp.Name(), checkParam(tp, pv)) } } }`;
   todo = the parameters not yet visited, idx = the index of the next one *)
Fixpoint pos_loop (todo idx : nat) (args : list parg) (acc : list nat) : xres :=
  match todo with
  | O => XOk acc
  | S todo' =>
    if idx <? length args then
      match nth_error args idx with                    (* initParameters[idx] *)
      | None => XFault
      | Some PgDefault => pos_loop todo' (S idx) args acc
      | Some PgGood => pos_loop todo' (S idx) args (acc ++ [idx])
      | Some PgBad => XErr ParamTypeMismatch           (* px.AssertInstance panics *)
      end
    else pos_loop todo' (S idx) args acc
  end.

(* objecttypeextension.go:189-201 *)
Fixpoint named_loop (entries : list (option nat * parg)) (acc : list nat) : xres :=
  match entries with
  | [] => XOk acc
  | (None, _) :: _ => XErr MissingTypeParameter
  | (Some i, PgDefault) :: r => named_loop r acc
  | (Some i, PgGood) :: r => named_loop r (acc ++ [i])
  | (Some i, PgBad) :: _ => XErr ParamTypeMismatch
  end.

(* objecttypeextension.go:168-217 *)
Definition ext_initialize (n : nat) (args : xargs) : xres :=
  if n =? 0 then XErr NotParameterized                                   (* :171 pts.Empty() *)
  else
    let r := match args with
             | XPositional l => pos_loop n 0 l []
             | XNamed es => named_loop es []
             end in
    match r with
    | XOk [] => XErr EmptyParameterList                                   (* :214 byName.Empty() *)
    | _ => r
    end.

(* the walk of seeded change C06-m6: over the arguments instead of the parameters, pvs[idx] unguarded *)
Fixpoint pos_loop_args (n idx : nat) (args : list parg) (acc : list nat) : xres :=
  match args with
  | [] => XOk acc
  | a :: rest =>
    if idx <? n then
      match a with
      | PgDefault => pos_loop_args n (S idx) rest acc
      | PgGood => pos_loop_args n (S idx) rest (acc ++ [idx])
      | PgBad => XErr ParamTypeMismatch
      end
    else XFault                                        (* pvs[idx] *)
  end.
