(* Model of the walk that `describe` (internal/typemismatchdescriber.go:856) makes over the expected type on
   every error path: px.Type.Accept with a nil Guard and a visitor that remembers the first unresolved
   TypeReference.  Universe: ALL type graphs - a type is a tree of constructors whose leaves may be type
   aliases, an alias is a pointer (here: an index into the environment of resolved types), so aliases may
   share members (fan-in), refer to themselves or to each other.

   Go                                                         Gallina
   TypeAliasType.Accept  types/typealiastype.go:69-78          walk, case AAlias: g == nil -> make(px.Guard);
                                                               g.Seen(t, nil) -> return; v(t); resolvedType.Accept(v, g)
   px.Guard.Seen         px/equality.go:27                     `seen` (the keys visit{alias, nil}); the walk never
                                                               calls Done: an alias that has been visited stays seen
   the nil Guard                                               walk_nil: describe passes a nil Guard and every Accept
                                                               hands its own `g` on, so the Guard that the first alias
                                                               on a path makes (:70-72) is seen below that alias only:
                                                               Struct[{a => L, b => L}] walks L twice, each time with
                                                               a new Guard
   XType.Accept of every constructor                           walk, case ANode (v(t), then the contained types in the
                                                               order of the method), the constructors a_* below
   TypeReferenceType.Accept typereferencetype.go:49            ARef
   describe :856-870                                           describe_stage

   Fault site: an alias whose resolvedType is nil (NewTypeAliasType(name, expr, nil) before Resolve):
   `t.resolvedType.Accept` is a method call on a nil interface = WFault; in the model: an index outside the
   environment.  The recursion of Accept is modelled with fuel = depth of the Go call stack (WFuel when
   exhausted); DescribeWalkProofs shows that a fuel linear in the size of the graph is never exhausted and
   that the number of visits is linear - which is what makes the description "produced". *)
From Coq Require Import NArith Bool List Arith.
From PcoreV Require Import Model.Base.
Import ListNotations.

Inductive aty :=
| ALeaf                      (* Accept = v(t): Any, Integer, Float, String, Enum, Boolean, Undef, Default, ... *)
| ARef (name : str)          (* an unresolved TypeReference: v(t) *)
| AAlias (i : nat)           (* a *TypeAliasType: its identity *)
| ANode (ts : list aty).     (* v(t), then Accept of the contained types *)

(* the Accept methods, contained types in the order of the calls *)
Definition a_sized (ts : list aty) : aty := ANode (ALeaf :: ts).          (* t.size.Accept(v, g) first: an Integer type *)
Definition a_array (e : aty) : aty := a_sized [e].                          (* arraytype.go:153 *)
Definition a_hash (k v : aty) : aty := a_sized [k; v].                      (* hashtype.go:243 *)
Definition a_tuple (ts : list aty) : aty := a_sized ts.                     (* tupletype.go:167 *)
Definition a_variant (ts : list aty) : aty := ANode ts.                     (* varianttype.go:71 *)
Definition a_wrap (t : aty) : aty := ANode [t].                             (* Optional :63, NotUndef :63, Type :74, Sensitive :77 *)
(* structtype.go:201 / StructElement.Accept :133: for every member key.Accept, value.Accept; the key is a type:
   a String type of one value (a leaf), or Optional / NotUndef of it *)
Definition a_key (optional : bool) : aty := if optional then a_wrap ALeaf else ALeaf.
Definition a_struct (ms : list (aty * aty)) : aty :=
  ANode (flat_map (fun m => [fst m; snd m]) ms).
(* callabletype.go:147: parameters, block, return - each when present *)
Definition a_callable (par blk ret : option aty) : aty :=
  ANode (match par with Some p => [p] | None => [] end ++
         match blk with Some b => [b] | None => [] end ++
         match ret with Some r => [r] | None => [] end).
Definition a_sc_string : aty := ANode [ALeaf].                              (* stringtype.go:149 scStringType *)

(* what the visitor is called with *)
Inductive ev := VOther | VRef (name : str) | VAlias (i : nat).

Inductive wres (A : Type) := WOk (a : A) | WFault | WFuel.
Arguments WOk {A} a.
Arguments WFault {A}.
Arguments WFuel {A}.

Definition wstate := (list nat * list ev)%type.   (* the guard after the walk, the visits in order *)

Definition mem (i : nat) (l : list nat) : bool := existsb (Nat.eqb i) l.

(* for _, c := range contained { c.Accept(v, g) } *)
Fixpoint walk_list (w : list nat -> aty -> wres wstate) (seen : list nat) (ts : list aty) : wres wstate :=
  match ts with
  | [] => WOk (seen, [])
  | c :: cs =>
      match w seen c with
      | WOk (s1, e1) =>
          match walk_list w s1 cs with
          | WOk (s2, e2) => WOk (s2, e1 ++ e2)
          | r => r
          end
      | r => r
      end
  end.

Fixpoint walk (fuel : nat) (env : list aty) (seen : list nat) (t : aty) : wres wstate :=
  match fuel with
  | 0 => WFuel
  | S f =>
      match t with
      | ALeaf => WOk (seen, [VOther])
      | ARef n => WOk (seen, [VRef n])
      | AAlias i =>
          if mem i seen then WOk (seen, [])                       (* typealiastype.go:73 g.Seen(t, nil) *)
          else match nth_error env i with
               | None => WFault                                   (* :77 nil resolvedType *)
               | Some r =>
                   match walk f env (i :: seen) r with            (* :76 v(t); :77 resolvedType.Accept(v, g) *)
                   | WOk (s', es) => WOk (s', VAlias i :: es)
                   | r' => r'
                   end
               end
      | ANode ts =>
          match walk_list (walk f env) seen ts with
          | WOk (s', es) => WOk (s', VOther :: es)
          | r => r
          end
      end
  end.

(* for _, c := range contained { c.Accept(v, nil) } *)
Fixpoint walk_nil_list (w : aty -> wres (list ev)) (ts : list aty) : wres (list ev) :=
  match ts with
  | [] => WOk []
  | c :: cs =>
      match w c with
      | WOk e1 => match walk_nil_list w cs with
                  | WOk e2 => WOk (e1 ++ e2)
                  | r => r
                  end
      | r => r
      end
  end.

(* Accept(v, nil): as long as no alias has been met the Guard is nil *)
Fixpoint walk_nil (fuel : nat) (env : list aty) (t : aty) : wres (list ev) :=
  match fuel with
  | 0 => WFuel
  | S f =>
      match t with
      | ALeaf => WOk [VOther]
      | ARef n => WOk [VRef n]
      | AAlias _ =>
          match walk fuel env [] t with                           (* typealiastype.go:70 g = make(px.Guard), local *)
          | WOk (_, es) => WOk es
          | WFault => WFault
          | WFuel => WFuel
          end
      | ANode ts =>
          match walk_nil_list (walk_nil f env) ts with
          | WOk es => WOk (VOther :: es)
          | r => r
          end
      end
  end.

Fixpoint depth (t : aty) : nat :=
  match t with
  | ANode ts => S (list_max (map depth ts))
  | _ => 0
  end.

(* visits a type causes by itself: an alias below it is counted with the alias *)
Fixpoint size (t : aty) : nat :=
  match t with
  | ANode ts => S (list_sum (map size ts))
  | AAlias _ => 0
  | _ => 1
  end.

(* every alias below t has a resolved type in an environment of n aliases *)
Fixpoint closed (n : nat) (t : aty) : bool :=
  match t with
  | ANode ts => forallb (closed n) ts
  | AAlias i => Nat.ltb i n
  | _ => true
  end.
Definition closed_env (env : list aty) : bool := forallb (closed (length env)) env.

(* the depth of the Go stack the walk can need: every alias is entered at most once *)
Definition walk_fuel (env : list aty) (t : aty) : nat :=
  S (depth t + list_sum (map (fun b => S (depth b)) env)).
(* the aliases written in t itself: each of them is entered with a Guard of its own *)
Fixpoint occ (t : aty) : nat :=
  match t with
  | ANode ts => list_sum (map occ ts)
  | AAlias _ => 1
  | _ => 0
  end.
(* the number of visits the walk can make *)
Definition visit_bound (env : list aty) (t : aty) : nat :=
  size t + occ t * list_sum (map (fun b => S (size b)) env).

(* expected.Accept(visitor, nil): the visits in order *)
Definition accept (env : list aty) (t : aty) : wres (list ev) := walk_nil (walk_fuel env t) env t.

Fixpoint aliases (es : list ev) : list nat :=
  match es with
  | [] => []
  | VAlias i :: r => i :: aliases r
  | _ :: r => aliases r
  end.

(* the visitor of describe :862-868: the first TypeReference it is called with *)
Fixpoint first_ref (es : list ev) : option str :=
  match es with
  | [] => None
  | VRef n :: _ => Some n
  | _ :: r => first_ref r
  end.

(* describe :856-870 up to the call of internalDescribe; asg = px.IsAssignable(expected, actual) *)
Inductive dstage := DNoMismatch | DUnresolved (name : str) | DInternal.
Definition describe_stage (env : list aty) (e : aty) (asg : bool) : wres dstage :=
  if asg then WOk DNoMismatch                                                   (* :857 *)
  else match accept env e with                                                   (* :862 *)
       | WOk es =>
           match first_ref es with
           | Some n => WOk (DUnresolved n)                                       (* :870 *)
           | None => WOk DInternal                                               (* :872 *)
           end
       | WFault => WFault
       | WFuel => WFuel
       end.

(* L_i = Struct[{left => L_{i+1}, right => L_{i+1}}] for i < n, the last level refers to alias n (or, when
   the environment ends there, is closed by `bottom`): aliases with fan-in 2 *)
Definition ladder_body (i : nat) : aty := a_struct [(a_key false, AAlias (S i)); (a_key false, AAlias (S i))].
Definition ladder (n : nat) (bottom : aty) : list aty := map ladder_body (seq 0 n) ++ [bottom].
