(* FileLoaderText.v — property C15, two small models next to Model/FileLoader.v (definitions only).

   (1) The line that an error about a definition file names.  Model/FileLoader.v takes the two line numbers of a
   file (CMalformed line, f_defline) from the world; here is where they come from, over the TEXT of the file:
     utils/reader.go:18   StringReader.Next: the line counter starts at 1 and grows by one for every '\n' that is
                          consumed; :60 Line()                                      -> count_lf / line_at
     types/parser.go:164  the parser's location: p.sr.Line() at the reader's position when the parser gives up
                          (right after the offending token / character)            -> line_at text pos
     types/lexer.go:102   nextToken skips ' ', '\t', '\n' and, :165 consumeLineComment, '#' up to and including
                          the next '\n' (or the end); a '\r' or a byte order mark is no white space
     types/parser.go:138  DefinitionLocation: the reader is created on the WHOLE content (types/parser.go:93
                          ParseFile likewise); the line where the first token starts, 1 when there is none
                                                                                    -> scan / def_line
   (a NUL byte ends DefinitionLocation's scan like the end of the text: texts with NUL bytes are outside the model).

   (2) Generations: several worlds follow each other in one process over the SAME directory path (the directory is
   removed and written again, pcore.Reset, new loaders with px.NewFileBasedLoader / NewDependencyLoader / the
   runtime).  A new fileBasedLoader has no entries (loader/loader.go:44 basicLoader), no index (filebased.go:321:
   built by the first find from a filepath.Walk of the directory as it is then) and reads a file's content with
   ioutil.ReadFile when it instantiates it (filebased.go:315 GetContent): no package-level state of package loader
   or types survives from the loaders before it.  -> run_sess: SNewLayout starts from st0 over the new world. *)
From Coq Require Import ZArith NArith Bool List.
From PcoreV Require Import Model.Base Model.FileLoader.
Import ListNotations.
Local Open Scope nat_scope.

(* ---- (1) lines ------------------------------------------------------------------------------------------------ *)

Definition is_lf (c : N) : bool := N.eqb c 10.
Definition is_ws (c : N) : bool := N.eqb c 32 || N.eqb c 9 || N.eqb c 10.      (* ' ', '\t', '\n' *)
Definition is_hash (c : N) : bool := N.eqb c 35.                               (* '#' *)

Fixpoint count_lf (t : str) : N :=
  match t with
  | [] => 0%N
  | c :: r => ((if is_lf c then 1 else 0) + count_lf r)%N
  end.

(* StringReader.Line() when the first pos bytes have been consumed *)
Definition line_at (t : str) (pos : nat) : N := (1 + count_lf (firstn pos t))%N.

(* the number of bytes in front of the first token (in_comment: the reader is inside a line comment) *)
Fixpoint scan (in_comment : bool) (t : str) : nat :=
  match t with
  | [] => 0
  | c :: r => if in_comment then S (scan (negb (is_lf c)) r)
              else if is_ws c then S (scan false r)
              else if is_hash c then S (scan true r)
              else 0
  end.

(* types.DefinitionLocation *)
Definition def_line (t : str) : N :=
  let n := scan false t in if Nat.ltb n (length t) then line_at t n else 1%N.

(* a text without a token that ends outside a comment: what may stand in front of a definition *)
Fixpoint blank (in_comment : bool) (p : str) : bool :=
  match p with
  | [] => negb in_comment
  | c :: r => if in_comment then blank (negb (is_lf c)) r
              else if is_ws c then blank false r
              else if is_hash c then blank true r
              else false
  end.

(* ---- (2) generations ------------------------------------------------------------------------------------------- *)

Inductive sop :=
| SNewLayout (w : world)     (* the directory is written again as w, new loaders over it *)
| SOp (o : op).              (* an operation through the current loaders *)

Definition no_world : world := {| w_top := TopSingle; w_mods := []; w_shadow := [] |}.

Fixpoint run_sess (fuel : nat) (w : world) (s : state) (l : list sop) : list (out * list (nat * str)) :=
  match l with
  | [] => []
  | SNewLayout w' :: t => run_sess fuel w' st0 t
  | SOp o :: t => let '(s', x) := step w (indexes_of w) fuel s o in x :: run_sess fuel w s' t
  end.

Definition gen_sops (g : world * list op) : list sop := SNewLayout (fst g) :: map SOp (snd g).

(* a session: generations (layout, operations), one after the other in one process at one path *)
Definition run_session (fuel : nat) (gs : list (world * list op)) : list (out * list (nat * str)) :=
  run_sess fuel no_world st0 (flat_map gen_sops gs).
