(* LoaderDep.v — executable model of the dependency loader WITH module loaders
     loader/dependency.go   newDependencyLoader (the index by module name), LoadEntry, LoaderFor, find
     loader/loader.go       basicLoader.GetEntry / HasEntry / SetEntry of the dependency loader's own map, load()
   on top of the loader tree of Model/Loader.v: a module loader is a loader of the tree (any kind: the static
   loader, a fresh root, a parented loader, a type-set loader) together with the name its ModuleName() answers
   ("" = no name).  What dependencyLoader uses of a px.ModuleLoader is ModuleName() (once, when the index is
   built) and LoadEntry; so `ml.LoadEntry(c, name)` is `load_entry` of the tree.
   One Gallina function per Go method, same order of tests, Go file:line in the comment.  Definitions only.

   The model records which module loaders a lookup ASKS, in order (`asked`): the harness observes the same
   list (its module loaders count their LoadEntry calls), so "goes to exactly the module loader of `mod`" is
   an observable of every correspondence case.

   Not modelled: a loader that has the dependency loader as its parent (the dependency loader is not a node
   of the tree), Discover of the dependency loader (basicLoader.Discover of its own map), Path(). *)
From Coq Require Import NArith Bool List.
From PcoreV Require Import Model.Base Model.Loader Model.LoaderSpec.
Import ListNotations.

(* the `loaders []px.ModuleLoader` argument: ModuleName() and the loader (its index in the tree), in order *)
Definition modset := list (str * nat).

Definition nonempty (s : str) : bool := match s with [] => false | _ => true end.

(* dependency.go:13-19  `for _, ml := range loaders { n := ml.ModuleName(); if n != "" { index[n] = ml } }`:
   a later loader of the same name replaces the earlier one *)
Definition dep_index (mods : modset) (m : str) : option nat :=
  fold_left (fun acc kv => if nonempty (fst kv) && str_eqb (fst kv) m then Some (snd kv) else acc) mods None.

(* len(l.index) > 0 *)
Definition index_pos (mods : modset) : bool := existsb (fun kv => nonempty (fst kv)) mods.

(* ml.LoadEntry(c, name) *)
Definition ml_load (st : lstate) (l : nat) (n : tname) : lstate * lres := load_entry (fuel_of l n) st l n.

(* dependency.go:59-64 the loop of find, and :68 `return l.basicLoader.LoadEntry(c, name)` after it *)
Fixpoint find_loop (st : lstate) (ms : modset) (own : ents) (n : tname) : lstate * lres * list nat :=
  match ms with
  | [] => (st, LEnt (b_get own n), [])                                      (* :68 *)
  | (_, l) :: ms' =>
    let '(st1, r) := ml_load st l n in                                      (* :60 *)
    match r with
    | LEnt (Some (Some _)) => (st1, r, [l])                                 (* :61-62 *)
    | LEnt _ => let '(st2, r2, tr) := find_loop st1 ms' own n in (st2, r2, l :: tr)
    | _ => (st1, r, [l])                                                    (* a panic passes through *)
    end
  end.

(* dependency.go:50 find.  Parts()[0] is only evaluated for a qualified name (more than one part). *)
Definition dep_find (st : lstate) (mods : modset) (own : ents) (n : tname) : lstate * lres * list nat :=
  match (if index_pos mods && is_qualified n then                           (* :51 *)
           match parts n with first :: _ => dep_index mods first | [] => None end   (* :53 *)
         else None) with
  | Some l => let '(st1, r) := ml_load st l n in (st1, r, [l])              (* :54 *)
  | None => find_loop st mods own n
  end.

(* dependency.go:30 LoadEntry *)
Definition dep_load_entry (st : lstate) (mods : modset) (own : ents) (n : tname) : lstate * ents * lres * list nat :=
  match b_get own n with                                                    (* :31 basicLoader.LoadEntry *)
  | Some e => (st, own, LEnt (Some e), [])
  | None =>
    let '(st1, r, tr) := dep_find st mods own n in                          (* :34 *)
    match r with
    | LEnt (Some (Some v)) =>
      let '(own', r') := b_set own n (Some v) in                            (* :41 l.SetEntry(name, entry); its result is dropped *)
      (st1, own', match r' with SErr c => LPanic c | _ => r end, tr)
    | LEnt _ => (st1, own, LEnt (Some None), tr)                            (* :35-38 a miss is not cached: &loaderEntry{nil, nil} *)
    | _ => (st1, own, r, tr)
    end
  end.

(* ---------------------------------------------------------------------------------------------- *)
(* Histories: operations on the loaders of the tree (the module side) and on the dependency loader *)
Inductive dop :=
| DBase (o : op)                  (* an operation of Model/Loader.v on the tree *)
| DLoadEntry (n : tname)          (* dep.LoadEntry(c, n) *)
| DLoad (n : tname)               (* px.Load with the dependency loader as the context's loader *)
| DGetEntry (n : tname)           (* dep.GetEntry(n): basicLoader, the loader's own map *)
| DHas (n : tname)                (* dep.HasEntry(n): basicLoader, the loader's own map *)
| DDefine (n : tname) (v : val)   (* dep.SetEntry(n, NewLoaderEntry(v, nil)) *)
| DLoaderFor (m : str).           (* dep.LoaderFor(m) *)

Inductive dout :=
| DB (r : out)                        (* result of an operation on the tree *)
| DR (r : out) (asked : list nat)     (* result of an operation on the dependency loader, and the module loaders it asked, in order *)
| DFor (l : option nat).              (* LoaderFor: the module loader (its index in the tree) or nil *)

Definition dstate : Type := lstate * ents.

Definition out_of_lres (r : lres) : out :=
  match r with LEnt e => REntry (eobs_of e) | LPanic c => RErr c | LStuck => RStuck end.

Definition dstep (cfg : config) (mods : modset) (ds : dstate) (d : dop) : dstate * dout :=
  let '(st, own) := ds in
  match d with
  | DBase o => let '(st', r) := step cfg st o in ((st', own), DB r)
  | DLoadEntry n0 =>
    let '(st1, own1, r, tr) := dep_load_entry st mods own (norm n0) in
    ((st1, own1), DR (out_of_lres r) tr)
  | DLoad n0 =>                                                             (* loader.go:71 load() *)
    let n := norm n0 in
    if negb (str_eqb (tn_auth n) (cfg_auth cfg)) then (ds, DR (RFound None) [])   (* :73 basicLoader.NameAuthority is the runtime one *)
    else
      let '(st1, own1, r, tr) := dep_load_entry st mods own n in            (* :76 *)
      match r with
      | LEnt None =>                                                        (* :77 the dependency loader is a DefiningLoader *)
        let '(own2, r') := b_set own1 n None in
        ((st1, own2), DR (match r' with SOk _ => RFound None | SErr c => RErr c | SStuck => RStuck end) tr)
      | LEnt (Some None) => ((st1, own1), DR (RFound None) tr)              (* :84 *)
      | LEnt (Some (Some v)) => ((st1, own1), DR (RFound (Some v)) tr)      (* :87 *)
      | LPanic c => ((st1, own1), DR (RErr c) tr)
      | LStuck => ((st1, own1), DR RStuck tr)
      end
  | DGetEntry n0 => (ds, DR (REntry (eobs_of (b_get own (norm n0)))) [])    (* loader.go:120 *)
  | DHas n0 => (ds, DR (RBool (b_has own (norm n0))) [])                    (* loader.go:127 *)
  | DDefine n0 v =>                                                         (* loader.go:134 *)
    let '(own', r) := b_set own (norm n0) (Some v) in
    ((st, own'), DR (match r with
                     | SOk (Some v') => RDefined v'
                     | SOk None => RFault
                     | SErr c => RErr c
                     | SStuck => RStuck
                     end) [])
  | DLoaderFor m => (ds, DFor (dep_index mods m))                           (* dependency.go:46 *)
  end.

Fixpoint drun_from (cfg : config) (mods : modset) (ds : dstate) (ds_ops : list dop) : dstate * list dout :=
  match ds_ops with
  | [] => (ds, [])
  | d :: ds' =>
    let '(s1, r) := dstep cfg mods ds d in
    let '(s2, rs) := drun_from cfg mods s1 ds' in
    (s2, r :: rs)
  end.

(* a history: operations `pre` on the tree, then px.NewDependencyLoader(mods) over loaders of that tree, then `ds` *)
Definition mods_ok (st : lstate) (mods : modset) : bool := forallb (fun kv => Nat.ltb (snd kv) (length st)) mods.

Definition drun (cfg : config) (pre : list op) (mods : modset) (ds : list dop) : dstate * list dout :=
  drun_from cfg mods (fst (run cfg pre), []) ds.
Definition douts (cfg : config) (pre : list op) (mods : modset) (ds : list dop) : list dout := snd (drun cfg pre mods ds).
Definition dresult_after (cfg : config) (pre : list op) (mods : modset) (ds : list dop) (d : dop) : dout :=
  snd (dstep cfg mods (fst (drun cfg pre mods ds)) d).

Definition dop_wf (d : dop) : bool :=
  match d with
  | DBase o => op_wf o
  | DLoadEntry n | DLoad n | DGetEntry n | DHas n | DDefine n _ => tn_wf (norm n)
  | DLoaderFor _ => true
  end.

(* ---------------------------------------------------------------------------------------------- *)
(* The specification, written from the property statement: the dependency loader owns a write-once map;
   a lookup answers with its own binding; otherwise a name QUALIFIED by the name of a module is resolved through the
   loader of that module and through no other; any other name through the module loaders in their order, the first
   that resolves it; a value found this way becomes the dependency loader's own binding (so its answer never changes
   again), a miss leaves no trace. *)
Definition route (mods : modset) (n : tname) : option nat :=
  if is_qualified n then match parts n with first :: _ => dep_index mods first | [] => None end else None.

Fixpoint spec_find_loop (a : astate) (ms : modset) (n : tname) : option (option val * list nat) :=
  match ms with
  | [] => Some (None, [])
  | (_, l) :: ms' =>
    match spec_resolve_top a l n with
    | None => None
    | Some (Some v) => Some (Some v, [l])
    | Some None => match spec_find_loop a ms' n with Some (r, tr) => Some (r, l :: tr) | None => None end
    end
  end.

Definition spec_find (a : astate) (mods : modset) (n : tname) : option (option val * list nat) :=
  match route mods n with
  | Some l => match spec_resolve_top a l n with Some r => Some (r, [l]) | None => None end
  | None => spec_find_loop a mods n
  end.

Definition binds := list (str * val).

Definition dep_spec_lookup (a : astate) (mods : modset) (bs : binds) (n : tname) : option (binds * option val * list nat) :=
  match assoc (map_key n) bs with
  | Some v => Some (bs, Some v, [])
  | None =>
    match spec_find a mods n with
    | Some (Some v, tr) => Some (bs ++ [(map_key n, v)], Some v, tr)
    | Some (None, tr) => Some (bs, None, tr)
    | None => None
    end
  end.

Definition binds_define (bs : binds) (n : tname) (v : val) : binds * out :=
  match assoc (map_key n) bs with
  | None => (bs ++ [(map_key n, v)], RDefined v)
  | Some old =>
    (bs, if val_same old v || val_equals old v then RDefined old
         else if vty old && vty v then RErr ERedefineType else RErr ERedefine)
  end.

Definition dspec_state : Type := astate * binds.

Definition dspec_step (cfg : config) (mods : modset) (s : dspec_state) (d : dop) : dspec_state * dout :=
  let '(a, bs) := s in
  match d with
  | DBase o => let '(a', r) := spec_step cfg a o in ((a', bs), DB r)
  | DLoadEntry n0 =>
    match dep_spec_lookup a mods bs (norm n0) with
    | Some (bs', r, tr) => ((a, bs'), DR (REntry (eobs_of_val r)) tr)
    | None => (s, DR RStuck [])
    end
  | DLoad n0 =>
    let n := norm n0 in
    if negb (str_eqb (tn_auth n) (cfg_auth cfg)) then (s, DR (RFound None) [])
    else match dep_spec_lookup a mods bs n with
         | Some (bs', r, tr) => ((a, bs'), DR (RFound r) tr)
         | None => (s, DR RStuck [])
         end
  | DGetEntry n0 => (s, DR (REntry (eobs_of_val (assoc (map_key (norm n0)) bs))) [])
  | DHas n0 => (s, DR (RBool (match assoc (map_key (norm n0)) bs with Some _ => true | None => false end)) [])
  | DDefine n0 v => let '(bs', r) := binds_define bs (norm n0) v in ((a, bs'), DR r [])
  | DLoaderFor m => (s, DFor (dep_index mods m))
  end.

Fixpoint dspec_run_from (cfg : config) (mods : modset) (s : dspec_state) (ds : list dop) : dspec_state * list dout :=
  match ds with
  | [] => (s, [])
  | d :: ds' =>
    let '(s1, r) := dspec_step cfg mods s d in
    let '(s2, rs) := dspec_run_from cfg mods s1 ds' in
    (s2, r :: rs)
  end.

Definition dspec_run (cfg : config) (pre : list op) (mods : modset) (ds : list dop) : dspec_state * list dout :=
  dspec_run_from cfg mods (fst (spec_run cfg pre), []) ds.
Definition dspec_outs (cfg : config) (pre : list op) (mods : modset) (ds : list dop) : list dout :=
  snd (dspec_run cfg pre mods ds).

(* what the specification can see of a result: a cached miss and an absent entry are both a miss *)
Definition dproject (r : dout) : dout :=
  match r with DB x => DB (project x) | DR x tr => DR (project x) tr | DFor l => DFor l end.

(* ---------------------------------------------------------------------------------------------- *)
(* Decidable equality of results (for the correspondence check) *)
Definition dout_eqb (x y : dout) : bool :=
  match x, y with
  | DB a, DB b => out_eqb a b
  | DR a ta, DR b tb => out_eqb a b && list_eqb Nat.eqb ta tb
  | DFor a, DFor b => option_eqb Nat.eqb a b
  | _, _ => false
  end.
