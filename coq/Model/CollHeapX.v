(* CollHeapX.v — two construction routes outside the operation language of Model/Coll.v, over the slice-level model of
   Model/CollHeap.v (property C08):

     XHashNew r all     Hash.new(tree, 'tree' | 'hash_tree'), types/hashtype.go:85-133 (after fix 4f15f12): the tree is
                        an array of [path, value] pairs; a root element [[], h] merges the ENTRY OBJECTS of the hash h
                        into the result (PutAll -> mergeEntries, hashtype.go:1186: the entry pointers are taken over),
                        a path element descends through the mutable hashes THIS call has made (own), makes the missing
                        ones, and puts the value under the last segment.
     XMapEntries r x id Hash.MapEntries, hashtype.go:928: make(n) filled with what the mapper returns for every entry:
                        a new entry (pool[x], value) - a many-to-one mapper: the result holds an equal key n times -
                        or (id) the entry object itself.

   The mutable hashes of one Hash.new call are not visible to anybody before the call returns, and every Put on them is
   mergeEntries = make(selfLen, selfLen+len(o)) + copy + replace/append into that NEW slice (hashtype.go:1186-1199), so
   the call is modelled the way Model/CollHeap.v models every operation: it DECIDES, reading the store only, the tree it
   is going to build, as a plan, and `exec` builds it.  The plan itself is the tree under construction:
     New true (Cap c) items     a mutable hash made by this call; c = the capacity of its last mergeEntries slice
     item  Share e              an entry object taken over from a root hash (shared with that hash)
     item  MkEntry (Share k) p  an entry made by Put / IndexedFromArray: &HashEntry{k, value}
     value plan  Share v        any value of the tree, the same object (a hash - mutable or not - that arrives as a
                                value is never descended into: fix 4f15f12)
                 New true Exact IndexedFromArray(av), hashtype.go:724 ('hash_tree')
   Writes into the slices that the call allocated itself are collapsed into their final contents (as everywhere in
   CollHeap.v).  A HashEntry is an immutable pair in this model (hval.HEntry): that no code assigns to a field of an
   entry object is checked by the direct check of the harness, not here.

   Definitions only. *)
From Coq Require Import ZArith NArith Bool List.
From PcoreV Require Import Model.Base Model.Heap Model.Coll Model.CollHeap.
Import ListNotations.
Open Scope Z_scope.

Inductive xop :=
| XBase (o : op)
| XHashNew (r : nat) (all_hashes : bool)
| XMapEntries (r x : nat) (ident : bool).

Section XDecide.
  Variable h : hstore.
  Variable pool : list hval.

  (* the hash key of an entry of a hash under construction *)
  Definition item_key (it : plan) : pv :=
    match it with
    | Share e => kob h e
    | MkEntry (Share k) _ => ob h k
    | _ => PNil
    end.

  (* NewMutableHash, hashtype.go:1454: make([]*HashEntry, 0, 7) *)
  Definition own_empty : plan := New true (Cap 7) [].

  (* PutAll / Put on a mutable hash of this call: mergeEntries, hashtype.go:1186 - the index of the receiver is
     computed once, an entry of the operand replaces the entry at the indexed position of its key or is appended *)
  Definition merge_items (n : plan) (oh : list plan) : plan :=
    match n with
    | New true (Cap _) items => New true (Cap (length items + length oh)) (merge_entriesG item_key items oh)
    | _ => n
    end.

  (* the Reduce2 over path[:len-1] (hashtype.go:105-119) followed by hr.Put(last, value) (:127): Get3 finds the LAST
     entry of the key; its value is descended into when it is a mutable hash of this call, anything else ends the
     descent and nothing is put (List.At of an integer segment never faults and never yields a mutable hash of this
     call); a missing key gets a new mutable hash (Put: appended) *)
  Fixpoint tput (path : list hval) (last : hval) (value : plan) (n : plan) : plan :=
    match path with
    | [] => merge_items n [MkEntry (Share last) value]
    | k :: rest =>
        match n with
        | New true (Cap c) items =>
            match hfindG item_key items (ob h k) with
            | Some i =>
                match nth i items (Share HNilv) with
                | MkEntry kk (New true (Cap c') its') =>
                    New true (Cap c) (set_nth i (MkEntry kk (tput rest last value (New true (Cap c') its'))) items)
                | _ => n
                end
            | None => merge_items n [MkEntry (Share k) (tput rest last value own_empty)]
            end
        | _ => n
        end
    end.

  (* IndexedFromArray, hashtype.go:724 *)
  Fixpoint indexed_from (i : Z) (vs : list hval) : list plan :=
    match vs with
    | [] => []
    | v :: t => MkEntry (Share (HInt i)) (Share v) :: indexed_from (i + 1) t
    end.

  (* one element of the tree, hashtype.go:91-130 *)
  Definition tree_elem (all_hashes : bool) (n : plan) (el : hval) : plan :=
    match el with
    | HArr t =>
        match els h t with
        | [HArr ps; value] =>
            match els h ps with
            | [] =>                                                   (* the root: values merge into the result *)
                match value with
                | HArr a => merge_items n (indexed_from 0 (els h a))  (* :98 PutAll(IndexedFromArray(av)) *)
                | HHash e => merge_items n (shares (els h e))         (* :101 PutAll(hv): the entry objects of hv *)
                | _ => n
                end
            | p0 :: prest =>
                let path := p0 :: prest in
                let v := match value with
                         | HArr a => if all_hashes then New true Exact (indexed_from 0 (els h a)) else Share value
                         | _ => Share value
                         end in
                tput (removelast path) (List.last path HNilv) v n
            end
        | _ => n
        end
    | _ => n
    end.

  (* the parameter type TreeArray = Array[Tuple[Array,Any],1], hashtype.go:77 *)
  Definition tuple_ok (el : hval) : bool :=
    match el with
    | HArr t => match els h t with [HArr _; _] => true | _ => false end
    | _ => false
    end.

  Definition xdecide (o : xop) : pres :=
    match o with
    | XBase b => decide h pool b
    | XHashNew r all =>
        match P pool r with
        | HArr t => let l := els h t in
                    if negb (Nat.eqb (length l) 0) && forallb tuple_ok l
                    then PPlan (fold_left (tree_elem all) l own_empty)
                    else PErr EIssue
        | _ => PErr EIssue
        end
    | XMapEntries r x ident =>
        match P pool r with
        | HHash s => PPlan (New true Exact
                              (map (fun e => if ident then Share e
                                             else MkEntry (Share (P pool x)) (Share (snd (ent e)))) (els h s)))
        | _ => PErr EBadType
        end
    end.
End XDecide.

Definition xstep (grow : nat -> nat -> nat) (st : hstate) (o : xop) : hstate * out :=
  match xdecide (st_heap st) (st_pool st) o with
  | PPlan p => let '(h', v) := exec grow (st_heap st) p in
               (mkState h' (st_pool st ++ [v]), RVal (observe obs_fuel h' v))
  | PErr e => (mkState (st_heap st) (st_pool st ++ [HUndef]), RErr e)
  end.

Fixpoint xrun (grow : nat -> nat -> nat) (st : hstate) (ops : list xop) : hstate * list out :=
  match ops with
  | [] => (st, [])
  | o :: t => let '(st1, r) := xstep grow st o in
              let '(st2, rs) := xrun grow st1 t in (st2, r :: rs)
  end.

(* the defect class of the seeded change C08-m6, for the sensitivity example: a Put that finds its key assigns the
   value field of the entry object it finds.  An entry object is a pair here, so the write is expressed on the cell
   that holds the entry in the ROOT HASH's backing array (what every holder of that entry object sees). *)
Definition put_in_place (h : hstore) (s : slice) (i : nat) (v : hval) : hstore :=
  update_nth (s_addr s)
             (fun a => write_cells a (s_off s + i)
                         [HEntry (fst (ent (cv (nth (s_off s + i) a None)))) v]) h.
