(* DescribeHist.v — HISTORIES of describe calls (C19): the same type and value OBJECTS checked again and again, under
   different subjects and through different entry points.

   Part 1 (Named): expected types that are NAMED - a chain of type aliases over a type of the lattice universe - at the
   top of the expected type:
     describe :856 (IsAssignable, the reference walk - no reference in this universe -, internalDescribe)
     internalDescribe :876 / describeByKind `case *types.TypeAliasType` :908 / describeTypeAliasType :645
       = internalDescribe(Normalize(resolved), original = the alias, actual, path)
     describeOptionalType :606-614: when `original` is an alias it STAYS the alias below the Optional, so the Variant below
       `type X = Optional[Variant[..]]` does not get the Undef that describeVariantType :923 appends for an Optional original
     describeVariantType :936-940: a Variant whose `original` is an alias reports ONE merged mismatch as a type mismatch
       of the alias at the given path (found by the correspondence of the histories: the first version of this model lacked it)
     TypeAliasType.IsAssignable / IsInstance (types/typealiastype.go): the answer of the resolved type (no cycle here).
   `original` is otherwise used for the wording only (newTypeMismatch(path, original, actual)), not modelled.

   Part 2 (Hist): the entry points px.DescribeMismatch (:996), px.AssertType, px.TypeMismatchError, px.AssertInstance,
   px.MismatchError (px/types.go:289-316) and getPrefix (px/types.go:373: a string, a label function `func() string`,
   anything else = the empty name) as CALLS on a world of objects, generic in the universe of types and values and in
   the describer.  The only state that the code on these paths keeps between two calls is modelled and threaded through
   the calls: the `detailedType` field of an Array / Hash value (types/arraytype.go:778-791, types/hashtype.go:1383-1414 -
   px.DetailedValueType computes the type on the first request and returns the kept object afterwards; MismatchError is
   its only caller here).  The describer itself has no package-level variable, no field of a type is written by it, and
   the Guard of the walk is a local of TypeAliasType.Accept (Model/DescribeWalk.v): `desc` is a FUNCTION of (name,
   expected, actual).  Proofs/DescribeHistProofs.v shows that the state-passing run answers every call of every history
   as the call alone (from the initial state) is answered. *)
From Coq Require Import ZArith NArith Bool List Arith.
From PcoreV Require Import Model.Base Model.Ty Model.Lattice Model.Describe.
Import ListNotations.

(* ---- Part 1: named expected types ---- *)

Inductive nty := NTy (t : ty) | NAlias (name : str) (r : nty).

Fixpoint nresolve (e : nty) : ty :=                                  (* ResolvedType(), repeatedly *)
  match e with NTy t => t | NAlias _ r => nresolve r end.

Section Named.
  Variable rx : str -> str -> bool.
  Variable teq : ty -> ty -> bool.

  (* TypeAliasType.IsAssignable typealiastype.go: GuardedIsAssignable(resolvedType, o, g) *)
  Definition nasg (e : nty) (a : ty) : bool := asg rx true (nresolve e) a.
  Definition ninst (e : nty) (v : value) : bool := inst rx true (nresolve e) v.

  (* describeVariantType :936-940: when `original` is an alias and the merged description is ONE mismatch, the mismatch
     is reported on the alias - a type mismatch at the given path *)
  Definition alias_single (p : path) (r : res (list mismatch)) : res (list mismatch) :=
    match r with
    | Ok [_] => Ok [(CType, p)]
    | _ => r
    end.

  (* internalDescribe(t, original = an alias, actual, path) for a lattice type t *)
  Fixpoint idesc_al (t : ty) (a : ty) (p : path) {struct t} : res (list mismatch) :=
    match t with
    | TOptional u => guarded rx t a p (describe_optional (idesc_al u) a p)     (* :610 original stays the alias *)
    | TVariant ts =>                                                            (* :923 no Undef appended; :936 *)
        guarded rx t a p
          (alias_single p (describe_variant rx false (map (fun vt => (vt, idesc rx teq vt (is_optional_ty vt))) ts) a p))
    | _ => idesc rx teq t false a p                                             (* original: wording only *)
    end.

  (* internalDescribe(e, original, actual, path) for e an alias: :876 guard, :908 -> :645, :883 fallback;
     for e a lattice type at the top (no alias): describe of Model/Describe.v *)
  Fixpoint ndesc (e : nty) (a : ty) (p : path) {struct e} : res (list mismatch) :=
    match e with
    | NTy t => describe rx teq t a p
    | NAlias _ r =>
        guarded rx (nresolve e) a p
          match r with
          | NTy t => idesc_al t a p
          | NAlias _ _ => ndesc r a p
          end
    end.

  (* describe :856: assignable -> nothing (the same test opens internalDescribe: `guarded`); Normalize of an alias is
     the alias (types.go:84) *)
  Definition ndescribe (e : nty) (a : ty) (p : path) : res (list mismatch) := ndesc e a p.
  Definition ndescribe_mismatch (name : str) (e : nty) (a : ty) : res (list mismatch) :=
    ndescribe e a (subject_path name).
End Named.

(* ---- Part 2: histories of calls, generic in the universe and in the describer ---- *)

Inductive pfx := PString (s : str) | PLabel (s : str) | POther.      (* the `pfx interface{}` of the assertions *)
Definition get_prefix (p : pfx) : str :=                             (* px/types.go:373 *)
  match p with PString s => s | PLabel s => s | POther => [] end.

(* indices into the world: the SAME object is named by the same index *)
Inductive call :=
| CDescribe (name : str) (e a : nat)            (* px.DescribeMismatch(name, E[e], A[a]) *)
| CAssertType (p : pfx) (e a : nat)             (* px.AssertType(p, E[e], A[a]) *)
| CTypeMismatchError (p : pfx) (e a : nat)      (* px.TypeMismatchError(p, E[e], A[a]) *)
| CAssertInstance (p : pfx) (e v : nat)         (* px.AssertInstance(p, E[e], V[v]) *)
| CMismatchError (p : pfx) (e v : nat).         (* px.MismatchError(p, E[e], V[v]) *)

Inductive answer := ADesc (r : res (list mismatch)) | AOut (r : res outcome) | ABadCall.

Section Hist.
  Variables E A V : Type.
  Variable asgE : E -> A -> bool.                              (* px.IsAssignable *)
  Variable instE : E -> V -> bool.                             (* px.IsInstance *)
  Variable desc : str -> E -> A -> res (list mismatch).        (* describe(e, a, [function <name>:]) *)
  Variable dt : V -> A.                                        (* what privateDetailedType computes for the value *)

  Record world := World { w_es : list E; w_as : list A; w_vs : list V }.

  (* the detailedType fields that are set: value object -> kept type *)
  Definition cache := list (nat * A).
  Fixpoint cache_get (i : nat) (st : cache) : option A :=
    match st with
    | [] => None
    | (j, t) :: r => if Nat.eqb i j then Some t else cache_get i r
    end.
  (* px.DetailedValueType -> privateDetailedType: `if av.detailedType == nil { av.detailedType = ... }; return av.detailedType` *)
  Definition detailed (st : cache) (i : nat) (v : V) : A * cache :=
    match cache_get i st with
    | Some t => (t, st)
    | None => (dt v, (i, dt v) :: st)
    end.

  (* TypeMismatchError / MismatchError px/types.go:303-316 *)
  Definition tm_error (name : str) (e : E) (a : A) : res outcome :=
    bind (desc name e a) (fun ms => Ok (Raises TypeMismatchIssue ms)).
  Definition m_error (name : str) (e : E) (a : A) : res outcome :=
    bind (desc name e a)
         (fun ms => Ok (Raises TypeMismatchIssue (match ms with [] => [(CType, subject_path name)] | _ => ms end))).

  Definition step (w : world) (st : cache) (c : call) : answer * cache :=
    match c with
    | CDescribe name e a =>
        match nth_error (w_es w) e, nth_error (w_as w) a with
        | Some te, Some ta => (ADesc (desc name te ta), st)
        | _, _ => (ABadCall, st)
        end
    | CAssertType p e a =>
        match nth_error (w_es w) e, nth_error (w_as w) a with
        | Some te, Some ta => (AOut (if asgE te ta then Ok Returns else tm_error (get_prefix p) te ta), st)
        | _, _ => (ABadCall, st)
        end
    | CTypeMismatchError p e a =>
        match nth_error (w_es w) e, nth_error (w_as w) a with
        | Some te, Some ta => (AOut (tm_error (get_prefix p) te ta), st)
        | _, _ => (ABadCall, st)
        end
    | CAssertInstance p e v =>
        match nth_error (w_es w) e, nth_error (w_vs w) v with
        | Some te, Some tv =>
            if instE te tv then (AOut (Ok Returns), st)
            else let (t, st') := detailed st v tv in (AOut (m_error (get_prefix p) te t), st')
        | _, _ => (ABadCall, st)
        end
    | CMismatchError p e v =>
        match nth_error (w_es w) e, nth_error (w_vs w) v with
        | Some te, Some tv => let (t, st') := detailed st v tv in (AOut (m_error (get_prefix p) te t), st')
        | _, _ => (ABadCall, st)
        end
    end.

  (* the answers of a history, the state threaded through the calls *)
  Fixpoint hrun (w : world) (st : cache) (cs : list call) : list answer :=
    match cs with
    | [] => []
    | c :: r => let (ans, st') := step w st c in ans :: hrun w st' r
    end.
  Fixpoint hstate (w : world) (st : cache) (cs : list call) : cache :=
    match cs with
    | [] => st
    | c :: r => hstate w (snd (step w st c)) r
    end.

  (* the call alone: a process in which nothing has been asked yet *)
  Definition alone (w : world) (c : call) : answer := fst (step w [] c).

  (* every kept type is the one that would be computed *)
  Definition consistent (w : world) (st : cache) : Prop :=
    forall i t, cache_get i st = Some t -> exists v, nth_error (w_vs w) i = Some v /\ t = dt v.

  (* the subject that a call was given *)
  Definition call_name (c : call) : str :=
    match c with
    | CDescribe name _ _ => name
    | CAssertType p _ _ | CTypeMismatchError p _ _ | CAssertInstance p _ _ | CMismatchError p _ _ => get_prefix p
    end.
  Definition answer_mismatches (a : answer) : list mismatch :=
    match a with
    | ADesc (Ok ms) => ms
    | AOut (Ok (Raises _ ms)) => ms
    | _ => []
    end.
End Hist.

Arguments World {E A V}.
Arguments w_es {E A V}.
Arguments w_as {E A V}.
Arguments w_vs {E A V}.

(* ---- Part 3: the instance for named expected types, lattice actual types, values with their inferred type ---- *)

Section NamedHist.
  Variable rx : str -> str -> bool.
  Variable teq : ty -> ty -> bool.
  (* a value object = the value and the type px.DetailedValueType infers for it (an input, as in assert_instance) *)
  Definition nvalue := (value * ty)%type.
  Definition nworld := world nty ty nvalue.
  Definition nstep := step nty ty nvalue (nasg rx) (fun e v => ninst rx e (fst v)) (ndescribe_mismatch rx teq) snd.
  Definition nrun := hrun nty ty nvalue (nasg rx) (fun e v => ninst rx e (fst v)) (ndescribe_mismatch rx teq) snd.
  Definition nalone := alone nty ty nvalue (nasg rx) (fun e v => ninst rx e (fst v)) (ndescribe_mismatch rx teq) snd.
End NamedHist.
