(* Model of the recursion of the mismatch describer (internal/typemismatchdescriber.go) over PAIRS
   (expected type, actual type) when BOTH sides are graphs of type aliases - the sibling of Model/DescribeWalk.v
   for the ACTUAL side.  Universe: the type graphs `aty` of DescribeWalk.v (an alias is a pointer = an index into
   an environment of resolved types; aliases may refer to themselves and to each other), on both sides.

   Every recursive call of the describer goes through internalDescribe (:876).  The call sites, and what they do
   to the pair (expected e, actual a):

   Go (internal/typemismatchdescriber.go)                       move of the pair
   describeTypeAliasType :646  (expected.ResolvedType(), a)      MEAlias: e = alias i  ->  (env[i], a)
   describeOptionalType  :614  (expected.ContainedType(), a)     MEChild: e -> a contained type of e, same a
   describeVariantType   :931  (vt, a) for vt in e.Types()       MEChild
   describeArrayType     :656  (et, at), at in ta.Types()        MEChild ; MAChild   - only when a IS a *TupleType
   describeHashType      :683/684 (kt, al.Key()), (vt, al.Value())  MEChild ; MAChild - only when a IS a *StructType
   describeStructType    :713/714 (ek, e2.ActualKeyType()), (e1.Value(), e2.Value())
                                                                 MEChild+ ; MAChild+  - only when a IS a *StructType
                                                                 (ActualKeyType: the key type or the type it contains)
   describeTuple         :764  (et, aa.ElementType())            MEChild ; MAChild   - only when a IS an *ArrayType
   describeTuple         :789  (ext, at), at in at.Types()       MEChild ; MAChild   - only when a IS a *TupleType
   describeCallableType  :819ff (parameters, return type, block of both sides)       MEChild ; MAChild (a IS a *CallableType)

   The point of the model: the actual type is decomposed only by a Go type assertion to the constructor
   (`actual.( *types.StructType )` ...), which a *TypeAliasType never satisfies: an alias on the actual side is NEVER
   replaced by the type it resolves to (it is reported as a whole).  So the actual component of the pair only ever
   moves from a constructor node to one of its contained types (MAChild) - there is no environment for the actual
   side in the model at all - and that is the guard of the describer's recursion on the actual side: it is structural
   in the written actual type, however cyclic the alias graphs on either side are.  (IsAssignable, which unfolds an
   alias on the right, has a px.Guard for it: types/types.go:137.)  Every path element of kind entry / key of entry /
   index / parameter / return / block that a mismatch carries is made together with at least one MAChild move.

   `dmove` over-approximates the call graph (any contained type of e with any contained type of a, whatever the
   constructors and the verdicts of IsAssignable): the theorems of Proofs/DescribeActualProofs.v hold for every
   sequence of moves, hence for the sequences the code makes.  Not modelled here: that a run of moves with the
   SAME actual type (alias -> Variant member -> alias ...) ends - it does because IsAssignable answers true for
   a pair that is in progress (lattice guard, C01/C02); checked on the implementation in a child process. *)
From Coq Require Import NArith Bool List Arith.
From PcoreV Require Import Model.Base Model.DescribeWalk.
Import ListNotations.

Definition dpair := (aty * aty)%type.

Inductive dmove (env : list aty) : dpair -> dpair -> Prop :=
| MEChild : forall ts c a, In c ts -> dmove env (ANode ts, a) (c, a)
| MEAlias : forall i r a, nth_error env i = Some r -> dmove env (AAlias i, a) (r, a)
| MAChild : forall e ds d, In d ds -> dmove env (e, ANode ds) (e, d).

(* dreach env k p q: q is reached from p by moves of which k descend into the actual type *)
Inductive dreach (env : list aty) : nat -> dpair -> dpair -> Prop :=
| DRefl : forall p, dreach env 0 p p
| DStepE : forall k p ts c a, dreach env k p (ANode ts, a) -> In c ts -> dreach env k p (c, a)
| DStepAlias : forall k p i r a, dreach env k p (AAlias i, a) -> nth_error env i = Some r -> dreach env k p (r, a)
| DStepA : forall k p e ds d, dreach env k p (e, ANode ds) -> In d ds -> dreach env (S k) p (e, d).

(* the actual types the describer can be called with: the contained types of the written actual type, an
   alias being a leaf *)
Fixpoint asubterms (a : aty) : list aty :=
  a :: match a with
       | ANode ds => flat_map asubterms ds
       | _ => []
       end.

(* number of nodes of the written actual type (an alias is one node) *)
Fixpoint anodes (a : aty) : nat :=
  match a with
  | ANode ds => S (list_sum (map anodes ds))
  | _ => 1
  end.

(* what the correspondence checks on every observed description: `descents` = for every mismatch returned, the
   number of path elements below the subject that are not of kind variant (each stands for at least one descent
   into the actual type) *)
Definition descents_ok (a : aty) (descents : list nat) : bool :=
  forallb (fun d => Nat.leb d (depth a)) descents.

(* type List1 = Struct[{v => Integer, Optional[next] => List1}], type List2 = Struct[{v => String, Optional[next]
   => List2}]: alias 0 and alias 1 of one environment *)
Definition list_body (i : nat) : aty := a_struct [(a_key false, ALeaf); (a_key true, AAlias i)].
Definition two_lists : list aty := [list_body 0; list_body 1].
