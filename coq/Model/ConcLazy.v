(* C13 - lazily cached inferred types of shared values (Array.reducedType / detailedType, Hash.reducedType /
   detailedType / index): unsynchronised memoisation on objects that several goroutines read.

   A cell is one cache field of one shared value.  The object that a goroutine builds for it lives in a heap; it has
   a creator and is either complete or not.  The code has one yield point per cache ("<kind>.window") between the
   two things it does when the cell is empty: build the object completely, and store the pointer in the field.
   In which order it does them is a property of the kind of cell (pf c, "publish first"):

     pf c = false : build, yield point, publish
         types/arraytype.go  privateReducedType, privateDetailedType (after their fix commits)
         types/hashtype.go   privateDetailedType, valueIndex
     pf c = true  : publish, yield point, fill in the key and value types
         types/hashtype.go   privateReducedType - the early store is what stops the recursion for a mutable hash
         that contains itself, so it cannot simply be reordered (open finding hash-reduced-half-built) *)
From Coq Require Import NArith Arith Bool List.
From PcoreV Require Import Model.Conc.
Import ListNotations.

Definition cell := nat.

Inductive lop := LInfer (c : cell).      (* PType / DetailedValueType / Get of the shared value behind cell c *)

Record lobj := mkO { lo_cell : cell; lo_by : tid; lo_full : bool }.

(* thread t observed, for cell c, an object created by `by` that was complete / half-built at that moment *)
Inductive lev := LGot (t : tid) (c : cell) (by_ : tid) (full : bool).

Record lshared := mkLS { l_cells : cell -> option nat; l_heap : list lobj }.

Inductive lpc := LIdle | LWindow (c : cell) (p : nat).

Record lthread := mkLT { lt_pc : lpc; lt_todo : list lop }.

Record lstate := mkLSt { ls_sh : lshared; ls_thr : tid -> lthread; ls_log : list lev }.

Definition observe (t : tid) (c : cell) (h : list lobj) (p : nat) : lev :=
  let o := nth p h (mkO c 0 false) in LGot t c (lo_by o) (lo_full o).

Fixpoint set_full (h : list lobj) (p : nat) : list lobj :=
  match h, p with
  | [], _ => []
  | o :: h', 0 => mkO (lo_cell o) (lo_by o) true :: h'
  | o :: h', S p' => o :: set_full h' p'
  end.

Definition lstep (pf : cell -> bool) (st : lstate) (t : tid) : lstate :=
  let th := ls_thr st t in
  let sh := ls_sh st in
  match lt_pc th with
  | LIdle =>
      match lt_todo th with
      | [] => st
      | LInfer c :: todo =>
          match l_cells sh c with
          | Some p =>                                      (* `if av.reducedType == nil` is false: hand it out *)
              mkLSt sh (upd1 (ls_thr st) t (mkLT LIdle todo)) (ls_log st ++ [observe t c (l_heap sh) p])
          | None =>
              let p := length (l_heap sh) in
              if pf c
              then mkLSt (mkLS (upd1 (l_cells sh) c (Some p)) (l_heap sh ++ [mkO c t false]))
                         (upd1 (ls_thr st) t (mkLT (LWindow c p) todo)) (ls_log st)
              else mkLSt (mkLS (l_cells sh) (l_heap sh ++ [mkO c t true]))
                         (upd1 (ls_thr st) t (mkLT (LWindow c p) todo)) (ls_log st)
          end
      end
  | LWindow c p =>
      if pf c
      then let h := set_full (l_heap sh) p in              (* fill in, then `return av.reducedType` *)
           let q := match l_cells sh c with Some q => q | None => p end in
           mkLSt (mkLS (l_cells sh) h) (upd1 (ls_thr st) t (mkLT LIdle (lt_todo th))) (ls_log st ++ [observe t c h q])
      else mkLSt (mkLS (upd1 (l_cells sh) c (Some p)) (l_heap sh))
                 (upd1 (ls_thr st) t (mkLT LIdle (lt_todo th))) (ls_log st ++ [observe t c (l_heap sh) p])
  end.

Definition lprog := list (list lop).

Definition linit (p : lprog) : lstate :=
  mkLSt (mkLS (fun _ => None) []) (fun t => mkLT LIdle (nth t p [])) [].

Definition lexec (pf : cell -> bool) (p : lprog) (s : sched) : lstate :=
  fold_left (lstep pf) s (linit p).

Definition ltrace (pf : cell -> bool) (p : lprog) (s : sched) : list lev := ls_log (lexec pf p s).

(* observables: per thread, in program order: (creator, complete?) *)
Fixpoint lresults_of (t : tid) (log : list lev) : list (tid * bool) :=
  match log with
  | [] => []
  | LGot t' _ b f :: log' => if Nat.eqb t' t then (b, f) :: lresults_of t log' else lresults_of t log'
  end.

Fixpoint lall_done (st : lstate) (k : nat) : bool :=
  match k with
  | 0 => true
  | S k' => (match lt_pc (ls_thr st k'), lt_todo (ls_thr st k') with LIdle, [] => true | _, _ => false end) && lall_done st k'
  end.
