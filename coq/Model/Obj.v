(* Obj.v — executable model of pcore's Object types (C17): what definitions objectType.InitFromHash
   accepts, the derived attributes info, the positional and the named constructor, Get, InitHash,
   instance equality and instance-of along the parent chain.

   Mirrors (after the fix: commits of C17, see known_findings/C17.json):
     types/objecttype.go    InitFromHash :356, EqualityAttributes :216, Equals :232, IsAssignable :658,
                            IsInstance :686, Member :715, createAttributesInfo :1042, createInitType :1077,
                            createNewFunction :1114, resolvedParent, checkSelfRecursion, collectAttributes/Members
     types/attribute.go     attribute.initialize :39, Default, Get, Equals
     types/annotatedmember.go  initialize, assertOverride, assertCanBeOverridden
     types/attributesinfo.go   newAttributesInfo, PositionalFromHash
     types/objectvalue.go   Initialize, InitFromHash, fillValueSlice, Get, Equals, InitHash, makeValueHash
     types/structtype.go    IsInstance :297 (the init-hash schema, the attribute schema, the named-argument struct)
     types/tupletype.go     IsInstance3 :309 (positional dispatch), internal/function.go goFunction.Call :311
     types/types.go         NamedType :871, createMetaType2, newInstance :438; types/typereferencetype.go Resolve

   One definition per Go method, same order of tests.  Implicit Go faults (index out of range in
   PositionalFromHash / makeValueHash, nil type assertion in createAttributesInfo) are explicit
   `Err EFault`.  Outside the modelled fragment (type parameters, functions, annotations, attribute
   types other than Integer/String/Boolean/Optional/Array/Any/Undef/Variant[Undef,T]/Struct): `Err EOutsideModel`,
   never generated.

   A Go *objectType points to its parent; the model's objdef contains its parent, so every walk
   along the parent chain is structural recursion (no fuel). *)
From Coq Require Import ZArith NArith Bool String Ascii List.
From PcoreV Require Import Model.Base.
Import ListNotations.
Open Scope Z_scope.

(* ---------------------------------------------------------------------------------------------- *)
(* byte strings from literals *)

Fixpoint s2l (s : string) : str :=
  match s with
  | EmptyString => []
  | String c r => N_of_ascii c :: s2l r
  end.

(* ---------------------------------------------------------------------------------------------- *)
(* types and values of the fragment *)

Inductive ty :=
| TInteger (lo hi : Z)            (* min_int64 / max_int64 = unbounded *)
| TString
| TBoolean
| TOptional (t : ty)
| TArray (t : ty)
| TAny                            (* accepts every value, undef included, without being an Optional *)
| TUndef
| TVarUndef (t : ty)              (* Variant[Undef, t]: accepts undef without being an Optional *)
| TStructNil                      (* Struct[{..}]: the members as a cons-list inside ty (structtype.go StructType.elements); *)
| TStructCons (k : str) (req : bool) (vt : ty) (rest : ty)
                                  (* one StructElement: name, whether its KEY type rejects undef (String['k'] / NotUndef['k']:
                                     req = true; Optional['k']: req = false - decided once, by NewStructElement structtype.go:53:
                                     a plain key is optional iff the value type accepts undef), value type; then the other members.
                                     A `rest` that is no struct ends the list. *)
| TObj (n : str)                  (* an Object type referred to by name (only as a parent) *)
| TOther (s : str).               (* any other type: only its text *)

Inductive value :=
| VUndef
| VDefault
| VBool (b : bool)
| VInt (z : Z)
| VStr (s : str)
| VTyStr (t : ty)                 (* a String whose content is the text of type t ("type name") *)
| VType (t : ty)
| VArr (l : list value)
| VHash (l : list (str * value)).

Fixpoint ty_eqb (a b : ty) : bool :=
  match a, b with
  | TInteger l1 h1, TInteger l2 h2 => Z.eqb l1 l2 && Z.eqb h1 h2
  | TString, TString => true
  | TBoolean, TBoolean => true
  | TOptional x, TOptional y => ty_eqb x y
  | TArray x, TArray y => ty_eqb x y
  | TAny, TAny => true
  | TUndef, TUndef => true
  | TVarUndef x, TVarUndef y => ty_eqb x y   (* VariantType.Equals: the same set of types; {Undef,x} = {Undef,y} iff x = y *)
  | TStructNil, TStructNil => true
  | TStructCons k1 r1 v1 t1, TStructCons k2 r2 v2 t2 => str_eqb k1 k2 && Bool.eqb r1 r2 && ty_eqb v1 v2 && ty_eqb t1 t2
  | TObj n, TObj m => str_eqb n m
  | TOther n, TOther m => str_eqb n m
  | _, _ => false
  end.

(* structural equality = Value.Equals on the fragment.  A Hash occurs as an attribute value only for Struct types; Hash.Equals
   (hashtype.go:1067) is keyed (same size, every key of the one present in the other with an equal value) where this
   comparison goes entry by entry: the two agree on hashes whose keys are listed in one fixed order (the harness lists the
   keys of every generated Struct value in ascending order; the implementation hands back the hashes it was given) *)
Fixpoint value_eqb (a b : value) : bool :=
  match a, b with
  | VUndef, VUndef => true
  | VDefault, VDefault => true
  | VBool x, VBool y => Bool.eqb x y
  | VInt x, VInt y => Z.eqb x y
  | VStr x, VStr y => str_eqb x y
  | VTyStr x, VTyStr y => ty_eqb x y
  | VType x, VType y => ty_eqb x y
  | VArr x, VArr y =>
    (fix go (x y : list value) : bool :=
       match x, y with
       | [], [] => true
       | u :: x', v :: y' => value_eqb u v && go x' y'
       | _, _ => false
       end) x y
  | VHash x, VHash y =>
    (fix go (x y : list (str * value)) : bool :=
       match x, y with
       | [], [] => true
       | (k, u) :: x', (k', v) :: y' => str_eqb k k' && value_eqb u v && go x' y'
       | _, _ => false
       end) x y
  | _, _ => false
  end.

(* hashes: lookup by key *)
Fixpoint hget (h : list (str * value)) (k : str) : option value :=
  match h with
  | [] => None
  | (k', v) :: r => if str_eqb k' k then Some v else hget r k
  end.

(* structtype.go:297 IsInstance for a Struct all of whose keys are optional except `required`:
   every present key must satisfy its element, every required key must be present, and the number of
   matched elements must equal the size of the hash (so an unknown key is rejected).
   `elems` lists (key, required?, test). *)
Fixpoint struct_matched (elems : list (str * bool * (value -> bool))) (h : list (str * value)) : option nat :=
  match elems with
  | [] => Some O
  | (k, required, test) :: r =>
    match hget h k with
    | Some v => if test v then option_map S (struct_matched r h) else None
    | None => if required then None else struct_matched r h
    end
  end.
Definition struct_inst (elems : list (str * bool * (value -> bool))) (v : value) : bool :=
  match v with
  | VHash h => match struct_matched elems h with Some n => Nat.eqb n (length h) | None => false end
  | _ => false
  end.

(* integertype.go IsInstance, stringtype.go, booleantype.go, optionaltype.go, arraytype.go, anytype.go:41,
   undeftype.go:49, varianttype.go:101 *)
Fixpoint inst (t : ty) (v : value) {struct t} : bool :=
  match t with
  | TInteger lo hi => match v with VInt z => (lo <=? z) && (z <=? hi) | _ => false end
  | TString => match v with VStr _ | VTyStr _ => true | _ => false end
  | TBoolean => match v with VBool _ => true | _ => false end
  | TOptional t' => match v with VUndef => true | _ => inst t' v end
  | TArray t' =>
    match v with
    | VArr l => (fix all (l : list value) : bool :=
                   match l with [] => true | x :: r => inst t' x && all r end) l
    | _ => false
    end
  | TAny => true
  | TUndef => match v with VUndef => true | _ => false end
  | TVarUndef t' => match v with VUndef => true | _ => inst t' v end
  (* structtype.go:303 StructType.IsInstance: a Hash; a member that is present must be an instance of the value
     type, one that is absent must have a key type that accepts undef; no other keys (matched == Len) *)
  | TStructNil => struct_inst [] v
  | TStructCons k req vt rest => struct_inst ((k, req, inst vt) :: struct_elems rest) v
  | TObj _ | TOther _ => false
  end
with struct_elems (t : ty) {struct t} : list (str * bool * (value -> bool)) :=
  match t with
  | TStructCons k req vt rest => (k, req, inst vt) :: struct_elems rest
  | _ => []
  end.

(* IsAssignable on the fragment: types.go:113 GuardedIsAssignable(a, b) — a is Any: true; b is Optional[b']:
   a accepts Undef and b'; b is Variant[Undef, b']: a accepts every member (allAssignableTo); otherwise
   a.IsAssignable(b): integertype.go, stringtype.go, booleantype.go, optionaltype.go:95 (Undef accepts b or the
   contained type does), arraytype.go with default sizes, undeftype.go:44, varianttype.go:92 (some member accepts b) *)
Definition accepts_undef_ty (a : ty) : bool :=
  match a with TAny | TUndef | TOptional _ | TVarUndef _ => true | _ => false end.
Definition is_undef_ty (b : ty) : bool := match b with TUndef => true | _ => false end.

(* the members of a Struct type on the right-hand side: HashedMembers (by name), len(hm) *)
Fixpoint sfind (b : ty) (k : str) : option (bool * ty) :=
  match b with
  | TStructCons k' req vt rest => if str_eqb k' k then Some (req, vt) else sfind rest k
  | _ => None
  end.
Fixpoint scount (b : ty) : nat :=
  match b with TStructCons _ _ _ rest => S (scount rest) | _ => O end.
Definition is_struct_ty (b : ty) : bool :=
  match b with TStructNil | TStructCons _ _ _ _ => true | _ => false end.

(* structtype.go:265 StructType.IsAssignable(o *StructType), one member e1 of the receiver: when o has no member of
   that name e1's key must accept undef; otherwise e1.key must accept e2.key (Optional['k'] accepts both forms,
   String['k'] only String['k']) and e1.value must accept e2.value; the matched members are counted *)
Definition sasg_step (k : str) (req : bool) (b : ty) (av : ty -> bool) (rest_n : option nat) : option nat :=
  match sfind b k with
  | None => if req then None else rest_n
  | Some (req2, vt2) => if (negb req || req2) && av vt2 then option_map S rest_n else None
  end.

Fixpoint asg (a : ty) : ty -> bool :=
  (fix inner (b : ty) : bool :=
    match a with
    | TAny => true
    | _ =>
      match b with
      | TOptional b' | TVarUndef b' => accepts_undef_ty a && inner b'
      | _ =>
        match a with
        | TInteger lo hi => match b with TInteger lo' hi' => (lo <=? lo') && (hi' <=? hi) | _ => false end
        | TString => match b with TString => true | _ => false end
        | TBoolean => match b with TBoolean => true | _ => false end
        | TOptional a' | TVarUndef a' => is_undef_ty b || asg a' b
        | TArray a' => match b with TArray b' => asg a' b' | _ => false end
        | TUndef => is_undef_ty b
        | TAny => true
        | TStructNil => is_struct_ty b && Nat.eqb O (scount b)
        | TStructCons k req vt rest =>
          is_struct_ty b &&
          match sasg_step k req b (asg vt) (sasg rest b) with Some n => Nat.eqb n (scount b) | None => false end
        | TObj _ | TOther _ => false
        end
      end
    end)
with sasg (a : ty) : ty -> option nat :=
  fun b =>
  match a with
  | TStructCons k req vt rest => sasg_step k req b (asg vt) (sasg rest b)
  | _ => Some O
  end.

Definition is_optional_ty (t : ty) : bool := match t with TOptional _ => true | _ => false end.

(* px.Generalize(value.PType()) for the values a `constants` entry may hold in the fragment *)
Definition generalize_scalar (v : value) : option ty :=
  match v with
  | VInt _ => Some (TInteger min_int64 max_int64)
  | VStr _ | VTyStr _ => Some TString
  | VBool _ => Some TBoolean
  | _ => None
  end.
Definition generalize_of (v : value) : option ty :=
  match v with
  | VArr (x :: r) =>
    match generalize_scalar x with
    | Some t => if forallb (fun y => match generalize_scalar y with Some t' => ty_eqb t t' | None => false end) r
                then Some (TArray t) else None
    | None => None
    end
  | _ => generalize_scalar v
  end.

(* ---------------------------------------------------------------------------------------------- *)
(* errors *)

Inductive ecode :=
| ETypeMismatch | EBadTypeString | EUnresolvedType | EInheritsSelf | EIllegalInheritance
| EBothConstantAndAttribute | EConstantWithFinal | EIllegalKindValue | EConstantRequiresValue
| EOverrideMemberMismatch | EOverrideOfFinal | EOverrideIsMissing | EOverrideTypeMismatch | EOverriddenNotFound
| EEqualityAttributeNotFound | EEqualityNotAttribute | EEqualityOnConstant | EEqualityRedefined
| ESerializationAttributeNotFound | ESerializationNotAttribute | ESerializationBadKind
| ESerializationRequiredAfterOptional
| EIllegalArguments | EMissingRequiredAttribute | EAttributeHasNoValue | ENoAttributeReader
| EOtherIssue | EFault | EOtherPanic
| ENoType            (* harness: the request names a definition that was not accepted *)
| EOutsideModel.     (* outside the modelled fragment; never generated *)

Definition ecode_eqb (a b : ecode) : bool :=
  match a, b with
  | ETypeMismatch, ETypeMismatch | EBadTypeString, EBadTypeString | EUnresolvedType, EUnresolvedType
  | EInheritsSelf, EInheritsSelf | EIllegalInheritance, EIllegalInheritance
  | EBothConstantAndAttribute, EBothConstantAndAttribute | EConstantWithFinal, EConstantWithFinal
  | EIllegalKindValue, EIllegalKindValue | EConstantRequiresValue, EConstantRequiresValue
  | EOverrideMemberMismatch, EOverrideMemberMismatch | EOverrideOfFinal, EOverrideOfFinal
  | EOverrideIsMissing, EOverrideIsMissing | EOverrideTypeMismatch, EOverrideTypeMismatch
  | EOverriddenNotFound, EOverriddenNotFound | EEqualityAttributeNotFound, EEqualityAttributeNotFound
  | EEqualityNotAttribute, EEqualityNotAttribute | EEqualityOnConstant, EEqualityOnConstant
  | EEqualityRedefined, EEqualityRedefined
  | ESerializationAttributeNotFound, ESerializationAttributeNotFound
  | ESerializationNotAttribute, ESerializationNotAttribute | ESerializationBadKind, ESerializationBadKind
  | ESerializationRequiredAfterOptional, ESerializationRequiredAfterOptional
  | EIllegalArguments, EIllegalArguments | EMissingRequiredAttribute, EMissingRequiredAttribute
  | EAttributeHasNoValue, EAttributeHasNoValue | ENoAttributeReader, ENoAttributeReader
  | EOtherIssue, EOtherIssue | EFault, EFault | EOtherPanic, EOtherPanic | ENoType, ENoType
  | EOutsideModel, EOutsideModel => true
  | _, _ => false
  end.

Inductive result (A : Type) := Ok (a : A) | Err (e : ecode).
Arguments Ok {A} a.
Arguments Err {A} e.

Definition bind {A B} (r : result A) (f : A -> result B) : result B :=
  match r with Ok a => f a | Err e => Err e end.
Notation "'do' x <- r ; k" := (bind r (fun x => k)) (at level 200, x pattern, r at level 100, k at level 200).

(* ---------------------------------------------------------------------------------------------- *)
(* definitions *)

Inductive kind := KNormal | KConstant | KDerived | KGivenOrDerived | KReference.

Definition kind_eqb (a b : kind) : bool :=
  match a, b with
  | KNormal, KNormal | KConstant, KConstant | KDerived, KDerived
  | KGivenOrDerived, KGivenOrDerived | KReference, KReference => true
  | _, _ => false
  end.

(* types/attribute.go `attribute` + annotatedMember *)
Record attr := mkAttr {
  a_name : str; a_kind : kind; a_type : ty; a_value : option value; a_final : bool; a_override : bool }.

Definition has_value (a : attr) : bool := match a_value a with Some _ => true | None => false end.

(* types/attributesinfo.go: attributes (positional order), requiredCount, equalityAttributeIndexes.
   nameToPos is `name_to_pos` below (a Go map filled in index order: the LAST index of a name wins). *)
Record ainfo := mkInfo { ai_attrs : list attr; ai_req : nat; ai_eq : list nat }.

(* types/objecttype.go `objectType` (fields of the fragment).  d_attrs: own attributes in the order of
   the `attributes` hash followed by the `constants`. *)
Inductive objdef := mkDef {
  d_name : str;
  d_parent : option objdef;
  d_attrs : list attr;
  d_equality : option (list str);
  d_eq_include_type : bool;
  d_serialization : option (list str);
  d_info : ainfo }.

Record obj := mkObj { o_type : objdef; o_vals : list value }.

(* ---------------------------------------------------------------------------------------------- *)
(* ordered string maps (hash.StringHash as used for members: Put replaces in place or appends) *)

Fixpoint put_attr (m : list attr) (a : attr) : list attr :=
  match m with
  | [] => [a]
  | x :: r => if str_eqb (a_name x) (a_name a) then a :: r else x :: put_attr r a
  end.
Definition put_all (m l : list attr) : list attr := fold_left put_attr l m.

Fixpoint find_attr (m : list attr) (n : str) : option attr :=
  match m with
  | [] => None
  | x :: r => if str_eqb (a_name x) n then Some x else find_attr r n
  end.

Fixpoint mem_str (n : str) (l : list str) : bool :=
  match l with [] => false | x :: r => str_eqb x n || mem_str n r end.

Fixpoint dedup (l : list str) (seen : list str) : list str :=
  match l with
  | [] => []
  | x :: r => if mem_str x seen then dedup r seen else x :: dedup r (x :: seen)
  end.

(* objecttype.go:1010 collectAttributes(true, ..) / :1035 collectMembers(true, ..) — no functions in the fragment *)
Fixpoint collect_attributes (d : objdef) : list attr :=
  match d with
  | mkDef _ p own _ _ _ _ =>
    put_all (match p with Some q => collect_attributes q | None => [] end) own
  end.

(* objecttype.go:216 EqualityAttributes: from the type upwards, the declared names of a level or, when
   the level declares none, all its non-constant attributes; keys of an ordered map (first occurrence) *)
Definition own_equality (d : objdef) : list str :=
  match d_equality d with
  | Some l => l
  | None => map a_name (filter (fun a => negb (kind_eqb (a_kind a) KConstant)) (d_attrs d))
  end.
Fixpoint equality_chain (d : objdef) : list str :=
  match d with
  | mkDef _ p _ _ _ _ _ =>
    own_equality d ++ (match p with Some q => equality_chain q | None => [] end)
  end.
Definition equality_attributes (d : objdef) : list str := dedup (equality_chain d) [].

(* objecttype.go:715 Member: own attributes, then the parent's Member *)
Fixpoint member (d : objdef) (n : str) : option attr :=
  match d with
  | mkDef _ p own _ _ _ _ =>
    match find_attr own n with
    | Some a => Some a
    | None => match p with Some q => member q n | None => None end
    end
  end.

(* ---------------------------------------------------------------------------------------------- *)
(* objectType.Equals :232 (structural), attribute.Equals (kind, override, name, final, type — not the value) *)

Definition attr_eqb (a b : attr) : bool :=
  kind_eqb (a_kind a) (a_kind b) && Bool.eqb (a_override a) (a_override b) && str_eqb (a_name a) (a_name b)
  && Bool.eqb (a_final a) (a_final b) && ty_eqb (a_type a) (a_type b).

Fixpoint def_eqb (a b : objdef) : bool :=
  match a, b with
  | mkDef n1 p1 at1 eq1 it1 se1 _, mkDef n2 p2 at2 eq2 it2 se2 _ =>
    str_eqb n1 n2 && Bool.eqb it1 it2 &&
    match p1, p2 with
    | None, None => true
    | Some q1, Some q2 => def_eqb q1 q2
    | _, _ => false
    end &&
    list_eqb attr_eqb at1 at2 &&
    option_eqb str_eqb_list eq1 eq2 && option_eqb str_eqb_list se1 se2
  end.

(* objecttype.go:658 IsAssignable(o): the receiver equals o or accepts o's parent (interfaces and the
   default Object are outside the fragment) *)
Fixpoint is_assignable (t ot : objdef) : bool :=
  def_eqb t ot ||
  match ot with
  | mkDef _ (Some p) _ _ _ _ _ => is_assignable t p
  | _ => false
  end.

(* objecttype.go:686 IsInstance(o) = isAssignable(t, o.PType()) *)
Definition instance_of (t : objdef) (o : obj) : bool := is_assignable t (o_type o).

(* ---------------------------------------------------------------------------------------------- *)
(* patterns of the schema: TypeNamePattern = an upper case letter, word characters, then any number of
   `::`-separated further such segments; MemberNamePattern = a lower case letter or `_`, then word characters
   (types/objecttype.go:58-70; the regexps are not quoted here because they contain the comment closer) *)

Definition is_upper (c : N) : bool := ((65 <=? c) && (c <=? 90))%N.
Definition is_lower (c : N) : bool := ((97 <=? c) && (c <=? 122))%N.
Definition is_digit (c : N) : bool := ((48 <=? c) && (c <=? 57))%N.
Definition is_word (c : N) : bool := is_upper c || is_lower c || is_digit c || N.eqb c 95.

Definition is_member_name (s : str) : bool :=
  match s with
  | c :: r => (is_lower c || N.eqb c 95) && forallb is_word r
  | [] => false
  end.

(* after an upper case letter: word characters, or `::` followed by another segment *)
Fixpoint type_name_rest (s : str) : bool :=
  match s with
  | [] => true
  | 58%N :: 58%N :: c :: r => is_upper c && type_name_rest r
  | c :: r => is_word c && type_name_rest r
  end.
Definition is_type_name (s : str) : bool :=
  match s with
  | c :: r => is_upper c && type_name_rest r
  | [] => false
  end.

Definition n_integer := Eval compute in s2l "Integer".
Definition n_string := Eval compute in s2l "String".
Definition n_boolean := Eval compute in s2l "Boolean".
Definition n_any := Eval compute in s2l "Any".
Definition n_undef := Eval compute in s2l "Undef".

(* the text of a type when it is a bare type name (what TypeTypeName admits as a string) *)
Definition bare_name (t : ty) : option str :=
  match t with
  | TInteger lo hi => if Z.eqb lo min_int64 && Z.eqb hi max_int64 then Some n_integer else None
  | TString => Some n_string
  | TBoolean => Some n_boolean
  | TAny => Some n_any
  | TUndef => Some n_undef
  | TObj n => Some n
  | TOther n => if is_type_name n then Some n else None
  | _ => None
  end.

(* a String value that matches TypeTypeName *)
Definition is_type_name_value (v : value) : bool :=
  match v with
  | VStr s => is_type_name s
  | VTyStr t => match bare_name t with Some n => is_type_name n | None => false end
  | _ => false
  end.
Definition is_member_name_value (v : value) : bool :=
  match v with VStr s => is_member_name s | _ => false end.

(* ---------------------------------------------------------------------------------------------- *)
(* hashes *)


Definition k_name := Eval compute in s2l "name".
Definition k_parent := Eval compute in s2l "parent".
Definition k_type_parameters := Eval compute in s2l "type_parameters".
Definition k_attributes := Eval compute in s2l "attributes".
Definition k_constants := Eval compute in s2l "constants".
Definition k_functions := Eval compute in s2l "functions".
Definition k_equality := Eval compute in s2l "equality".
Definition k_equality_include_type := Eval compute in s2l "equality_include_type".
Definition k_serialization := Eval compute in s2l "serialization".
Definition k_annotations := Eval compute in s2l "annotations".
Definition k_type := Eval compute in s2l "type".
Definition k_final := Eval compute in s2l "final".
Definition k_override := Eval compute in s2l "override".
Definition k_kind := Eval compute in s2l "kind".
Definition k_value := Eval compute in s2l "value".
Definition k_go_name := Eval compute in s2l "go_name".
Definition s_constant := Eval compute in s2l "constant".
Definition s_derived := Eval compute in s2l "derived".
Definition s_given_or_derived := Eval compute in s2l "given_or_derived".
Definition s_reference := Eval compute in s2l "reference".

Definition is_bool (v : value) : bool := match v with VBool _ => true | _ => false end.
Definition is_string (v : value) : bool := match v with VStr _ | VTyStr _ => true | _ => false end.
Definition any_value (v : value) : bool := true.
Definition is_type_or_type_name (v : value) : bool :=
  match v with VType _ => true | _ => is_type_name_value v end.
Definition member_names_array (v : value) : bool :=
  match v with VArr l => forallb is_member_name_value l | _ => false end.
(* Hash[MemberName, NotUndef] / Hash[MemberName, Any] *)
Definition member_hash (notundef : bool) (v : value) : bool :=
  match v with
  | VHash h => forallb (fun kv => is_member_name (fst kv) &&
                                  (negb notundef || match snd kv with VUndef => false | _ => true end)) h
  | _ => false
  end.
(* keys of the schema the fragment does not model: present => outside the model *)
Definition outside_keys (h : list (str * value)) : bool :=
  match hget h k_type_parameters, hget h k_functions, hget h k_annotations with
  | None, None, None => false
  | _, _, _ => true
  end.

(* objecttype.go:74 TypeObjectInitHash *)
Definition init_hash_schema : list (str * bool * (value -> bool)) :=
  [ (k_name, false, fun v => match v with VStr s => is_type_name s | _ => false end);
    (k_parent, false, is_type_or_type_name);
    (k_attributes, false, member_hash true);
    (k_constants, false, member_hash false);
    (k_equality, false, fun v => is_member_name_value v || member_names_array v);
    (k_equality_include_type, false, is_bool);
    (k_serialization, false, member_names_array) ].
Definition schema_ok (v : value) : bool := struct_inst init_hash_schema v.

(* attribute.go:15 typeAttribute *)
Definition kind_of_string (s : str) : option kind :=
  if str_eqb s s_constant then Some KConstant
  else if str_eqb s s_derived then Some KDerived
  else if str_eqb s s_given_or_derived then Some KGivenOrDerived
  else if str_eqb s s_reference then Some KReference
  else None.
Definition attribute_schema : list (str * bool * (value -> bool)) :=
  [ (k_type, true, is_type_or_type_name);
    (k_final, false, is_bool);
    (k_override, false, is_bool);
    (k_kind, false, fun v => match v with VStr s => match kind_of_string s with Some _ => true | None => false end | _ => false end);
    (k_value, false, any_value);
    (k_go_name, false, is_string) ].

(* ---------------------------------------------------------------------------------------------- *)
(* attribute.initialize (attribute.go:39) + annotatedMember.initialize *)

(* a String in type position: parseAttributeType.  The text of a type of the fragment parses to it; any
   other String handed to the model is, by construction of the harness, not parseable. *)
Definition parse_type_string (v : value) : result ty :=
  match v with
  | VTyStr t => Ok t
  | _ => Err EBadTypeString
  end.

Definition bool_arg (h : list (str * value)) (k : str) (d : bool) : bool :=
  match hget h k with Some (VBool b) => b | _ => d end.

Definition new_attribute (name : str) (spec : list (str * value)) : result attr :=
  if negb (struct_inst attribute_schema (VHash spec)) then Err ETypeMismatch else
  if match hget spec k_go_name with Some _ => true | None => false end then Err EOutsideModel else
  do typ <- match hget spec k_type with
            | Some (VType t) => Ok t
            | Some v => parse_type_string v
            | None => Err EFault
            end;
  let override := bool_arg spec k_override false in
  let final := bool_arg spec k_final false in
  let knd := match hget spec k_kind with
             | Some (VStr s) => match kind_of_string s with Some k => k | None => KNormal end
             | _ => KNormal
             end in
  do final <- (if kind_eqb knd KConstant
               then if match hget spec k_final with Some _ => negb final | None => false end
                    then Err EConstantWithFinal else Ok true
               else Ok final);
  match hget spec k_value with
  | Some v =>
    if kind_eqb knd KDerived || kind_eqb knd KGivenOrDerived then Err EIllegalKindValue
    else if match v with VDefault => true | _ => inst typ v end
         then Ok (mkAttr name knd typ (Some v) final override)
         else Err ETypeMismatch
  | None =>
    if kind_eqb knd KConstant then Err EConstantRequiresValue else
    let typ := if kind_eqb knd KGivenOrDerived && negb (inst typ VUndef) then TOptional typ else typ in
    Ok (mkAttr name knd typ (if is_optional_ty typ then Some VUndef else None) final override)
  end.

(* annotatedmember.go:78 assertOverride / :88 assertCanBeOverridden (all members are attributes) *)
Definition assert_override (a : attr) (parent_members : list attr) : result unit :=
  match find_attr parent_members (a_name a) with
  | Some pm =>
    if a_final pm && negb (kind_eqb (a_kind pm) KConstant && kind_eqb (a_kind a) KConstant) then Err EOverrideOfFinal
    else if negb (a_override a) then Err EOverrideIsMissing
    else if negb (asg (a_type pm) (a_type a)) then Err EOverrideTypeMismatch
    else Ok tt
  | None => if a_override a then Err EOverriddenNotFound else Ok tt
  end.

(* ---------------------------------------------------------------------------------------------- *)
(* createAttributesInfo (objecttype.go:1042) and newAttributesInfo (attributesinfo.go:12) *)

(* nameToPos: the last index holding the name *)
Fixpoint name_to_pos_from (l : list attr) (n : str) (i : nat) : option nat :=
  match l with
  | [] => None
  | x :: r =>
    match name_to_pos_from r n (S i) with
    | Some j => Some j
    | None => if str_eqb (a_name x) n then Some i else None
    end
  end.
Definition name_to_pos (l : list attr) (n : str) : option nat := name_to_pos_from l n O.

(* len(nameToPos): number of distinct names *)
Definition distinct_names (l : list attr) : nat := length (dedup (map a_name l) []).

Definition new_attributes_info (attrs : list attr) (req : nat) (equality : list str) : ainfo :=
  mkInfo attrs req
         (flat_map (fun e => match name_to_pos attrs e with Some ix => [ix] | None => [] end) equality).

Definition is_ctor_kind (k : kind) : bool := negb (kind_eqb k KConstant || kind_eqb k KDerived).
Definition is_opt_attr (a : attr) : bool := kind_eqb (a_kind a) KGivenOrDerived || has_value a.

Fixpoint lookup_all (m : list attr) (names : list str) : result (list attr) :=
  match names with
  | [] => Ok []
  | n :: r =>
    match find_attr m n with
    | Some a => do rest <- lookup_all m r; Ok (a :: rest)
    | None => Err EFault    (* av.(px.Attribute) on a nil interface *)
    end
  end.

Definition create_attributes_info (all : list attr) (ser : option (list str)) (equality : list str) : result ainfo :=
  match ser with
  | None =>
    let ctor := filter (fun a => is_ctor_kind (a_kind a)) all in
    let req := filter (fun a => negb (is_opt_attr a)) ctor in
    let opt := filter is_opt_attr ctor in
    Ok (new_attributes_info (req ++ opt) (length req) equality)
  | Some names =>
    do attrs <- lookup_all all names;
    (* :1080 (after the fix: 44f64b0): required = no value and not given_or_derived *)
    Ok (new_attributes_info attrs (length (filter (fun a => negb (is_opt_attr a)) attrs)) equality)
  end.

(* ---------------------------------------------------------------------------------------------- *)
(* InitFromHash (objecttype.go:356) *)

Inductive route := RText | RHash.

(* what a parent reference resolves to *)
Inductive presolved := PNone | PDef (d : objdef) | PSelf | PNotObject.

Fixpoint lookup_def (env : list objdef) (n : str) : option objdef :=
  match env with
  | [] => None
  | d :: r => if str_eqb (d_name d) n then Some d else lookup_def r n
  end.

Definition is_core_name (n : str) : bool :=
  str_eqb n n_integer || str_eqb n n_string || str_eqb n n_boolean || str_eqb n n_any || str_eqb n n_undef.

(* text route — types.go:871 NamedType / extractParentName2 / createMetaType2, then objectType.Resolve:
   the parent named in the hash becomes a TypeReference that is resolved before InitFromHash; the
   type itself is already known to the loader. *)
Definition text_parent_name (h : list (str * value)) : option str :=
  match hget h k_parent with
  | Some (VType t) | Some (VTyStr t) => bare_name t
  | Some (VStr s) => Some s
  | _ => None
  end.
Definition resolve_text_parent (env : list objdef) (self : str) (h : list (str * value)) : result presolved :=
  match text_parent_name h with
  | None => Ok PNone
  | Some n =>
    if str_eqb n self then Ok PSelf
    else match lookup_def env n with
         | Some d => Ok (PDef d)
         | None => if is_core_name n then Ok PNotObject else Err EUnresolvedType
         end
  end.

(* init-hash route — objecttype.go:363-374: a String is parsed (an unknown name stays an unresolved
   reference: not an Object), a resolvable type is resolved (an unknown name: UNRESOLVED_TYPE), any
   other type is taken as it is.  The type itself is not yet known to the loader. *)
Definition resolve_hash_parent (env : list objdef) (h : list (str * value)) : result presolved :=
  match hget h k_parent with
  | None => Ok PNone
  | Some (VType t) =>
    match t with
    | TObj n => match lookup_def env n with Some d => Ok (PDef d) | None => Err EUnresolvedType end
    | _ => Ok PNotObject
    end
  | Some v =>
    match v with
    | VTyStr (TObj n) => match lookup_def env n with Some d => Ok (PDef d) | None => Ok PNotObject end
    | VTyStr _ => Ok PNotObject
    | VStr s => match lookup_def env s with Some d => Ok (PDef d) | None => Ok PNotObject end
    | _ => Err EFault       (* pt.(px.Type) on a value that is not a type; excluded by the schema *)
    end
  end.

(* the attribute specs in processing order: `attributes`, then `constants` (objecttype.go:424-445) *)
Definition hash_entries (h : list (str * value)) (k : str) : list (str * value) :=
  match hget h k with Some (VHash l) => l | _ => [] end.

Fixpoint constant_specs (consts : list (str * value)) (attr_names : list str) (parent_members : list attr)
  : result (list (str * value)) :=
  match consts with
  | [] => Ok []
  | (k, v) :: r =>
    if mem_str k attr_names then Err EBothConstantAndAttribute else
    match generalize_of v with
    | None => Err EOutsideModel
    | Some t =>
      do rest <- constant_specs r attr_names parent_members;
      Ok ((k, VHash [(k_type, VType t); (k_value, v); (k_kind, VStr s_constant);
                     (k_override, VBool (match find_attr parent_members k with Some _ => true | None => false end))])
            :: rest)
    end
  end.

(* objecttype.go:447-474: one attribute *)
Definition attr_of_spec (name : str) (spec : value) : result attr :=
  match spec with
  | VHash l => new_attribute name l
  | VStr _ | VTyStr _ =>
    do t <- parse_type_string spec;
    new_attribute name ((k_type, VType t) :: (if is_optional_ty t then [(k_value, VUndef)] else []))
  | VType t =>
    new_attribute name ((k_type, VType t) :: (if is_optional_ty t then [(k_value, VUndef)] else []))
  | _ => Err ETypeMismatch
  end.

Fixpoint build_attrs (specs : list (str * value)) (parent_members : list attr) (acc : list attr)
  : result (list attr) :=
  match specs with
  | [] => Ok acc
  | (k, v) :: r =>
    do a <- attr_of_spec k v;
    do _ <- assert_override a parent_members;
    build_attrs r parent_members (put_attr acc a)
  end.

(* objecttype.go:526-560 *)
Definition equality_arg (h : list (str * value)) : option (list str) :=
  match hget h k_equality with
  | Some (VStr s) => Some [s]
  | Some (VArr l) => Some (map (fun v => match v with VStr s => s | _ => [] end) l)
  | _ => None
  end.

Definition lookup_member (own parent_members : list attr) (n : str) : option attr :=
  match find_attr own n with Some a => Some a | None => find_attr parent_members n end.

Fixpoint check_equality (names : list str) (own parent_members : list attr) (parent_eq : option (list str))
  : result unit :=
  match names with
  | [] => Ok tt
  | n :: r =>
    match lookup_member own parent_members n with
    | None => Err EEqualityAttributeNotFound
    | Some a =>
      if kind_eqb (a_kind a) KConstant then Err EEqualityOnConstant
      else if match parent_eq with Some pe => mem_str n pe | None => false end then Err EEqualityRedefined
      else check_equality r own parent_members parent_eq
    end
  end.

(* objecttype.go:562-594 *)
Fixpoint check_serialization (names : list str) (own parent_members : list attr) (opt_found : bool)
  : result unit :=
  match names with
  | [] => Ok tt
  | n :: r =>
    match lookup_member own parent_members n with
    | None => Err ESerializationAttributeNotFound
    | Some a =>
      if kind_eqb (a_kind a) KConstant || kind_eqb (a_kind a) KDerived then Err ESerializationBadKind
      else if is_opt_attr a then check_serialization r own parent_members true
      else if opt_found then Err ESerializationRequiredAfterOptional
      else check_serialization r own parent_members false
    end
  end.

Definition serialization_arg (h : list (str * value)) : option (list str) :=
  match hget h k_serialization with
  | Some (VArr l) => Some (map (fun v => match v with VStr s => s | _ => [] end) l)
  | _ => None
  end.

Definition init_from_hash (rt : route) (env : list objdef) (name0 : str) (pre : presolved) (hv : value)
  : result objdef :=
  if negb (schema_ok hv) then Err ETypeMismatch else
  match hv with
  | VHash h =>
    if outside_keys h then Err EOutsideModel else
    let name := match hget h k_name with Some (VStr s) => s | _ => name0 end in
    do par <- match rt with RText => Ok pre | RHash => resolve_hash_parent env h end;
    (* :380 checkSelfRecursion, resolvedParent *)
    do parent <- match par with
                 | PNone => Ok None
                 | PDef d => Ok (Some d)
                 | PSelf => Err EInheritsSelf
                 | PNotObject => Err EIllegalInheritance
                 end;
    let parent_members := match parent with Some p => collect_attributes p | None => [] end in
    let attributes := hash_entries h k_attributes in
    do cspecs <- constant_specs (hash_entries h k_constants) (map fst attributes) parent_members;
    do own <- build_attrs (attributes ++ cspecs) parent_members [];
    let incl := bool_arg h k_equality_include_type true in
    let equality := equality_arg h in
    do _ <- check_equality (match equality with Some l => l | None => [] end) own parent_members
                           (option_map equality_attributes parent);
    let ser := serialization_arg h in
    do _ <- check_serialization (match ser with Some l => l | None => [] end) own parent_members false;
    let d0 := mkDef name parent own equality incl ser (mkInfo [] O []) in
    do info <- create_attributes_info (collect_attributes d0) ser (equality_attributes d0);
    Ok (mkDef name parent own equality incl ser info)
  | _ => Err ETypeMismatch
  end.

(* The two routes to a definition.
   text: `type <name> = Object[{...}]` through types.Parse, px.AddTypes (NamedType, Resolve, InitFromHash)
   hash: px.New(ObjectMetaType, hash): the positional dispatch of the meta type's constructor checks the
         schema first (ILLEGAL_ARGUMENTS), then newObjectType2 -> InitFromHash *)
Definition define (rt : route) (env : list objdef) (name : str) (hv : value) : result objdef :=
  match rt with
  | RText =>
    match hv with
    | VHash h => do pre <- resolve_text_parent env name h; init_from_hash RText env name pre hv
    | _ => Err EOutsideModel
    end
  | RHash =>
    if negb (schema_ok hv) then Err EIllegalArguments
    else match hv with
         | VHash [] => Err EOutsideModel      (* the default Object type *)
         | _ => init_from_hash RHash env [] PNone hv
         end
  end.

(* ---------------------------------------------------------------------------------------------- *)
(* constructors: createNewFunction (objecttype.go:1114), goFunction.Call (internal/function.go:311) *)

(* createInitType :1077 — one Struct element per constructor attribute: the key is optional for
   given_or_derived and for attributes with a value *)
(* typeAndInit objecttype.go:1226: the type a NAMED argument is checked against. Array, Optional, Variant and Struct are
   rebuilt around the derived member types; a Struct member keeps its KEY type as it is (`key: se.key`): whether the
   member may be left out is not derived again from the new value type. Every other type of the fragment is returned
   as it is (an Object type would become Variant[T, init Struct of T], NotUndef[T] an Optional: outside the fragment) *)
Fixpoint type_and_init (t : ty) : ty :=
  match t with
  | TArray e => TArray (type_and_init e)
  | TOptional e => TOptional (type_and_init e)
  | TVarUndef e => TVarUndef (type_and_init e)
  | TStructCons k req vt rest => TStructCons k req (type_and_init vt) (type_and_init rest)
  | _ => t
  end.

(* the members of a Struct type with the flag of their key (true: the member must be present) *)
Fixpoint struct_reqs (t : ty) : list (str * bool) :=
  match t with TStructCons k req _ rest => (k, req) :: struct_reqs rest | _ => [] end.

Definition init_struct (info : ainfo) : list (str * bool * (value -> bool)) :=
  map (fun a => (a_name a, negb (is_opt_attr a), inst (type_and_init (a_type a)))) (ai_attrs info).

(* the same as a type of the fragment: what the signature of the named dispatcher shows *)
Definition init_type (info : ainfo) : ty :=
  fold_right (fun a rest => TStructCons (a_name a) (negb (is_opt_attr a)) (type_and_init (a_type a)) rest)
             TStructNil (ai_attrs info).

(* tupletype.go:309 IsInstance3 with types ts and size [lo, hi] *)
Fixpoint tuple_elems (ts : list ty) (last : ty) (args : list value) : bool :=
  match args with
  | [] => true
  | v :: r =>
    match ts with
    | [] => inst last v && tuple_elems [] last r
    | t :: ts' => inst t v && tuple_elems ts' t r
    end
  end.
Definition tuple_inst (ts : list ty) (lo hi : nat) (args : list value) : bool :=
  Nat.leb lo (length args) && Nat.leb (length args) hi &&
  match ts with
  | [] => true
  | t :: _ => tuple_elems ts t args
  end.

(* positional dispatch :1173-1192: attribute i is a required parameter when i < requiredCount and its
   kind is not given_or_derived *)
Fixpoint count_required (l : list attr) (i req : nat) : nat :=
  match l with
  | [] => O
  | a :: r => (if kind_eqb (a_kind a) KGivenOrDerived then O else if Nat.ltb i req then 1%nat else O)
              + count_required r (S i) req
  end.

(* fillValueSlice (objectvalue.go:103) on the slots of PositionalFromHash *)
Fixpoint fill_slots (slots : list (option value)) (attrs : list attr) : result (list value) :=
  match slots with
  | [] => Ok []
  | s :: r =>
    match attrs with
    | [] => Err EFault                       (* attrs[ix]: index out of range *)
    | a :: attrs' =>
      do v <- match s with
              | Some v => Ok v
              | None => if kind_eqb (a_kind a) KGivenOrDerived then Ok VUndef
                        else match a_value a with Some d => Ok d | None => Err EMissingRequiredAttribute end
              end;
      do rest <- fill_slots r attrs';
      Ok (v :: rest)
    end
  end.

Fixpoint set_slot (slots : list (option value)) (i : nat) (v : value) : option (list (option value)) :=
  match slots, i with
  | [], _ => None                            (* va[ix]: index out of range *)
  | _ :: r, O => Some (Some v :: r)
  | s :: r, S i' => option_map (cons s) (set_slot r i' v)
  end.

Fixpoint place_all (h : list (str * value)) (attrs : list attr) (slots : list (option value))
  : result (list (option value)) :=
  match h with
  | [] => Ok slots
  | (k, v) :: r =>
    match name_to_pos attrs k with
    | Some ix => match set_slot slots ix v with
                 | Some s' => place_all r attrs s'
                 | None => Err EFault
                 end
    | None => place_all r attrs slots
    end
  end.

(* attribute.Default(v) *)
Definition is_default (a : attr) (v : value) : bool :=
  match a_value a with Some d => value_eqb d v | None => false end.

(* the trimming loop of PositionalFromHash: from the end, down to requiredCount, drop default values.
   `rev_vals` / `rev_attrs` are the reversed slices, n = current length *)
Fixpoint trim_defaults (rev_vals : list value) (rev_attrs : list attr) (n req : nat) : list value :=
  match rev_vals, rev_attrs with
  | v :: rv, a :: ra =>
    if Nat.leb n req then rev rev_vals
    else if is_default a v then trim_defaults rv ra (Nat.pred n) req
    else rev rev_vals
  | _, _ => rev rev_vals
  end.

(* attributesinfo.go:44 PositionalFromHash *)
Definition positional_from_hash (info : ainfo) (h : list (str * value)) : result (list value) :=
  let attrs := ai_attrs info in
  let n := distinct_names attrs in
  do slots <- place_all h attrs (repeat None n);
  do va <- fill_slots slots attrs;
  Ok (trim_defaults (rev va) (rev (firstn n attrs)) n (ai_req info)).

(* the named creator :1147 (coerceTo is the identity on values that already are instances) *)
Definition ctor_named (d : objdef) (h : list (str * value)) : result obj :=
  do va <- positional_from_hash (d_info d) h;
  Ok (mkObj d va).

(* the positional creator :1143, attributeSlice.Initialize (objectvalue.go:89) *)
Definition ctor_positional (d : objdef) (args : list value) : result obj := Ok (mkObj d args).

(* px.New -> goFunction.Call (internal/function.go:316): the dispatchers are tried in order, the named one
   (one argument that is an instance of the init Struct) first, then the positional one; a single Hash that
   is not an instance of the init Struct can still be a positional argument (first attribute of type Any) *)
Definition named_dispatch (info : ainfo) (args : list value) : option (list (str * value)) :=
  match args with
  | [VHash h] => if struct_inst (init_struct info) (VHash h) then Some h else None
  | _ => None
  end.

Definition new_object (d : objdef) (args : list value) : result obj :=
  let info := d_info d in
  match named_dispatch info args with
  | Some h => ctor_named d h
  | None =>
    let ts := map a_type (ai_attrs info) in
    if tuple_inst ts (count_required (ai_attrs info) O (ai_req info)) (length ts) args
    then ctor_positional d args
    else Err EIllegalArguments
  end.

(* ---------------------------------------------------------------------------------------------- *)
(* reading: attributeSlice.Get (objectvalue.go:119), attribute.Get (attribute.go:150), InitHash :158 *)

Definition get (o : obj) (n : str) : result (option value) :=
  let attrs := ai_attrs (d_info (o_type o)) in
  match name_to_pos attrs n with
  | Some idx =>
    match nth_error (o_vals o) idx with
    | Some v => Ok (Some v)
    | None =>
      match nth_error attrs idx with
      | Some a => if kind_eqb (a_kind a) KGivenOrDerived then Ok (Some VUndef)
                  else match a_value a with Some v => Ok (Some v) | None => Err EAttributeHasNoValue end
      | None => Err EFault
      end
    end
  | None => Ok None
  end.

(* through the type: Member(n).(Attribute).Get(o) *)
Inductive aget := ANone | AVal (v : value) | AErr (e : ecode).
Definition attr_get (o : obj) (n : str) : aget :=
  match member (o_type o) n with
  | None => ANone
  | Some a =>
    if kind_eqb (a_kind a) KConstant
    then match a_value a with Some v => AVal v | None => AErr EFault end
    else match get o n with
         | Ok (Some v) => AVal v
         | Ok None => AErr ENoAttributeReader
         | Err e => AErr e
         end
  end.

(* makeValueHash (objectvalue.go:164) *)
Fixpoint make_value_hash (attrs : list attr) (vals : list value) : result (list (str * value)) :=
  match vals with
  | [] => Ok []
  | v :: rv =>
    match attrs with
    | [] => Err EFault
    | a :: ra =>
      do rest <- make_value_hash ra rv;
      if is_default a v || (kind_eqb (a_kind a) KGivenOrDerived && value_eqb v VUndef)
      then Ok rest else Ok ((a_name a, v) :: rest)
    end
  end.
Definition init_hash (o : obj) : result (list (str * value)) :=
  make_value_hash (ai_attrs (d_info (o_type o))) (o_vals o).

(* attributeSlice.Equals (objectvalue.go:143): equal types, and equal values (read by name) at the
   equality attribute indexes *)
Definition opt_value_eqb (a b : option value) : bool := option_eqb value_eqb a b.

Fixpoint eq_at (o1 o2 : obj) (attrs : list attr) (idxs : list nat) : result bool :=
  match idxs with
  | [] => Ok true
  | i :: r =>
    match nth_error attrs i with
    | None => Err EFault
    | Some a =>
      do x <- get o1 (a_name a);
      do y <- get o2 (a_name a);
      if opt_value_eqb x y then eq_at o1 o2 attrs r else Ok false
    end
  end.

Definition obj_eqb (o1 o2 : obj) : result bool :=
  if negb (def_eqb (o_type o1) (o_type o2)) then Ok false
  else eq_at o1 o2 (ai_attrs (d_info (o_type o1))) (ai_eq (d_info (o_type o1))).

(* ---------------------------------------------------------------------------------------------- *)
(* Predicates used by the statements of C17 (Properties/C17.v) and evaluated by the correspondence
   run on every accepted definition (Corr/CorrC17.v).  Boolean, so that they compute. *)

Fixpoint nodup_str (l : list str) : bool :=
  match l with [] => true | x :: r => negb (mem_str x r) && nodup_str r end.

(* the first `req` attributes are required (no value, not given_or_derived), all others optional
   (given_or_derived, with or without a value, or a declared value) *)
Fixpoint req_prefix (l : list attr) (req : nat) : bool :=
  match l, req with
  | [], O => true
  | [], S _ => false
  | a :: r, O => is_opt_attr a && req_prefix r O
  | a :: r, S n => negb (is_opt_attr a) && req_prefix r n
  end.

(* attribute.go:61-72: a given_or_derived attribute has no declared value: it carries the implicit value
   undef when its type is an Optional and no value at all when its type accepts undef otherwise (Any,
   Variant[Undef, T], Undef); a constant has a value *)
Definition attr_wf (a : attr) : bool :=
  (negb (kind_eqb (a_kind a) KGivenOrDerived)
   || match a_value a with None => true | Some v => value_eqb v VUndef end)
  && (negb (kind_eqb (a_kind a) KConstant) || has_value a).

(* the layout invariant of attributesInfo that the constructors, Get, InitHash and Equals rely on *)
Definition info_wf (i : ainfo) : bool :=
  nodup_str (map a_name (ai_attrs i)) && req_prefix (ai_attrs i) (ai_req i)
  && forallb attr_wf (ai_attrs i)
  && forallb (fun k => Nat.ltb k (length (ai_attrs i))) (ai_eq i).

(* The input class of the open finding `serialization-partial`: a definition (or an ancestor whose
   layout it inherits: none, the serialization list is per type) whose `serialization` list is not a
   duplicate-free enumeration of all constructor attributes.  ser_complete = outside that class. *)
Definition ser_complete (d : objdef) : bool :=
  match d_serialization d with
  | None => true
  | Some names =>
    nodup_str names &&
    forallb (fun a => negb (is_ctor_kind (a_kind a)) || mem_str (a_name a) names) (collect_attributes d)
  end.

(* the type itself followed by its ancestors *)
Fixpoint ancestors (d : objdef) : list objdef :=
  match d with
  | mkDef _ p _ _ _ _ _ => d :: (match p with Some q => ancestors q | None => [] end)
  end.

Definition parent_of (d : objdef) : option objdef := d_parent d.
