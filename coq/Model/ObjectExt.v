(* ObjectExt.v — property C05, extensions of parameterized Object types: `My::P[1, 'x']`, `My::P[{b => 'x'}]`.
     NewObjectTypeExtension / initialize   types/objecttypeextension.go:30, :175-223
     Parameters()                          types/objecttypeextension.go:124-149 (after fix 0a6b56d: the named form of a type
                                           with more than two parameters is not written when it would be read back
                                           as the value of the first parameter)
     Equals                                types/objecttypeextension.go:53 + hash/stringhash.go:197 (same keys, equal
                                           values, any order)
     ResolveWithParams                     types/resolver.go:18 (a name that resolves to a parameterized Object type
                                           hands the parsed arguments to NewObjectTypeExtension)
   The declared type parameters of the base type (typeParameters(true): those of the parents first) are their
   names in order; what the code asks about a parameter's type is the oracle `inst` (px.IsInstance(tp.Type(), v)).
   A px.Value is looked at only as: the Default singleton, a Hash (named arguments; keys by their String()), or
   anything else (numbered up to Equals). Definitions only. *)
From Coq Require Import NArith Bool List.
From PcoreV Require Import Model.Base.
Import ListNotations.

Inductive xval :=
| XDefault                          (* *DefaultValue *)
| XAtom (n : N)                     (* any other value that is not a Hash *)
| XHash (h : list (str * xval)).    (* *Hash, keys by k.String() *)

Inductive xerr :=
| XNotParameterized   (* :179 PCORE_NOT_PARAMETERIZED_TYPE *)
| XMissingParam       (* :202 PCORE_MISSING_TYPE_PARAMETER *)
| XMismatch           (* :192 px.AssertInstance -> PCORE_TYPE_MISMATCH *)
| XEmptyList.         (* :220 PCORE_EMPTY_TYPE_PARAMETER_LIST *)

Inductive xres (A : Type) :=
| XOk (a : A)
| XErr (e : xerr).
Arguments XOk {A}. Arguments XErr {A}.

(* hash.StringHash: insertion ordered, one entry per key *)
Definition pmap := list (str * xval).

Fixpoint pget (k : str) (m : pmap) : option xval :=
  match m with
  | [] => None
  | (k', v) :: m' => if str_eqb k k' then Some v else pget k m'
  end.

(* Put: the value of an existing key is replaced in place, a new key is appended *)
Fixpoint pput (k : str) (v : xval) (m : pmap) : pmap :=
  match m with
  | [] => [(k, v)]
  | (k', v') :: m' => if str_eqb k k' then (k, v) :: m' else (k', v') :: pput k v m'
  end.

Definition xis_default (v : xval) : bool := match v with XDefault => true | _ => false end.

Definition str_mem (k : str) (l : list str) : bool := existsb (str_eqb k) l.

Section Ext.
  (* px.IsInstance(tp.Type(), v) for the declared parameter named k *)
  Variable inst : str -> xval -> bool.

  (* :196-207 named arguments: every pair of the hash in order *)
  Fixpoint init_named (names : list str) (h : list (str * xval)) (acc : pmap) : xres pmap :=
    match h with
    | [] => XOk acc
    | (k, pv) :: h' =>
        if negb (str_mem k names) then XErr XMissingParam                 (* :200-203 *)
        else if xis_default pv then init_named names h' acc               (* :204 *)
        else if inst k pv then init_named names h' (pput k pv acc)       (* :205 checkParam *)
        else XErr XMismatch
    end.

  (* :208-218 positional arguments: the declared parameters in order, as far as there are arguments *)
  Fixpoint init_pos (names : list str) (args : list xval) (acc : pmap) : xres pmap :=
    match names, args with
    | k :: names', pv :: args' =>
        if xis_default pv then init_pos names' args' acc
        else if inst k pv then init_pos names' args' (pput k pv acc)
        else XErr XMismatch
    | _, _ => XOk acc
    end.

  Definition initialize (names : list str) (args : list xval) : xres pmap :=
    match names with
    | [] => XErr XNotParameterized                                       (* :178 *)
    | first :: _ =>
        let r := match args with
                 | [XHash h] =>                                           (* :183-189 *)
                     if negb (inst first (XHash h)) then init_named names h [] else init_pos names args []
                 | _ => init_pos names args []
                 end in
        match r with
        | XOk [] => XErr XEmptyList                                       (* :219 *)
        | _ => r
        end
    end.

  (* :136-148 the positional form: `default` for a parameter that is not given, cut after the last given one
     (top = idx + 1 at every given parameter; params[:top]) *)
  Fixpoint pos_params (names : list str) (m : pmap) : list xval :=
    match names with
    | [] => []
    | k :: names' =>
        let rest := pos_params names' m in
        match pget k m with
        | Some v => v :: rest
        | None => match rest with [] => [] | _ => XDefault :: rest end
        end
    end.

  Definition parameters (names : list str) (m : pmap) : list xval :=
    if Nat.ltb 2 (length names) then                                      (* :127-134 n > 2 *)
      if negb (inst (hd [] names) (XHash m)) then [XHash m]               (* the named form *)
      else pos_params names m
    else pos_params names m.

  (* what NewObjectTypeExtension and the parser make of arguments, printed: Parameters() or the issue *)
  Definition print_ext (names : list str) (args : list xval) : xres (list xval) :=
    match initialize names args with
    | XOk m => XOk (parameters names m)
    | XErr e => XErr e
    end.

  (* print, parse, resolve: the arguments the type prints are handed to NewObjectTypeExtension *)
  Definition reparse_ext (names : list str) (m : pmap) : xres pmap := initialize names (parameters names m).
End Ext.

(* the given parameters in the order of declaration: what the positional form is read back as *)
Definition declared_order (names : list str) (m : pmap) : pmap :=
  flat_map (fun k => match pget k m with Some v => [(k, v)] | None => [] end) names.

(* the parameters an extension can hold (what initialize establishes): one entry per key, every key a declared
   parameter, no `default`, every value an instance of the parameter's type, at least one *)
Definition ext_wf (inst : str -> xval -> bool) (names : list str) (m : pmap) : Prop :=
  NoDup (map fst m) /\ m <> [] /\
  forall k v, In (k, v) m -> In k names /\ xis_default v = false /\ inst k v = true.

(* objectTypeExtension.Equals on the parameters (stringHash.Equals: same number of entries, every key of the one
   found in the other with an equal value); for maps with one entry per key this is: the same lookups *)
Definition pmap_equal (a b : pmap) : Prop := forall k, pget k a = pget k b.
