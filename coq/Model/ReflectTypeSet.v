(* ReflectTypeSet.v — the second entry point of the reflection bridge for struct types (property C18):
   Reflector.TypeSetFromReflect(typeSetName, version, aliases, rTypes...) (types/reflector.go:426) derives one object
   type per Go struct of the argument list and collects them in a type set.  What it decides itself, per struct:
     - the NAME of the type (typeName, reflector.go:464: prefix + alias-or-Go-name) and the key of the entry
       (the text after the last "::" of that name);
     - the PARENT: a reference to the type named after the embedded first field, when that field is a struct;
   everything else is TypeFromReflect(name, parent, rt) of that one struct (Model/ReflectNamed.v own_attr_names:
   InitializerFromTagged skips the embedded first field exactly when a parent is declared).
   The model follows the loop statement by statement: the variable `parent` is declared INSIDE the loop body, so each
   struct starts from "no parent".  Definitions only. *)
From Coq Require Import ZArith NArith Bool List.
From PcoreV Require Import Model.Base Model.Reflect Model.ReflectNamed.
Import ListNotations.

(* a field of a Go struct as TypeSetFromReflect / InitializerFromTagged look at it *)
Record sfield := SF {
  sf_name : str;        (* Go name of the field; for an embedded field the name of its type *)
  sf_emb : bool;        (* reflect.StructField.Anonymous *)
  sf_struct : bool;     (* f.Type.Kind() == reflect.Struct (an embedded *T is not) *)
  sf_tname : str        (* f.Type.Name() (pointers have no name: that of the element, typeName reflector.go:465) *)
}.

(* a struct type of the argument list: rt.Name() and its fields (reflector.go:40 Fields: a pointer is dereferenced) *)
Record sdecl := SD { sd_name : str; sd_fields : list sfield }.

(* one entry of the `types` hash of the type set *)
Record tsentry := TE {
  te_key : str;               (* key of the entry: name[strings.LastIndex(name, "::")+2:] *)
  te_name : str;              (* name of the object type *)
  te_parent : option str;     (* name the parent reference refers to *)
  te_own : list str           (* the attributes the type declares itself, in declaration order *)
}.

Definition colon : N := 58%N.

(* reflector.go:464 typeName: prefix + (aliases[name] if present, else name) *)
Fixpoint alias_of (aliases : list (str * str)) (n : str) : str :=
  match aliases with
  | [] => n
  | (k, a) :: rest => if str_eqb k n then a else alias_of rest n
  end.
Definition type_name (prefix : str) (aliases : list (str * str)) (n : str) : str := prefix ++ alias_of aliases n.

(* the text after the last "::" of s; None when s holds no "::" (strings.LastIndex = -1) *)
Fixpoint after_last_sep (s : str) : option str :=
  match s with
  | [] => None
  | c :: r =>
      match after_last_sep r with
      | Some x => Some x
      | None =>
          match r with
          | c' :: r' => if (c =? colon)%N && (c' =? colon)%N then Some r' else None
          | [] => None
          end
      end
  end.
(* name[strings.LastIndex(name, `::`)+2:]; with index -1 that is name[1:] *)
Definition entry_key (name : str) : str :=
  match after_last_sep name with Some x => x | None => tl name end.

Definition fields_of (s : sdecl) : list (str * bool) := map (fun f => (sf_name f, sf_emb f)) (sd_fields s).

(* the loop of reflector.go:429: `types` is the accumulator *)
Fixpoint ts_loop (prefix : str) (aliases : list (str * str)) (rts : list sdecl) (types : list tsentry) : list tsentry :=
  match rts with
  | [] => types
  | rt :: rest =>
      let parent : option str := None in                                  (* :430 var parent px.Type *)
      let parent :=
        match sd_fields rt with                                           (* :433 nf > 0, f := fs[0] *)
        | f :: _ =>
            if sf_emb f && sf_struct f                                    (* :435 f.Anonymous && Kind() == Struct *)
            then Some (type_name prefix aliases (sf_tname f))             (* :436 NewTypeReferenceType(typeName(..)) *)
            else parent
        | [] => parent
        end in
      let name := type_name prefix aliases (sd_name rt) in                (* :439 *)
      ts_loop prefix aliases rest
        (types ++ [TE (entry_key name) name parent                        (* :440 append *)
                      (* :442 TypeFromReflect(name, parent, rt): InitializerFromTagged with that parent *)
                      (own_attr_names (match parent with Some _ => true | None => false end) (fields_of rt))])
  end.

(* reflector.go:426: prefix := typeSetName + "::" *)
Definition typeset_entries (ts_name : str) (aliases : list (str * str)) (rts : list sdecl) : list tsentry :=
  ts_loop (ts_name ++ [colon; colon]) aliases rts [].

(* ---- what one struct contributes, as a function of that struct alone *)
Definition ts_parent (prefix : str) (aliases : list (str * str)) (s : sdecl) : option str :=
  match sd_fields s with
  | f :: _ => if sf_emb f && sf_struct f then Some (type_name prefix aliases (sf_tname f)) else None
  | [] => None
  end.
Definition has_parent (s : sdecl) : bool :=
  match sd_fields s with f :: _ => sf_emb f && sf_struct f | [] => false end.
Definition ts_entry (prefix : str) (aliases : list (str * str)) (s : sdecl) : tsentry :=
  let name := type_name prefix aliases (sd_name s) in
  TE (entry_key name) name (ts_parent prefix aliases s) (own_attr_names (has_parent s) (fields_of s)).

(* looking a type up in the type set by its name *)
Fixpoint ts_lookup (n : str) (es : list tsentry) : option tsentry :=
  match es with
  | [] => None
  | e :: rest => if str_eqb (te_name e) n then Some e else ts_lookup n rest
  end.

Definition tsentry_eqb (a b : tsentry) : bool :=
  str_eqb (te_key a) (te_key b) && str_eqb (te_name a) (te_name b) &&
  option_eqb str_eqb (te_parent a) (te_parent b) && str_eqb_list (te_own a) (te_own b).
