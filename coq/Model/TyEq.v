(* TyEq.v — executable model of Type.Equals for the types of the lattice model (C03, C07).
   One match arm per Equals method of /repo/types (same tests).  Enum, Pattern and Variant compare as SETS
   (each contains the members of the other: enumtype.go:112, patterntype.go:80, varianttype.go:78 via
   px.IncludesAll); Tuple compares the given-or-actual size and the types position by position; Struct the
   elements (key type and value type) in order.  px.IncludesAll(a, b) asks `Equals(ov, v)` with the receiver
   taken from b; where that would recurse on a sub-term of the SECOND operand the model asks the symmetric
   question — justified by ty_eqb_sym (Proofs/LatticeEq.v) and exercised by the correspondence. *)
From Coq Require Import ZArith NArith Bool List.
From PcoreV Require Import Model.Base Model.Ty Model.Lattice.
Import ListNotations.
Open Scope Z_scope.

Definition subset_str (l l' : list str) : bool := forallb (fun s => mem_str s l') l.

Fixpoint ty_eqb (a : ty) : ty -> bool :=
  fix eq_a (b : ty) : bool :=
    match a, b with
    | TAny, TAny | TUnit, TUnit | TUndef, TUndef | TDefault, TDefault | TNumeric, TNumeric | TScalar, TScalar
    | TScalarData, TScalarData | TString, TString | TBinary, TBinary => true
    | TBoolean v, TBoolean w => option_eqb Bool.eqb v w
    | TInteger lo hi, TInteger lo' hi' | TFloat lo hi, TFloat lo' hi' | TStringSz lo hi, TStringSz lo' hi'
    | TCollection lo hi, TCollection lo' hi' => Z.eqb lo lo' && Z.eqb hi hi'
    | TStringVal s, TStringVal s' | TRegexp s, TRegexp s' => str_eqb s s'
    | TEnum ci vs, TEnum ci' vs' => Bool.eqb ci ci' && subset_str vs' vs && subset_str vs vs'
    | TPattern rs, TPattern rs' => subset_str rs rs' && subset_str rs' rs
    | TArray e lo hi, TArray e' lo' hi' => Z.eqb lo lo' && Z.eqb hi hi' && ty_eqb e e'
    | THash k v lo hi, THash k' v' lo' hi' => Z.eqb lo lo' && Z.eqb hi hi' && ty_eqb k k' && ty_eqb v v'
    | TTuple ts _ lo hi, TTuple ts' _ lo' hi' =>
        Nat.eqb (length ts) (length ts') && Z.eqb lo lo' && Z.eqb hi hi' &&
        (fix go (l l' : list ty) {struct l} : bool :=
           match l, l' with
           | [], _ => true
           | x :: r, y :: r' => ty_eqb x y && go r r'
           | _ :: _, [] => false
           end) ts ts'
    | TStruct ms, TStruct ms' =>
        Nat.eqb (length ms) (length ms') &&
        (fix go (l l' : list (str * (ty * ty))) {struct l} : bool :=
           match l, l' with
           | [], _ => true
           | (_, (k, v)) :: r, (_, (k', v')) :: r' => ty_eqb k k' && ty_eqb v v' && go r r'
           | _ :: _, [] => false
           end) ms ms'
    | TVariant ts, TVariant ts' =>
        forallb (fun v => existsb (fun ov => ty_eqb v ov) ts') ts &&
        (fix go (l' : list ty) : bool :=
           match l' with
           | [] => true
           | v' :: r' => existsb (fun t => ty_eqb t v') ts && go r'
           end) ts'
    | TOptional t, TOptional t' | TNotUndef t, TNotUndef t' | TType t, TType t' | TSensitive t, TSensitive t' => ty_eqb t t'
    | _, _ => false
    end.
