(* Dispatch.v — model of typed dispatch and of `new` (property C16).

   Mirrors, method by method and in the order of the tests of the Go code (after the fix: commits
   1fb8091, dd98fbb, aca4c2b, 4aef5f6, cf4b5b0, 646ba49, and faae116, bddebb3 of the lattice owner):
     internal/function.go   dispatchBuilder (:214-312), createDispatch (:190), buildFunction (:126),
                            functionBuilder.Resolve (:152), goFunction.Call (:318)
     types/callabletype.go  CallableType.CallableWith (:118)
     types/tupletype.go     TupleType.IsInstance3 (:294)
     types/integertype.go   NewIntegerType (:136), IsInstance3 (:244)
     types/types.go         newInstance (:438-485)
     types/inittype.go      InitType.New / create (:174-215), Resolve (:217)
     px/types.go            AssertInstance (:295)
   Definitions only.  Types, values, the instance predicate, block types, blocks and "block satisfies
   block type" are Section parameters: every theorem holds for ANY instance predicate; the
   correspondence run instantiates them with the concrete fragment at the end of this file. *)
From Coq Require Import ZArith NArith Bool Lia List.
From PcoreV Require Import Model.Base.
Import ListNotations.
Open Scope Z_scope.

(* panics of the builder, by message (function.go) *)
Inductive pcode :=
| PReqAfterOpt      (* `Required parameters must not come after optional parameters in a dispatch` *)
| PAfterRepeated    (* `Repeated parameters can only occur last in a dispatch` *)
| PBlockTwice       (* `Block specified more than once` *)
| PReturnsTwice     (* `Returns specified more than once` *)
| PNeedsBlockFn     (* `... Use FunctionWithBlock` (:273, :300) *)
| PNoBlockExpected  (* `Dispatch does not expect a block. Use Function instead of FunctionWithBlock` *)
| PBadRange         (* NewIntegerType: min > max (integertype.go:150) *)
| POther.

Inductive res (A : Type) := Ok (a : A) | Panic (c : pcode).
Arguments Ok {A} a.
Arguments Panic {A} c.

(* what a call of a function does: the body of dispatch i runs / px.Error(IllegalArguments) /
   a Go runtime fault (index out of range, nil function) / anything else *)
Inductive callres := RBody (i : nat) | RArgError | RFault | ROther.

(* outcome of a constructor or of new *)
Inductive ecode := EArg | EMismatch | ENoRespond | EOther.

Definition pcode_eqb (a b : pcode) : bool :=
  match a, b with
  | PReqAfterOpt, PReqAfterOpt | PAfterRepeated, PAfterRepeated | PBlockTwice, PBlockTwice
  | PReturnsTwice, PReturnsTwice | PNeedsBlockFn, PNeedsBlockFn | PNoBlockExpected, PNoBlockExpected
  | PBadRange, PBadRange | POther, POther => true
  | _, _ => false
  end.

Definition callres_eqb (a b : callres) : bool :=
  match a, b with
  | RBody i, RBody j => Nat.eqb i j
  | RArgError, RArgError | RFault, RFault | ROther, ROther => true
  | _, _ => false
  end.

Definition ecode_eqb (a b : ecode) : bool :=
  match a, b with
  | EArg, EArg | EMismatch, EMismatch | ENoRespond, ENoRespond | EOther, EOther => true
  | _, _ => false
  end.

Section Dispatch.
  Variables ty val bty blk : Type.
  Variable inst : ty -> val -> bool.      (* GuardedIsInstance(t, v, nil) *)
  (* isAssignable(declared block type, X) of CallableWith (callabletype.go:130,137): X = block.PType() for a call
     with a block (`Some bl`; a literal Optional[..] at the top of the declared type is stripped first, :127),
     X = Undef for a call without a block (`None`: "the declared block type accepts a missing block") *)
  Variable binst : bty -> option blk -> bool.

  (* ---- the builder: one constructor per method of px.Dispatch ----------------------------------- *)
  Inductive bop :=
  | OParam (t : ty) | OOptParam (t : ty) | ORepParam (t : ty) | OReqRepParam (t : ty)
  | OBlock (b : bty) | OOptBlock (b : bty) | OReturns | OFunction | OFunction2.

  (* dispatchBuilder (function.go:32): min, max, types, blockType, optionalBlock, returnType,
     function, function2 *)
  Record bstate := mkB {
    b_min : Z; b_max : Z; b_types : list ty; b_block : option bty; b_optblock : bool;
    b_ret : bool; b_fn : bool; b_fn2 : bool }.

  (* newDispatchBuilder :142 *)
  Definition b_init : bstate := mkB 0 0 [] None false false false false.

  (* assertNotAfterRepeated :312 *)
  Definition after_repeated (s : bstate) : bool := b_max s =? max_int64.

  Definition add_param (s : bstate) (t : ty) (mn mx : Z) : bstate :=
    mkB mn mx (b_types s ++ [t]) (b_block s) (b_optblock s) (b_ret s) (b_fn s) (b_fn2 s).

  (* Block2 :266 *)
  Definition block2 (s : bstate) (b : bty) : res bstate :=
    match b_block s with
    | Some _ => Panic PBlockTwice
    | None => if b_fn s then Panic PNeedsBlockFn
              else Ok (mkB (b_min s) (b_max s) (b_types s) (Some b) (b_optblock s) (b_ret s) (b_fn s) (b_fn2 s))
    end.

  Definition step (s : bstate) (o : bop) : res bstate :=
    match o with
    | OParam t =>                                            (* Param2 :218 *)
        if after_repeated s then Panic PAfterRepeated
        else if b_min s <? b_max s then Panic PReqAfterOpt
        else Ok (add_param s t (b_min s + 1) (b_max s + 1))
    | OOptParam t =>                                         (* OptionalParam2 :232 *)
        if after_repeated s then Panic PAfterRepeated
        else Ok (add_param s t (b_min s) (b_max s + 1))
    | ORepParam t =>                                         (* RepeatedParam2 :242 *)
        if after_repeated s then Panic PAfterRepeated
        else Ok (add_param s t (b_min s) max_int64)
    | OReqRepParam t =>                                      (* RequiredRepeatedParam2 :252 *)
        if after_repeated s then Panic PAfterRepeated
        else if b_min s <? b_max s then Panic PReqAfterOpt
        else Ok (add_param s t (b_min s + 1) max_int64)
    | OBlock b => block2 s b                                 (* Block2 :266 *)
    | OOptBlock b =>                                         (* OptionalBlock2 :281 *)
        match block2 s b with
        | Ok s' => Ok (mkB (b_min s') (b_max s') (b_types s') (b_block s') true (b_ret s') (b_fn s') (b_fn2 s'))
        | Panic c => Panic c
        end
    | OReturns =>                                            (* Returns2 :290 *)
        if b_ret s then Panic PReturnsTwice
        else Ok (mkB (b_min s) (b_max s) (b_types s) (b_block s) (b_optblock s) true (b_fn s) (b_fn2 s))
    | OFunction =>                                           (* Function :297 *)
        match b_block s with
        | Some _ => Panic PNeedsBlockFn
        | None => Ok (mkB (b_min s) (b_max s) (b_types s) (b_block s) (b_optblock s) (b_ret s) true (b_fn2 s))
        end
    | OFunction2 =>                                          (* Function2 :304 *)
        match b_block s with
        | None => Panic PNoBlockExpected
        | Some _ => Ok (mkB (b_min s) (b_max s) (b_types s) (b_block s) (b_optblock s) (b_ret s) (b_fn s) true)
        end
    end.

  (* the DispatchCreator: a sequence of builder calls; the first panic aborts *)
  Fixpoint run_ops (s : bstate) (ops : list bop) : res bstate :=
    match ops with
    | [] => Ok s
    | o :: ops' => match step s o with Ok s' => run_ops s' ops' | Panic c => Panic c end
    end.

  (* ---- signatures ------------------------------------------------------------------------------------
     Callable[Tuple[types, Integer[min,max]], return, block]; s_block = Some (optional, declared type) *)
  Record sig := mkSig { s_min : Z; s_max : Z; s_types : list ty; s_block : option (bool * bty) }.
  Record dispatch := mkD { d_sig : sig; d_hasfn : bool }.

  (* createDispatch :190 (NewIntegerType panics when min > max; NewTupleType keeps types and size) *)
  Definition create (s : bstate) : res dispatch :=
    if b_max s <? b_min s then Panic PBadRange
    else if b_fn2 s then                                                         (* :207 *)
      Ok (mkD (mkSig (b_min s) (b_max s) (b_types s)
                     (match b_block s with Some b => Some (b_optblock s, b) | None => None end)) true)
    else                                                                         (* :205 no block type *)
      Ok (mkD (mkSig (b_min s) (b_max s) (b_types s) None) (b_fn s)).

  Definition build (ops : list bop) : res dispatch :=
    match run_ops b_init ops with Ok s => create s | Panic c => Panic c end.

  (* buildFunction :126 runs every creator (first panic aborts, at dispatch i); Resolve :152 then
     creates the dispatches *)
  Fixpoint run_all (dss : list (list bop)) (i : nat) : (nat * pcode) + list bstate :=
    match dss with
    | [] => inr []
    | ops :: dss' =>
        match run_ops b_init ops with
        | Panic c => inl (i, c)
        | Ok s => match run_all dss' (S i) with inl e => inl e | inr ss => inr (s :: ss) end
        end
    end.

  Fixpoint create_all (ss : list bstate) (i : nat) : (nat * pcode) + list dispatch :=
    match ss with
    | [] => inr []
    | s :: ss' =>
        match create s with
        | Panic c => inl (i, c)
        | Ok d => match create_all ss' (S i) with inl e => inl e | inr ds => inr (d :: ds) end
        end
    end.

  Definition build_function (dss : list (list bop)) : (nat * pcode) + list dispatch :=
    match run_all dss 0 with inl e => inl e | inr ss => create_all ss 0 end.

  (* ---- TupleType.IsInstance3 (tupletype.go:294); None = index out of range --------------------- *)
  Fixpoint tuple_loop (ts : list ty) (tdx last : nat) (vs : list val) : option bool :=
    match vs with
    | [] => Some true
    | v :: vs' =>
        match nth_error ts tdx with
        | None => None                                                    (* t.types[tdx] *)
        | Some t => if inst t v
                    then tuple_loop ts (if (tdx <? last)%nat then S tdx else tdx) last vs'
                    else Some false
        end
    end.

  Definition tuple_inst3 (s : sig) (vs : list val) : option bool :=
    let osz := Z.of_nat (length vs) in
    if negb ((s_min s <=? osz) && (osz <=? s_max s)) then Some false       (* :296 size.IsInstance3 *)
    else match s_types s with
         | [] => Some true                                                  (* :301 last < 0 *)
         | _ => tuple_loop (s_types s) 0 (length (s_types s) - 1) vs
         end.

  (* CallableType.CallableWith (callabletype.go:118) *)
  Definition callable_with (s : sig) (vs : list val) (b : option blk) : option bool :=
    match b with
    | Some bl =>
        match s_block s with
        | None => Some false                                                (* :122 *)
        | Some (_, bt) =>                                                   (* :124 Optional stripped *)
            if binst bt (Some bl) then tuple_inst3 s vs else Some false     (* :130 *)
        end
    | None =>
        match s_block s with
        | Some (opt, bt) =>
            (* :137 blockType != nil && !isAssignable(blockType, Undef) => false.  For an optional block
               createDispatch (function.go:199) made the block type Optional[bt], which accepts Undef
               whatever bt is; otherwise the declared type itself decides (an alias of Optional[..],
               Variant[Undef, ..], Any accept a missing block without being a literal Optional) *)
            if opt || binst bt None then tuple_inst3 s vs else Some false
        | None => tuple_inst3 s vs
        end
    end.

  (* goFunction.Call (function.go:318) *)
  Fixpoint call_from (ds : list dispatch) (i : nat) (vs : list val) (b : option blk) : callres :=
    match ds with
    | [] => RArgError                                                       (* :324 *)
    | d :: ds' =>
        match callable_with (d_sig d) vs b with
        | None => RFault
        | Some true => if d_hasfn d then RBody i else RFault                (* nil function *)
        | Some false => call_from ds' (S i) vs b
        end
    end.
  Definition call (ds : list dispatch) := call_from ds 0.

  (* ---- the declarative reading of a declaration (specification) ------------------------------------- *)
  Inductive param := Req (t : ty) | Opt (t : ty) | Rep (t : ty) | ReqRep (t : ty).
  Inductive blockreq := NoBlock | ReqBlock (b : bty) | OptBlock (b : bty).

  Definition param_ty (p : param) : ty :=
    match p with Req t | Opt t | Rep t | ReqRep t => t end.

  (* every required parameter takes one argument of its type, an optional one takes one if there is one
     left, a repeated one takes all the rest (at least one when required); nothing may be left over *)
  Fixpoint matches_params (d : list param) (vs : list val) : bool :=
    match d with
    | [] => match vs with [] => true | _ => false end
    | Req t :: d' => match vs with v :: vs' => inst t v && matches_params d' vs' | [] => false end
    | Opt t :: d' => match vs with v :: vs' => inst t v && matches_params d' vs' | [] => matches_params d' [] end
    | Rep t :: d' => forallb (inst t) vs && matches_params d' []
    | ReqRep t :: d' => match vs with [] => false | _ => forallb (inst t) vs && matches_params d' [] end
    end.

  Definition matches_block (r : blockreq) (b : option blk) : bool :=
    match r, b with
    | NoBlock, None => true
    | NoBlock, Some _ => false
    | ReqBlock bt, None => binst bt None       (* no block satisfies a declared block type that accepts undef *)
    | ReqBlock bt, Some bl => binst bt (Some bl)
    | OptBlock _, None => true
    | OptBlock bt, Some bl => binst bt (Some bl)
    end.

  Definition matches_decl (d : list param) (r : blockreq) (vs : list val) (b : option blk) : bool :=
    matches_params d vs && matches_block r b.

  (* well-formed parameter lists: required* optional* (repeated | required-repeated)?, a
     required-repeated one only when there is no optional one.  phase 0 = required so far,
     1 = optional seen, 2 = repeated seen *)
  Fixpoint wf_from (phase : nat) (d : list param) : bool :=
    match d with
    | [] => true
    | Req _ :: d' => match phase with O => wf_from 0 d' | _ => false end
    | Opt _ :: d' => match phase with O | S O => wf_from 1 d' | _ => false end
    | Rep _ :: d' => match phase with O | S O => wf_from 2 d' | _ => false end
    | ReqRep _ :: d' => match phase with O => wf_from 2 d' | _ => false end
    end.
  Definition wf_params := wf_from 0.

  (* what a sequence of builder calls declares *)
  Fixpoint params_of (ops : list bop) : list param :=
    match ops with
    | [] => []
    | OParam t :: r => Req t :: params_of r
    | OOptParam t :: r => Opt t :: params_of r
    | ORepParam t :: r => Rep t :: params_of r
    | OReqRepParam t :: r => ReqRep t :: params_of r
    | _ :: r => params_of r
    end.

  Fixpoint blockreq_of (ops : list bop) : blockreq :=
    match ops with
    | [] => NoBlock
    | OBlock b :: _ => ReqBlock b
    | OOptBlock b :: _ => OptBlock b
    | _ :: r => blockreq_of r
    end.

  (* the canonical builder program of a declaration *)
  Definition op_of_param (p : param) : bop :=
    match p with Req t => OParam t | Opt t => OOptParam t | Rep t => ORepParam t | ReqRep t => OReqRepParam t end.
  Definition ops_of_decl (d : list param) (r : blockreq) : list bop :=
    map op_of_param d ++
    match r with NoBlock => [OFunction] | ReqBlock b => [OBlock b; OFunction2] | OptBlock b => [OOptBlock b; OFunction2] end.

  (* ---- constructors and new ------------------------------------------------------------------------------ *)
  Inductive outcome := OVal (v : val) | OErr (e : ecode) | OFault | OPanic.

  (* a constructor: a function built from dispatches; body i computes from the arguments *)
  Definition ctor := (list dispatch * (nat -> list val -> outcome))%type.

  Definition ctor_call (c : ctor) (args : list val) : outcome :=             (* goFunction.Call, no block *)
    match call (fst c) args None with
    | RBody i => snd c i args
    | RArgError => OErr EArg
    | RFault => OFault
    | ROther => OPanic
    end.

  (* InitType.anySignature(CallableWith(args, nil)) inittype.go:107; a fault counts as an escape *)
  Fixpoint any_callable (ds : list dispatch) (args : list val) : option bool :=
    match ds with
    | [] => Some false
    | d :: ds' => match callable_with (d_sig d) args None with
                  | None => None
                  | Some true => Some true
                  | Some false => any_callable ds' args
                  end
    end.

  Variable tname : ty -> str.                                   (* Type.Name() *)
  Variable init_parts : ty -> option (option ty * list val).    (* Some (typ, initArgs) for an Init type (px.Newable) *)
  Variable creatable : ty -> option ctor.                       (* px.Creatable.Constructor(c), may answer nil *)
  Variable loader_ctor : str -> option ctor.                    (* px.Load(c, (constructor, name)) *)
  Variable load_type : str -> option ty.                        (* px.Load(c, (type, name)) *)
  Variable as_array : val -> option (list val).                 (* the argument is an Array *)

  (* px.AssertInstance (px/types.go:295) on the outcome of the constructor *)
  Definition assert_inst (t : ty) (o : outcome) : outcome :=
    match o with
    | OVal r => if inst t r then OVal r else OErr EMismatch
    | _ => o
    end.

  (* InitType.create (inittype.go:183) *)
  Definition init_create (c : ctor) (init_args args : list val) : outcome :=
    match init_args with
    | _ :: _ => ctor_call c (args ++ init_args)                              (* :184-189 *)
    | [] =>
        match any_callable (fst c) args with
        | None => OFault
        | Some true => ctor_call c args                                      (* :192 *)
        | Some false =>
            match args with
            | [a] => match as_array a with
                     | Some vs => ctor_call c vs                             (* :197-202 *)
                     | None => ctor_call c args                              (* :206 provoke the argument error *)
                     end
            | _ => ctor_call c args
            end
        end
    end.

  (* InitType.New (inittype.go:174): Resolve (:217), then create, then AssertInstance against typ *)
  Definition init_new (typ : option ty) (init_args args : list val) : outcome :=
    match typ with
    | None => OErr ENoRespond                                                (* ctor stays nil :176 *)
    | Some t =>
        match loader_ctor (tname t) with
        | None => OErr EOther                                                (* CtorNotFound :221 *)
        | Some c => assert_inst t (init_create c init_args args)             (* :180 *)
        end
    end.

  Inductive recv := RcvType (t : ty) | RcvName (n : str) | RcvOther.

  Definition bind {A B} (o : option A) (f : A -> option B) : option B :=
    match o with Some a => f a | None => None end.

  (* newInstance (types.go:438) after the receiver has been turned into (name, typ) *)
  Definition new_typed (name : str) (typ : option ty) (args : list val) : outcome :=
    match bind typ init_parts with
    | Some (t', ia) => init_new t' ia args                                   (* :458 px.Newable *)
    | None =>
        let c := match bind typ creatable with                               (* :462-466 *)
                 | Some c => Some c
                 | None => loader_ctor name                                  (* :468-473 *)
                 end in
        match c with
        | None => OErr ENoRespond                                            (* :476 *)
        | Some c =>
            let r := ctor_call c args in                                     (* :480 *)
            match typ with
            | Some t => assert_inst t r                                      (* :481-483 *)
            | None => r
            end
        end
    end.

  Definition new_instance (r : recv) (args : list val) : outcome :=
    match r with
    | RcvType t => new_typed (tname t) (Some t) args                         (* :440-442 *)
    | RcvName n => new_typed n (load_type n) args                            (* :444-455 *)
    | RcvOther => OErr ENoRespond                                            (* :448 *)
    end.

  (* ---- looking at a built function: the read-only accessors --------------------------------------------------
     What is reachable from a resolved function and decides later calls: the dispatch builders it was resolved from
     (functionBuilder.dispatchers; createDispatch has written the resolved types back into them, function.go:190-193)
     and the table of dispatchers (goFunction.dispatchers; each holds its Callable signature, whose parameter tuple
     holds the size and the slice of slot types - the SAME slice the builder holds, function.go:205).  The accessors
     hand out these very objects (Dispatchers :333 the slice, Signature :101 the Callable, Types tupletype.go the
     slice of slot types) or build new ones from them (Parameters :109/:117 -> parametersFromSignature :65,
     ParameterNames callabletype.go:271, String/ToString/PType/Generic/Get ...).  None of them assigns to anything
     reachable from the function: the state handed on is the state received. *)
  Record fstate := mkF { f_builders : list bstate; f_table : list dispatch }.

  Inductive accessor :=
  | ADispatchers              (* goFunction.Dispatchers :333 (and Name :337, String :354, PType :363, Equals :341) *)
  | AParameters (i : nat)     (* Lambda.Parameters :109 / :117 of dispatcher i *)
  | ASignature (i : nat)      (* lambda.Signature :101, PType :97; ParametersType, ReturnType, Parameters, Get of the Callable *)
  | ANames (i : nat)          (* CallableType.ParameterNames callabletype.go:271 *)
  | ATypes (i : nat)          (* TupleType.Types (the slice itself), Parameters, Get(`types`), At *)
  | ASize (i : nat)           (* TupleType.Size *)
  | ABlockType (i : nat)      (* CallableType.BlockType callabletype.go:111 *)
  | AText (i : nat)           (* String / ToString / Accept / Generic / Equals / IsAssignable of dispatcher, signature, tuple;
                                 px.DescribeSignatures *)
  | AResolve.                 (* functionBuilder.Resolve once more (function.go:148): a new table from the same builders *)

  Inductive aobs :=
  | OCount (n : nat)                      (* how many dispatchers / parameter names *)
  | OParams (ps : list (ty * bool))       (* px.Parameter i: its type and CapturesRest (the names are "1".."n") *)
  | OTypes (ts : list ty)
  | OSize (mn mx : Z)
  | OBlockT (b : option (bool * bty))
  | OText                                 (* a text or a derived object; its content is not compared *)
  | OResolved (ok : bool)
  | OIndexFault.                          (* Dispatchers()[i] with i out of range (the caller's index) *)

  (* parametersFromSignature function.go:65-80: one parameter per name (= per slot type), its type is slot i,
     the last one captures the rest when the tuple's maximum exceeds the number of slots *)
  Fixpoint params_from (ts : list ty) (i : nat) (capture : option nat) : list (ty * bool) :=
    match ts with
    | [] => []
    | t :: r => (t, match capture with Some c => Nat.eqb i c | None => false end) :: params_from r (S i) capture   (* :77 *)
    end.

  Definition parameters_of_sig (s : sig) : list (ty * bool) :=
    let count := length (s_types s) in                                                   (* :66-67 *)
    let capture := if Z.of_nat count <? s_max s then Some (count - 1)%nat else None in   (* :70-73 *)
    params_from (s_types s) 0 capture.                                                   (* :74-78, paramTypes[i], i < count *)

  Definition with_disp (st : fstate) (i : nat) (f : dispatch -> aobs) : fstate * aobs :=
    match nth_error (f_table st) i with
    | Some d => (st, f d)
    | None => (st, OIndexFault)
    end.

  Definition access (st : fstate) (a : accessor) : fstate * aobs :=
    match a with
    | ADispatchers => (st, OCount (length (f_table st)))
    | AParameters i => with_disp st i (fun d => OParams (parameters_of_sig (d_sig d)))
    | ASignature i => with_disp st i (fun _ => OText)
    | ANames i => with_disp st i (fun d => OCount (length (s_types (d_sig d))))
    | ATypes i => with_disp st i (fun d => OTypes (s_types (d_sig d)))
    | ASize i => with_disp st i (fun d => OSize (s_min (d_sig d)) (s_max (d_sig d)))
    | ABlockType i => with_disp st i (fun d => OBlockT (s_block (d_sig d)))
    | AText i => with_disp st i (fun _ => OText)
    | AResolve =>                                     (* Resolve :148-178: createDispatch of every builder, as they are now *)
        match create_all (f_builders st) 0 with
        | inr ds => (mkF (f_builders st) ds, OResolved true)       (* the caller goes on with the new function *)
        | inl _ => (st, OResolved false)
        end
    end.

  Fixpoint run_accessors (st : fstate) (accs : list accessor) : fstate * list aobs :=
    match accs with
    | [] => (st, [])
    | a :: r => let '(st1, o) := access st a in
                let '(st2, os) := run_accessors st1 r in
                (st2, o :: os)
    end.

  (* the state of a function that has just been resolved *)
  Definition resolved_state (ss : list bstate) : option fstate :=
    match create_all ss 0 with inr ds => Some (mkF ss ds) | inl _ => None end.
End Dispatch.

Arguments mkB {ty bty}.
Arguments b_min {ty bty}.
Arguments b_max {ty bty}.
Arguments b_types {ty bty}.
Arguments b_block {ty bty}.
Arguments b_optblock {ty bty}.
Arguments b_ret {ty bty}.
Arguments b_fn {ty bty}.
Arguments b_fn2 {ty bty}.
Arguments b_init {ty bty}.
Arguments after_repeated {ty bty}.
Arguments add_param {ty bty}.
Arguments block2 {ty bty}.
Arguments step {ty bty}.
Arguments run_ops {ty bty}.
Arguments mkSig {ty bty}.
Arguments s_min {ty bty}.
Arguments s_max {ty bty}.
Arguments s_types {ty bty}.
Arguments s_block {ty bty}.
Arguments mkD {ty bty}.
Arguments d_sig {ty bty}.
Arguments d_hasfn {ty bty}.
Arguments create {ty bty}.
Arguments build {ty bty}.
Arguments run_all {ty bty}.
Arguments create_all {ty bty}.
Arguments build_function {ty bty}.
Arguments tuple_loop {ty val}.
Arguments tuple_inst3 {ty val bty}.
Arguments callable_with {ty val bty blk}.
Arguments call_from {ty val bty blk}.
Arguments call {ty val bty blk}.
Arguments param_ty {ty}.
Arguments matches_params {ty val}.
Arguments matches_block {bty blk}.
Arguments matches_decl {ty val bty blk}.
Arguments wf_from {ty}.
Arguments wf_params {ty}.
Arguments params_of {ty bty}.
Arguments blockreq_of {ty bty}.
Arguments op_of_param {ty bty}.
Arguments ops_of_decl {ty bty}.
Arguments ctor_call {ty val bty blk}.
Arguments any_callable {ty val bty blk}.
Arguments assert_inst {ty val}.
Arguments init_create {ty val bty blk}.
Arguments init_new {ty val bty blk}.
Arguments new_typed {ty val bty blk}.
Arguments new_instance {ty val bty blk}.
Arguments OParam {ty bty} t.
Arguments OOptParam {ty bty} t.
Arguments ORepParam {ty bty} t.
Arguments OReqRepParam {ty bty} t.
Arguments OBlock {ty bty} b.
Arguments OOptBlock {ty bty} b.
Arguments OReturns {ty bty}.
Arguments OFunction {ty bty}.
Arguments OFunction2 {ty bty}.
Arguments Req {ty} t.
Arguments Opt {ty} t.
Arguments Rep {ty} t.
Arguments ReqRep {ty} t.
Arguments NoBlock {bty}.
Arguments ReqBlock {bty} b.
Arguments OptBlock {bty} b.
Arguments OVal {val} v.
Arguments OErr {val} e.
Arguments OFault {val}.
Arguments OPanic {val}.
Arguments RcvType {ty} t.
Arguments RcvName {ty} n.
Arguments RcvOther {ty}.
Arguments mkF {ty bty}.
Arguments f_builders {ty bty}.
Arguments f_table {ty bty}.
Arguments OCount {ty bty} n.
Arguments OParams {ty bty} ps.
Arguments OTypes {ty bty} ts.
Arguments OSize {ty bty} mn mx.
Arguments OBlockT {ty bty} b.
Arguments OText {ty bty}.
Arguments OResolved {ty bty} ok.
Arguments OIndexFault {ty bty}.
Arguments params_from {ty}.
Arguments parameters_of_sig {ty bty}.
Arguments with_disp {ty bty}.
Arguments access {ty bty}.
Arguments run_accessors {ty bty}.
Arguments resolved_state {ty bty}.

(* ================================================================================================
   The concrete fragment used by the correspondence run: parameter / receiver types and values.
   ================================================================================================ *)
Inductive pval :=
| VUndef | VBool (b : bool) | VInt (z : Z) | VFloat (bits : N) | VStr (s : str)
| VArr (vs : list pval) | VOther (tag : N).

Inductive pty :=
| PAny | PUndef | PBoolean | PNumeric | PFloat
| PInteger (lo hi : Z)            (* min_int64 / max_int64 = unbounded *)
| PString (lo hi : Z)             (* size in characters *)
| PEnum (vs : list str)
| PEnumCI (vs : list str)         (* case-insensitive Enum; the values are stored lower-cased (enumtype.go NewEnumType) *)
| POptional (t : pty) | PVariant (ts : list pty) | PArray (e : pty) (lo hi : Z)
| PRef (name : str)               (* TypeReference: a name not (yet) resolved; one that stays unresolved has no instances *)
| PAliasT (name : str).           (* a resolved reference to a TypeAliasType: the alias object bound under that name in the
                                     loader in effect when the reference was resolved; its definition is looked up when an
                                     instance is tested (typealiastype.go:135), so definitions may refer to each other in
                                     any order and recursively *)

Definition in_range (lo hi z : Z) : bool := (lo <=? z) && (z <=? hi).

(* utf8.RuneCountInString of a VALID UTF-8 string (stringtype.go:205, after fix bddebb3): the bytes that
   are not continuation bytes 0x80..0xBF.  The harness sends only valid UTF-8. *)
Definition prune_count (s : str) : Z :=
  Z.of_nat (length (filter (fun b => (N.ltb b 128 || N.leb 192 b)%bool) s)).

(* strings.ToLower on ASCII letters (enumtype.go:176, booleantype.go:55).  For the value sets used here
   (false true yes no y n) no non-ASCII rune lower-cases to one of their letters, so this is exact. *)
Definition lower_byte (b : N) : N := if (N.leb 65 b && N.leb b 90)%bool then (b + 32)%N else b.
Definition lower_str (s : str) : str := map lower_byte s.

(* IsInstance of the fragment types (integertype.go:240, stringtype.go, enumtype.go:163,
   optionaltype.go:100, varianttype.go:100, arraytype.go:193, typereferencetype.go:78) *)
Fixpoint pinst (t : pty) (v : pval) {struct t} : bool :=
  match t with
  | PAny => true
  | PUndef => match v with VUndef => true | _ => false end
  | PBoolean => match v with VBool _ => true | _ => false end
  | PNumeric => match v with VInt _ | VFloat _ => true | _ => false end
  | PFloat => match v with VFloat _ => true | _ => false end
  | PInteger lo hi => match v with VInt z => in_range lo hi z | _ => false end
  | PString lo hi => match v with VStr s => in_range lo hi (prune_count s) | _ => false end
  | PEnum vs => match v with
                | VStr s => match vs with [] => true | _ => existsb (str_eqb s) vs end
                | _ => false
                end
  | PEnumCI vs => match v with
                  | VStr s => match vs with [] => true | _ => existsb (str_eqb (lower_str s)) vs end
                  | _ => false
                  end
  | POptional t' => match v with VUndef => true | _ => pinst t' v end
  | PVariant ts => (fix any (l : list pty) : bool :=
                      match l with [] => false | t' :: r => pinst t' v || any r end) ts
  | PArray e lo hi => match v with
                      | VArr vs => in_range lo hi (Z.of_nat (length vs)) && forallb (pinst e) vs
                      | _ => false
                      end
  | PRef _ => false
  | PAliasT _ => false            (* without the definitions; see pinst_in below *)
  end.

(* the entries of one loader scope: local name -> resolved expression of the alias *)
Fixpoint alias_lookup (env : list (str * pty)) (n : str) : option pty :=
  match env with
  | [] => None
  | (m, t) :: r => if str_eqb m n then Some t else alias_lookup r n
  end.

(* a type expression with every type reference replaced by what the loader in effect knows under that
   name (c.ParseType, function.go:191); an unknown name stays a TypeReference *)
Fixpoint subst_with (look : str -> option pty) (t : pty) {struct t} : pty :=
  match t with
  | POptional t' => POptional (subst_with look t')
  | PVariant ts => PVariant ((fix go (l : list pty) : list pty :=
                                match l with [] => [] | t' :: r => subst_with look t' :: go r end) ts)
  | PArray e lo hi => PArray (subst_with look e) lo hi
  | PRef n => match look n with Some d => d | None => PRef n end
  | _ => t
  end.

Definition subst_op_with {bty} (look : str -> option pty) (o : bop pty bty) : bop pty bty :=
  match o with
  | OParam t => OParam (subst_with look t)
  | OOptParam t => OOptParam (subst_with look t)
  | ORepParam t => ORepParam (subst_with look t)
  | OReqRepParam t => OReqRepParam (subst_with look t)
  | o' => o'
  end.

(* Type.Name() of the fragment types *)
Definition s_of (l : list N) : str := l.
Definition pname (t : pty) : str :=
  match t with
  | PAny => [65;110;121]%N
  | PUndef => [85;110;100;101;102]%N
  | PBoolean => [66;111;111;108;101;97;110]%N
  | PNumeric => [78;117;109;101;114;105;99]%N
  | PFloat => [70;108;111;97;116]%N
  | PInteger _ _ => [73;110;116;101;103;101;114]%N
  | PString _ _ => [83;116;114;105;110;103]%N
  | PEnum _ => [69;110;117;109]%N
  | PEnumCI _ => [69;110;117;109]%N
  | POptional _ => [79;112;116;105;111;110;97;108]%N
  | PVariant _ => [86;97;114;105;97;110;116]%N
  | PArray _ _ _ => [65;114;114;97;121]%N
  | PRef n => n
  | PAliasT n => n
  end.

(* the names for which the types package registers a Go constructor (newGoConstructor*:
   integertype.go:54 floattype.go:41 numerictype.go:24 booleantype.go:36 stringtype.go:54
   arraytype.go:48 hashtype.go:73 binarytype.go:26 typetype.go:30 uritype.go:106 timestamptype.go:75
   timespantype.go:83 semvertype.go:39 semverrangetype.go:33 regexptype.go:40 unittype.go:19
   sensitivetype.go:39) *)
Definition core_ctor_names : list str :=
  [ [73;110;116;101;103;101;114]; [70;108;111;97;116]; [78;117;109;101;114;105;99];
    [66;111;111;108;101;97;110]; [83;116;114;105;110;103]; [65;114;114;97;121]; [84;117;112;108;101];
    [72;97;115;104]; [83;116;114;117;99;116]; [66;105;110;97;114;121]; [84;121;112;101]; [85;82;73];
    [84;105;109;101;115;116;97;109;112]; [84;105;109;101;115;112;97;110]; [83;101;109;86;101;114];
    [83;101;109;86;101;114;82;97;110;103;101]; [82;101;103;101;120;112]; [85;110;105;116];
    [83;101;110;115;105;116;105;118;101] ]%N.

Definition has_core_ctor (n : str) : bool := existsb (str_eqb n) core_ctor_names.

(* ================================================================================================
   A core constructor modelled end to end: Boolean (booleantype.go:36-62).
   newGoConstructor(`Boolean`, Param(Variant[Integer, Float, Boolean, Enum['false','true','yes','no','y','n',true]]),
   Function(body)).
   ================================================================================================ *)
Definition boolean_name : str := [66;111;111;108;101;97;110]%N.
Definition s_false : str := [102;97;108;115;101]%N.
Definition s_true : str := [116;114;117;101]%N.
Definition s_yes : str := [121;101;115]%N.
Definition s_no : str := [110;111]%N.
Definition s_y : str := [121]%N.
Definition s_n : str := [110]%N.

Definition boolean_param : pty :=
  PVariant [PInteger min_int64 max_int64; PFloat; PBoolean; PEnumCI [s_false; s_true; s_yes; s_no; s_y; s_n]].

Definition boolean_ops : list (list (bop pty N)) := [[OParam boolean_param; OFunction]].

(* floatValue == 0.0: +0.0 and -0.0 (bits 0 and 2^63) *)
Definition float_is_zero (bits : N) : bool := (N.eqb bits 0 || N.eqb bits 9223372036854775808)%bool.

(* the Go body :39-60; args[0] on an empty slice is an index fault *)
Definition boolean_body (i : nat) (args : list pval) : outcome pval :=
  match args with
  | [] => OFault
  | VInt z :: _ => OVal (VBool (negb (z =? 0)))                           (* :41 *)
  | VFloat b :: _ => OVal (VBool (negb (float_is_zero b)))                (* :46 *)
  | VBool b :: _ => OVal (VBool b)                                        (* :51 *)
  | VStr s :: _ =>                                                        (* :53 default: strings.ToLower(arg.String()) *)
      let l := lower_str s in
      OVal (VBool (negb (str_eqb l s_false || str_eqb l s_no || str_eqb l s_n)))
  | _ :: _ => OVal (VBool true)                                           (* any other value's String() is none of the three *)
  end.

Definition boolean_ctor : option (ctor pty pval N) :=
  match build_function boolean_ops with
  | inr ds => Some (ds, boolean_body)
  | inl _ => None
  end.

(* the loader's constructor table restricted to the constructors modelled end to end *)
Definition modelled_loader (n : str) : option (ctor pty pval N) :=
  if str_eqb n boolean_name then boolean_ctor else None.

Definition no_block (bt : N) (b : option N) : bool := false.

(* px.New(c, T, args...) for a fragment type T with the modelled constructors (no Init types, no Creatable, no
   loadable type names in the fragment) *)
Definition pnew_modelled (t : pty) (args : list pval) : outcome pval :=
  new_instance pinst no_block pname (fun _ => None) (fun _ => None) modelled_loader (fun _ => None) (fun _ => None)
               (RcvType t) args.

(* ================================================================================================
   functionBuilder.Resolve in a context (internal/function.go:148-180, internal/context.go:91-98,
   loader/loader.go:198): the local types of a function live in a loader that is installed in the
   context only while the function is resolved.  The part of pxContext that matters is its current
   loader, modelled as the chain of local-type scopes above the static loader, innermost first.
   ================================================================================================ *)
Definition scope := list (str * pty).
Definition lchain := list scope.
Record pctx := mkCtx { c_loader : lchain }.

(* parentedLoader.LoadEntry (loader.go:198): the parent is asked first, then the loader's own entries.
   A scope maps a local name to the resolved expression of its TypeAliasType. *)
Fixpoint chain_lookup (ch : lchain) (n : str) : option pty :=
  match ch with
  | [] => None
  | own :: parents => match chain_lookup parents n with
                      | Some t => Some t
                      | None => alias_lookup own n
                      end
  end.

(* ---- instance-of with alias objects (typealiastype.go:135-145) ----------------------------------------------
   `look` gives the resolved expression of the alias bound under a name (the alias objects reachable from the
   types of a function: those of the loader in effect when the function was resolved).  IsInstance of an alias
   asks its resolved expression, under a guard: the pair (alias, value) that is being tested already counts as
   true (g.Seen).  `seen` = the aliases entered for the value at hand; descending into the elements of an Array
   changes the value (to a strict part of it, never equal to a value it is part of), so the guard cannot fire
   across that step and `seen` starts empty there.  Explicit fuel (depth of the test), None = OutOfFuel. *)
Fixpoint any_opt {A} (f : A -> option bool) (l : list A) : option bool :=      (* varianttype.go:100: first member that accepts *)
  match l with
  | [] => Some false
  | a :: r => match f a with
              | Some true => Some true
              | Some false => any_opt f r
              | None => None
              end
  end.

Fixpoint all_opt {A} (f : A -> option bool) (l : list A) : option bool :=      (* arraytype.go:193: first element that is rejected *)
  match l with
  | [] => Some true
  | a :: r => match f a with
              | Some true => all_opt f r
              | Some false => Some false
              | None => None
              end
  end.

Fixpoint pinst_in (look : str -> option pty) (fuel : nat) (seen : list str) (t : pty) (v : pval) {struct fuel} : option bool :=
  match fuel with
  | O => None
  | S f =>
      match t with
      | PAliasT n =>
          if existsb (str_eqb n) seen then Some true                          (* typealiastype.go:139 g.Seen *)
          else match look n with
               | Some d => pinst_in look f (n :: seen) d v                    (* :142 the resolved expression *)
               | None => Some false                                           (* not reachable: a bound name has an entry *)
               end
      | POptional t' => match v with VUndef => Some true | _ => pinst_in look f seen t' v end
      | PVariant ts => any_opt (fun t' => pinst_in look f seen t' v) ts
      | PArray e lo hi =>
          match v with
          | VArr vs => if in_range lo hi (Z.of_nat (length vs))
                       then all_opt (fun x => pinst_in look f [] e x) vs
                       else Some false
          | _ => Some false
          end
      | _ => Some (pinst t v)
      end
  end.

(* deep enough for every type and value of the correspondence run; the run checks that it was (inst_fuel_ok) *)
Definition inst_fuel : nat := 200.

Definition cinst (look : str -> option pty) (t : pty) (v : pval) : bool :=
  match pinst_in look inst_fuel [] t v with Some b => b | None => false end.

(* what ParseType / AddTypes accept of the fragment: NewIntegerType panics with a reported error when
   min > max (integertype.go:150) - for Integer ranges and for the size ranges of String and Array *)
Fixpoint pty_ok (t : pty) {struct t} : bool :=
  match t with
  | PInteger lo hi => lo <=? hi
  | PString lo hi => lo <=? hi
  | POptional t' => pty_ok t'
  | PVariant ts => (fix all (l : list pty) : bool :=
                      match l with [] => true | t' :: r => pty_ok t' && all r end) ts
  | PArray e lo hi => (lo <=? hi) && pty_ok e
  | _ => true
  end.

Definition op_ok {bty} (o : bop pty bty) : bool :=
  match o with
  | OParam t | OOptParam t | ORepParam t | OReqRepParam t => pty_ok t
  | _ => true
  end.

(* pxContext.DoWithLoader (context.go:91): the loader is saved, replaced, and restored by a DEFERRED
   function - the restore runs when doer returns and also when doer panics (the panic goes on to the
   caller, who may recover it and keep using the context).  doer may itself change the context. *)
Definition do_with_loader {A} (c : pctx) (l : lchain) (doer : pctx -> pctx * res A) : pctx * res A :=
  let save := c_loader c in                                   (* :92 *)
  match doer (mkCtx l) with                                   (* :96 c.loader = loader; :97 doer() *)
  | (_, Ok a) => (mkCtx save, Ok a)                           (* :93-95 deferred restore, normal return *)
  | (_, Panic p) => (mkCtx save, Panic p)                     (* :93-95 deferred restore while the panic unwinds *)
  end.

(* What a type name resolves to while the local types `names` of a function are installed above `parents`
   (DeferredType.Resolve / c.ParseType, function.go:191): the alias object bound under that name - the
   parent loaders are asked first - or nothing (the name stays a TypeReference). *)
Definition local_ref (parents : lchain) (names : list str) (n : str) : option pty :=
  match chain_lookup parents n with
  | Some _ => Some (PAliasT n)
  | None => if existsb (str_eqb n) names then Some (PAliasT n) else None
  end.

(* Resolve :155-171: ALL declared local types are bound in the local loader first (Type2 entries by SetEntry in
   the loop :164, the parsed declarations together by one px.AddTypes :169, which binds every name :124
   before it resolves any expression :130) - so every local name is visible in every local definition,
   wherever it is declared: forward references, chains and mutual recursion resolve.  A definition that does
   not resolve raises a reported error.  Returns the filled local scope and whether every definition resolved. *)
Definition bind_locals (parents : lchain) (decls : list (str * pty)) : scope * bool :=
  let look := local_ref parents (map fst decls) in
  let own := map (fun d => (fst d, subst_with look (snd d))) decls in
  (own, forallb (fun d => pty_ok (snd d)) own).

(* createDispatch for every dispatch (:170-172, :189-206) with the type references resolved through the
   loader in effect; a type expression that does not resolve raises a reported error *)
Definition resolve_dispatches (look : str -> option pty) (dss : list (list (bop pty N))) : res (list (dispatch pty N)) :=
  let dss' := map (map (subst_op_with look)) dss in
  if forallb (forallb op_ok) dss' then
    match build_function dss' with
    | inr ds => Ok ds
    | inl _ => Panic POther
    end
  else Panic POther.

(* a function as handed to px.BuildFunction: local types and dispatch creators *)
Definition fndecl := (list (str * pty) * list (list (bop pty N)))%type.

(* the builder panicked in dispatch i (BuildFunction) / Resolve raised (reported as dispatch 0, POther) /
   the resolved dispatches *)
Definition fnres := ((nat * pcode) + list (dispatch pty N))%type.

(* the doer of Resolve :154-172 *)
Definition resolve_locals (parents : lchain) (decls : list (str * pty)) (dss : list (list (bop pty N)))
  : pctx * res (list (dispatch pty N)) :=
  let '(own, ok) := bind_locals parents decls in
  let ci' := mkCtx (own :: parents) in                                            (* the local loader, filled *)
  if ok then (ci', resolve_dispatches (local_ref parents (map fst decls)) dss)
  else (ci', Panic POther).

Definition resolve_fn (c : pctx) (f : fndecl) : pctx * fnres :=
  let '(decls, dss) := f in
  match run_all dss 0 with                                    (* buildFunction :123: no context involved *)
  | inl e => (c, inl e)
  | inr _ =>
      let '(c', r) :=
        match decls with
        | [] => (c, resolve_dispatches (local_ref (c_loader c) []) dss)           (* :174-178 *)
        | _ =>
            let parents := c_loader c in
            do_with_loader c ([] :: parents)                                      (* :152-153 *)
              (fun _ => resolve_locals parents decls dss)
        end in
      (c', match r with Ok ds => inr ds | Panic p => inl (0%nat, p) end)
  end.

(* the alias objects the resolved types of the function refer to: the loader chain that was in effect while it
   was resolved (the objects live on in the types after the local loader is gone) *)
Definition fn_look (c : pctx) (f : fndecl) : str -> option pty :=
  match fst f with
  | [] => chain_lookup (c_loader c)
  | decls => chain_lookup (fst (bind_locals (c_loader c) decls) :: c_loader c)
  end.

(* a history: functions built and resolved one after the other in the same context; a Resolve that
   raises is recovered by the caller and the context goes on being used *)
Fixpoint run_history (c : pctx) (h : list fndecl) : pctx * list fnres :=
  match h with
  | [] => (c, [])
  | f :: r =>
      let '(c1, o) := resolve_fn c f in
      let '(c2, os) := run_history c1 r in
      (c2, o :: os)
  end.

(* a fresh context: no local types above the static loader *)
Definition ctx0 : pctx := mkCtx [].
