(* Heap.v — Go slices over backing arrays, with aliasing explicit (property C08).

   A store is a list of backing arrays; a backing array is a list of cells of FIXED length (its capacity);
   a cell is `None` (the zero value, a Go nil) or `Some x`.  A slice is (array address, offset, length,
   capacity), exactly the Go slice header with the pointer split into address + offset.
   Operations: make, s[i:j], s[i:j:k], append (IN PLACE iff len+k <= cap, else a fresh array whose capacity is
   chosen by the growth policy `grow` — a parameter, because Go's growth policy is not part of the language),
   element read.  `happend` is the only primitive that can write into an existing array.

   Definitions only. *)
From Coq Require Import ZArith NArith Bool List.
From PcoreV Require Import Model.Base.
Import ListNotations.
Local Open Scope nat_scope.

Record slice := mkSlice { s_addr : nat; s_off : nat; s_len : nat; s_cap : nat }.

Section Store.
  Context {A : Type}.

  Definition barray := list (option A).
  Definition store := list barray.

  Definition arr_at (h : store) (a : nat) : barray := nth a h [].

  (* the cells s[0..len) *)
  Definition hread (h : store) (s : slice) : list (option A) :=
    firstn (s_len s) (skipn (s_off s) (arr_at h (s_addr s))).

  (* make([]T, len(xs), cap) followed by the assignment of the elements: a fresh array *)
  Definition halloc (h : store) (xs : list A) (cap : nat) : store * slice :=
    let n := length xs in
    let c := Nat.max cap n in
    (h ++ [map Some xs ++ repeat None (c - n)], mkSlice (length h) 0 n c).

  (* s[i:j] — legal when i <= j <= cap(s) (Go checks against the CAPACITY, not the length) *)
  Definition hslice (s : slice) (i j : nat) : option slice :=
    if Nat.leb i j && Nat.leb j (s_cap s)
    then Some (mkSlice (s_addr s) (s_off s + i) (j - i) (s_cap s - i)) else None.

  (* s[i:j:k] — legal when i <= j <= k <= cap(s) *)
  Definition hslice3 (s : slice) (i j k : nat) : option slice :=
    if Nat.leb i j && Nat.leb j k && Nat.leb k (s_cap s)
    then Some (mkSlice (s_addr s) (s_off s + i) (j - i) (k - i)) else None.

  (* overwrite the cells [at, at + length xs) of one array *)
  Fixpoint write_cells (a : barray) (at_ : nat) (xs : list A) : barray :=
    match at_, a with
    | _, [] => []
    | O, _ :: t => match xs with
                   | [] => a
                   | x :: xs' => Some x :: write_cells t O xs'
                   end
    | S at', c :: t => c :: write_cells t at' xs
    end.

  Fixpoint update_nth {B} (i : nat) (f : B -> B) (l : list B) : list B :=
    match l, i with
    | [], _ => []
    | x :: t, O => f x :: t
    | x :: t, S i' => x :: update_nth i' f t
    end.

  (* append(s, xs...) *)
  Definition happend (grow : nat -> nat -> nat) (h : store) (s : slice) (xs : list A) : store * slice :=
    let k := length xs in
    if Nat.leb (s_len s + k) (s_cap s) then
      (* in place: the cells after the length, in the array of s, are overwritten *)
      (update_nth (s_addr s) (fun a => write_cells a (s_off s + s_len s) xs) h,
       mkSlice (s_addr s) (s_off s) (s_len s + k) (s_cap s))
    else
      (* a fresh array: the old cells are copied, the capacity is at least the need *)
      let need := s_len s + k in
      let c := Nat.max need (grow (s_cap s) need) in
      (h ++ [hread h s ++ map Some xs ++ repeat None (c - need)], mkSlice (length h) 0 need c).
End Store.

Arguments store : clear implicits.
Arguments barray : clear implicits.
