(* Ser.v — executable model of the rich-data serializer, the basic collector and the deserializer
   (property C10).  Definitions only.

   Go sources mirrored (after the fix commits 5887804, ec4d6ca):
     serialization/serializer.go    NewSerializer, Convert, toData, process, addData/addHash/addArray,
                                    nonStringKeyedHashToData, toKeyExtendedHash, valueToDataHash,
                                    pcoreTypeToData, unknownToStringWithWarning
     types/basiccollector.go        Add, AddRef, AddArray, AddHash, Value
     serialization/deserializer.go  convert, convertHash, convertSensitive, convertOther,
                                    pcoreTypeHashToValue

   Values are trees whose shareable nodes carry an identity tag: the key under which the Go value sits in
   the serializer's `values map[px.Value]int` (serializer.go:32) — pointer identity for pointer kinds,
   content for value kinds; strings are compared by content and are keyed by their bytes.

   Rich scalars (Regexp, SemVer, SemVerRange, Timespan, Timestamp, URI, Binary, types) are abstract
   payloads; their SerializationString and their constructor from a string are the Section parameters
   [to_s] and [of_s].  What the serializer asks the runtime about a rich value (does it have a
   serialization string, is its type name known to the loader, its init hash, its String()) is data of
   the term, supplied by the harness from the real value. *)
From Coq Require Import ZArith NArith Bool Ascii String.
From PcoreV Require Import Model.Base.
From Coq Require Import List.
Import ListNotations.
Local Open Scope nat_scope.

(* ---------- literals ---------- *)
Definition bytes_of (s : string) : str := map (fun a => N_of_ascii a) (list_ascii_of_string s).

(* extension.go:3-27 *)
Definition ptype_key   : str := Eval compute in bytes_of "__ptype".
Definition pvalue_key  : str := Eval compute in bytes_of "__pvalue".
Definition t_hash      : str := Eval compute in bytes_of "Hash".
Definition t_sensitive : str := Eval compute in bytes_of "Sensitive".
Definition t_default   : str := Eval compute in bytes_of "Default".
Definition t_binary    : str := Eval compute in bytes_of "Binary".
(* serializer.go:118 *)
Definition s_default   : str := Eval compute in bytes_of "default".
(* types/sensitivetype.go:177: the String() of every Sensitive *)
Definition s_sensitive : str := Eval compute in bytes_of "Sensitive [value redacted]".

(* ---------- results ---------- *)
Inductive res (A : Type) : Type :=
| Ok (a : A)
| Fault      (* a Go runtime fault: index out of range, failed type assertion *)
| Err.       (* a reported pcore error (panic with an issue) *)
Arguments Ok {A} a.
Arguments Fault {A}.
Arguments Err {A}.

Definition bind {A B} (r : res A) (f : A -> res B) : res B :=
  match r with Ok a => f a | Fault => Fault | Err => Err end.

Definition is_ok {A} (r : res A) : bool := match r with Ok _ => true | _ => false end.
Definition is_fault {A} (r : res A) : bool := match r with Fault => true | _ => false end.

Section Ser.
Context {payload : Type}.
(* SerializationString of a rich scalar of the named type, and its constructor from that string *)
Context (to_s : str -> payload -> str).
Context (of_s : str -> str -> option payload).

(* ---------- the three universes ---------- *)

(* what travels through a px.ValueConsumer and what a BasicCollector builds *)
Inductive data : Type :=
| DUndef | DBool (b : bool) | DInt (z : Z) | DFloat (bits : Z) | DStr (s : str)
| DBin (p : payload)
| DArr (l : list data)
| DHash (l : list (data * data)).

(* px/valueconsumer.go: Add, AddRef, AddArray(len, doer), AddHash(len, doer); EEnd = return of the doer *)
Inductive event : Type :=
| EAdd (d : data) | ERef (n : nat) | EArr (n : nat) | EHash (n : nat) | EEnd.

(* rich values with identity tags *)
Inductive rvalue : Type :=
| VUndef | VBool (b : bool) | VInt (z : Z) | VFloat (bits : Z)
| VStr (s : str)
| VDefault
| VArr (id : N) (vs : list rvalue)
| VHash (id : N) (es : list (rvalue * str * rvalue))   (* key, key.String(), value *)
| VSens (id : N) (v : rvalue)
| VBin (id : N) (p : payload) (disp : str)              (* disp = String() *)
| VRich (id : N) (tn : str) (tlvl2 : bool) (p : payload) (disp : str)
    (* a value with a serialization string; tn = name of its type as written under __ptype;
       tlvl2: that name is emitted at key level (known alias/object types, serializer.go:262,275) *)
| VObj (id : N) (ty : rvalue) (hint : nat) (attrs : list (str * rvalue)) (disp : str).
    (* an object: ty = what pcoreTypeToData emits for its type (a VStr name or the inline type),
       attrs = init hash / trimmed attribute list, hint = the length given to AddHash *)

(* what the deserializer rebuilds: no identities, no display strings *)
Inductive pvalue : Type :=
| PUndef | PBool (b : bool) | PInt (z : Z) | PFloat (bits : Z) | PStr (s : str) | PDefault
| PArr (l : list pvalue)
| PHash (l : list (pvalue * pvalue))
| PSens (v : pvalue)
| PRich (tn : str) (p : payload)
| PObj (ty : pvalue) (attrs : list (pvalue * pvalue)).

(* ---------- options and capabilities ---------- *)
Record opts := mkopts { rich_data : bool; local_reference : bool; dedup_level : N }.
Record caps := mkcaps { can_binary : bool; can_complex_keys : bool; threshold : N }.

Record env := mkenv { e_rich : bool; e_dedup : N; e_bin : bool; e_ck : bool; e_thr : N }.

(* serializer.go:42-54 NewSerializer and :65-69 Convert *)
Definition env_of (o : opts) (c : caps) : env :=
  let d := if local_reference o then dedup_level o else 0%N in
  let d := if (2 <=? d)%N && negb (can_complex_keys c) then 1%N else d in
  mkenv (rich_data o) d (can_binary c) (can_complex_keys c) (threshold c).

(* ---------- the serializer ---------- *)
(* the `level` argument of toData: 1 for values, 2 for hash keys (serializer.go:14-16, :100) *)
Definition lv : N := 1%N.
Definition lk : N := 2%N.

Inductive mkey := KStr (s : str) | KId (id : N).
Definition mkey_eqb (a b : mkey) : bool :=
  match a, b with
  | KStr s, KStr t => str_eqb s t
  | KId i, KId j => N.eqb i j
  | _, _ => false
  end.

(* serializer.go:30-37: the `values` map and refIndex *)
Record sctx := mksctx { vals : list (mkey * nat); ridx : nat }.

Fixpoint lookup (k : mkey) (l : list (mkey * nat)) : option nat :=
  match l with
  | [] => None
  | (k', i) :: l' => if mkey_eqb k k' then Some i else lookup k l'
  end.
Fixpoint remove_key (k : mkey) (l : list (mkey * nat)) : list (mkey * nat) :=
  match l with
  | [] => []
  | (k', i) :: l' => if mkey_eqb k k' then remove_key k l' else (k', i) :: remove_key k l'
  end.

Definition emitter := sctx -> sctx * list event.

Definition seq (f g : emitter) : emitter :=
  fun st => let '(st1, e1) := f st in let '(st2, e2) := g st1 in (st2, e1 ++ e2).
Definition nop : emitter := fun st => (st, []).

(* serializer.go:246-249 addData *)
Definition add_data (d : data) : emitter :=
  fun st => (mksctx (vals st) (S (ridx st)), [EAdd d]).
(* serializer.go:241-244 addHash, :236-239 addArray *)
Definition add_hash (n : nat) (body : emitter) : emitter :=
  fun st => let '(st', evs) := body (mksctx (vals st) (S (ridx st))) in (st', EHash n :: evs ++ [EEnd]).
Definition add_array (n : nat) (body : emitter) : emitter :=
  fun st => let '(st', evs) := body (mksctx (vals st) (S (ridx st))) in (st', EArr n :: evs ++ [EEnd]).

(* serializer.go:199-217 process (with the fix: a body that produced no position is forgotten) *)
Definition process (e : env) (k : mkey) (doer : emitter) : emitter :=
  fun st =>
    if N.eqb (e_dedup e) 0 then doer st
    else match lookup k (vals st) with
         | Some r => (st, [ERef r])
         | None =>
             let idx := ridx st in
             let '(st', evs) := doer (mksctx ((k, idx) :: vals st) idx) in
             if Nat.eqb (ridx st') idx then (mksctx (remove_key k (vals st')) (ridx st'), evs)
             else (st', evs)
         end.

(* serializer.go:98-108 toData on a string *)
Definition to_data_str (e : env) (lvl : N) (s : str) : emitter :=
  if (lvl <=? e_dedup e)%N && (e_thr e <=? N.of_nat (length s))%N
  then process e (KStr s) (add_data (DStr s))
  else add_data (DStr s).

(* types/hashtype.go:753 AllKeysAreStrings *)
Definition is_vstr (v : rvalue) : bool := match v with VStr _ => true | _ => false end.
Definition all_keys_str (es : list (rvalue * str * rvalue)) : bool :=
  forallb (fun e => is_vstr (fst (fst e))) es.

(* serializer.go:87-183 toData, :219-234 nonStringKeyedHashToData, :364-379 toKeyExtendedHash,
   :252-350 valueToDataHash (the classification of rich values is data of the term) *)
Fixpoint to_data (e : env) (lvl : N) (v : rvalue) {struct v} : emitter :=
  match v with
  | VUndef => add_data DUndef                                              (* :94-96 *)
  | VBool b => add_data (DBool b)
  | VInt z => add_data (DInt z)
  | VFloat f => add_data (DFloat f)
  | VStr s => to_data_str e lvl s                                          (* :97-107 *)
  | VDefault =>                                                            (* :108-117 *)
      if e_rich e
      then add_hash 1 (seq (to_data_str e lk ptype_key) (to_data_str e lv t_default))
      else to_data_str e lv s_default
  | VHash id es =>
      if e_ck e || all_keys_str es then                                    (* :118-128 *)
        process e (KId id) (add_hash (length es)
          ((fix entries (l : list (rvalue * str * rvalue)) : emitter :=
              match l with
              | [] => nop
              | (k, _, x) :: l' => seq (to_data e lk k) (seq (to_data e lv x) (entries l'))
              end) es))
      else if e_rich e then                                                (* :364-379 *)
        process e (KId id) (add_hash 2
          (seq (to_data_str e lk ptype_key) (seq (to_data_str e lv t_hash) (seq (to_data_str e lk pvalue_key)
            (add_array (length es * 2)
              ((fix entries (l : list (rvalue * str * rvalue)) : emitter :=
                  match l with
                  | [] => nop
                  | (k, _, x) :: l' => seq (to_data e lv k) (seq (to_data e lv x) (entries l'))
                  end) es))))))
      else                                                                 (* :224-234 *)
        process e (KId id) (add_hash (length es)
          ((fix entries (l : list (rvalue * str * rvalue)) : emitter :=
              match l with
              | [] => nop
              | (k, kd, x) :: l' =>
                  seq (match k with VStr s => to_data_str e lk s | _ => to_data_str e lk kd end)
                      (seq (to_data e lv x) (entries l'))
              end) es))
  | VArr id vs =>                                                          (* :131-138 *)
      process e (KId id) (add_array (length vs)
        ((fix elems (l : list rvalue) : emitter :=
            match l with
            | [] => nop
            | x :: l' => seq (to_data e lv x) (elems l')
            end) vs))
  | VSens id x =>                                                          (* :139-151 *)
      process e (KId id)
        (if e_rich e
         then add_hash 2 (seq (to_data_str e lk ptype_key) (seq (to_data_str e lv t_sensitive)
                (seq (to_data_str e lk pvalue_key) (to_data e lv x))))
         else to_data_str e lvl s_sensitive)
  | VBin id p disp =>                                                      (* :152-168 *)
      process e (KId id)
        (if e_bin e then add_data (DBin p)
         else if e_rich e
         then add_hash 2 (seq (to_data_str e lk ptype_key) (seq (to_data_str e lv t_binary)
                (seq (to_data_str e lk pvalue_key) (to_data_str e lv (to_s t_binary p)))))
         else to_data_str e lvl disp)
  | VRich id tn tlvl2 p disp =>                                            (* :169-174, :258-303 *)
      if e_rich e
      then process e (KId id)
             (add_hash 2 (seq (to_data_str e lk ptype_key) (seq (to_data_str e (if tlvl2 then lk else lv) tn)
                (seq (to_data_str e lk pvalue_key) (to_data_str e lv (to_s tn p))))))
      else to_data_str e lv disp
  | VObj id ty hint attrs disp =>                                          (* :169-174, :305-347 *)
      if e_rich e
      then process e (KId id)
             (add_hash hint (seq (to_data_str e lk ptype_key) (seq (to_data e lv ty)
                ((fix fields (l : list (str * rvalue)) : emitter :=
                    match l with
                    | [] => nop
                    | (k, x) :: l' => seq (to_data_str e lk k) (seq (to_data e lv x) (fields l'))
                    end) attrs))))
      else to_data_str e lv disp
  end.

(* serializer.go:63-70 Convert *)
Definition serialize (o : opts) (c : caps) (x : rvalue) : list event :=
  snd (to_data (env_of o c) lv x (mksctx [] 0)).

(* ---------- the collector (types/basiccollector.go) ---------- *)
(* values []px.Value becomes positions: None = a container that is still open (the real collector holds
   the pointer of the array/hash under construction; only a cyclic input can refer to it). *)
Record frame := mkframe { f_hash : bool; f_pos : nat; f_items : list data (* newest first *) }.
Record cstate := mkcstate { positions : list (option data); frames : list frame; root : list data }.

Definition cinit : cstate := mkcstate [] [] [].

Definition push (d : data) (cs : cstate) : cstate :=
  match frames cs with
  | [] => mkcstate (positions cs) [] (d :: root cs)
  | f :: fs => mkcstate (positions cs) (mkframe (f_hash f) (f_pos f) (d :: f_items f) :: fs) (root cs)
  end.

Fixpoint set_nth {A} (n : nat) (x : A) (l : list A) : list A :=
  match l, n with
  | [], _ => []
  | _ :: l', O => x :: l'
  | y :: l', S n' => y :: set_nth n' x l'
  end.

(* basiccollector.go:47-50: entries from the flat child list; an odd count indexes past the end *)
Fixpoint pair_up {A} (l : list A) : option (list (A * A)) :=
  match l with
  | [] => Some []
  | k :: v :: l' => match pair_up l' with Some r => Some ((k, v) :: r) | None => None end
  | [_] => None
  end.

Definition cstep (cs : cstate) (ev : event) : res cstate :=
  match ev with
  | EAdd d =>                                                              (* :55-59 *)
      let cs' := push d cs in Ok (mkcstate (positions cs' ++ [Some d]) (frames cs') (root cs'))
  | ERef n =>                                                              (* :61-64 *)
      match nth_error (positions cs) n with
      | Some (Some d) => Ok (push d cs)
      | Some None => Fault   (* reference to a container still under construction: cyclic value *)
      | None => Fault        (* index out of range *)
      end
  | EArr _ =>                                                              (* :24-34 *)
      Ok (mkcstate (positions cs ++ [None]) (mkframe false (length (positions cs)) [] :: frames cs) (root cs))
  | EHash _ =>                                                             (* :36-53 *)
      Ok (mkcstate (positions cs ++ [None]) (mkframe true (length (positions cs)) [] :: frames cs) (root cs))
  | EEnd =>
      match frames cs with
      | [] => Fault
      | f :: fs =>
          let items := rev (f_items f) in
          match (if f_hash f then option_map DHash (pair_up items) else Some (DArr items)) with
          | None => Fault
          | Some d => Ok (push d (mkcstate (set_nth (f_pos f) (Some d) (positions cs)) fs (root cs)))
          end
      end
  end.

Fixpoint crun (cs : cstate) (evs : list event) : res cstate :=
  match evs with
  | [] => Ok cs
  | ev :: evs' => bind (cstep cs ev) (fun cs' => crun cs' evs')
  end.

(* basiccollector.go:89-91 Value: stack[0][0] *)
Definition collect (evs : list event) : res data :=
  bind (crun cinit evs) (fun cs =>
    match frames cs with
    | _ :: _ => Fault
    | [] => match rev (root cs) with d :: _ => Ok d | [] => Fault end
    end).

(* ---------- the deserializer (serialization/deserializer.go) ---------- *)
Fixpoint sequence {A} (l : list (res A)) : res (list A) :=
  match l with
  | [] => Ok []
  | r :: l' => bind r (fun a => bind (sequence l') (fun t => Ok (a :: t)))
  end.

Definition is_dstr (d : data) : bool := match d with DStr _ => true | _ => false end.
Definition dkey_is (s : str) (d : data) : bool := match d with DStr t => str_eqb s t | _ => false end.

(* an entry together with the conversions of its key and of its value *)
Definition centry : Type := (data * data * res pvalue * res pvalue)%type.

Fixpoint clookup (s : str) (l : list centry) : option (data * res pvalue) :=
  match l with
  | [] => None
  | (k, v, _, rv) :: l' => if dkey_is s k then Some (v, rv) else clookup s l'
  end.

Definition centry_pair (c : centry) : res (pvalue * pvalue) :=
  let '(_, _, rk, rv) := c in bind rk (fun k => bind rv (fun v => Ok (k, v))).

(* deserializer.go:42-107 convert. The `converted` memo (pointer keyed) only preserves sharing and has
   no counterpart here; the conversions of all children are computed first (structural recursion) and
   the code picks the ones it uses. Registration of deserialized types with the loader (:57-86) and the
   resolution of type names (:143-150) are outside the model: a type name is kept as a name. *)
Fixpoint deser (d : data) : res pvalue :=
  match d with
  | DUndef => Ok PUndef
  | DBool b => Ok (PBool b)
  | DInt z => Ok (PInt z)
  | DFloat f => Ok (PFloat f)
  | DStr s => Ok (PStr s)
  | DBin p => Ok (PRich t_binary p)
  | DArr l =>                                                              (* :98-105 *)
      bind (sequence ((fix go (l : list data) : list (res pvalue) :=
                         match l with [] => [] | x :: l' => deser x :: go l' end) l))
           (fun ps => Ok (PArr ps))
  | DHash l =>
      let cl := (fix go (l : list (data * data)) : list centry :=
                   match l with [] => [] | (k, v) :: l' => (k, v, deser k, deser v) :: go l' end) l in
      let plain := bind (sequence (map centry_pair cl)) (fun ps => Ok (PHash ps)) in   (* :89-96 *)
      if forallb (fun c => is_dstr (fst (fst (fst c)))) cl then            (* :48 AllKeysAreStrings *)
        match clookup ptype_key cl with                                    (* :49 *)
        | None => plain
        | Some (tv, rtv) =>
            if dkey_is t_hash tv then                                      (* :51-52, :109-119 convertHash *)
              match clookup pvalue_key cl with
              | None => Ok (PHash [])
              | Some (DArr _, rv) =>
                  bind rv (fun pv => match pv with
                                     | PArr ps => match pair_up ps with Some es => Ok (PHash es) | None => Fault end
                                     | _ => Fault end)
              | Some _ => Fault                                            (* .(px.List) *)
              end
            else if dkey_is t_sensitive tv then                            (* :53-54, :121-125 *)
              match clookup pvalue_key cl with
              | None => Ok (PSens PUndef)
              | Some (_, rv) => bind rv (fun pv => Ok (PSens pv))
              end
            else if dkey_is t_default tv then Ok PDefault                  (* :55-56 *)
            else                                                           (* :57-58, :127-151 convertOther *)
              let rtyp : res pvalue :=
                match tv with
                | DHash _ => bind rtv (fun t => match t with PHash _ => Err | _ => Ok t end)   (* :136-144 *)
                | DStr s => Ok (PStr s)                                    (* :145 ParseTypeValue *)
                | _ => Err
                end in
              bind rtyp (fun typ =>
                match clookup pvalue_key cl with                           (* :128-135 *)
                | None =>                                                  (* the hash without __ptype *)
                    bind (sequence (map centry_pair (filter (fun c => negb (dkey_is ptype_key (fst (fst (fst c))))) cl)))
                         (fun ps => Ok (PObj typ ps))                      (* :153-171 *)
                | Some (DHash _, rv) =>
                    bind rv (fun pv => match pv with PHash ps => Ok (PObj typ ps) | _ => Fault end)
                | Some (DStr s, _) =>                                      (* :172-174 px.New(typ, str) *)
                    match typ with
                    | PStr tn => match of_s tn s with Some p => Ok (PRich tn p) | None => Err end
                    | _ => Err
                    end
                | Some _ => Err                                            (* :176 *)
                end)
        end
      else plain
  end.

(* deserializer.go:33-39 Value *)
Definition roundtrip (o : opts) (c : caps) (x : rvalue) : res pvalue :=
  bind (collect (serialize o c x)) deser.

(* ---------- specification-level images ---------- *)

(* the value as the deserializer is expected to rebuild it *)
Fixpoint erase (v : rvalue) : pvalue :=
  match v with
  | VUndef => PUndef | VBool b => PBool b | VInt z => PInt z | VFloat f => PFloat f
  | VStr s => PStr s | VDefault => PDefault
  | VArr _ vs => PArr (map erase vs)
  | VHash _ es => PHash ((fix go (l : list (rvalue * str * rvalue)) :=
                           match l with [] => [] | (k, _, x) :: l' => (erase k, erase x) :: go l' end) es)
  | VSens _ x => PSens (erase x)
  | VBin _ p _ => PRich t_binary p
  | VRich _ tn _ p _ => PRich tn p
  | VObj _ ty _ attrs _ =>
      PObj (erase ty) ((fix go (l : list (str * rvalue)) :=
                          match l with [] => [] | (k, x) :: l' => (PStr k, erase x) :: go l' end) attrs)
  end.

(* the documented lossy image when rich_data is off *)
Fixpoint degrade (e : env) (v : rvalue) : pvalue :=
  match v with
  | VUndef => PUndef | VBool b => PBool b | VInt z => PInt z | VFloat f => PFloat f
  | VStr s => PStr s
  | VDefault => PStr s_default
  | VArr _ vs => PArr (map (degrade e) vs)
  | VHash _ es =>
      if e_ck e || all_keys_str es
      then PHash ((fix go (l : list (rvalue * str * rvalue)) :=
                     match l with [] => [] | (k, _, x) :: l' => (degrade e k, degrade e x) :: go l' end) es)
      else PHash ((fix go (l : list (rvalue * str * rvalue)) :=
                     match l with
                     | [] => []
                     | (k, kd, x) :: l' => (match k with VStr s => PStr s | _ => PStr kd end, degrade e x) :: go l'
                     end) es)
  | VSens _ _ => PStr s_sensitive
  | VBin _ p disp => if e_bin e then PRich t_binary p else PStr disp
  | VRich _ _ _ _ disp => PStr disp
  | VObj _ _ _ _ disp => PStr disp
  end.

Definition expected (e : env) (x : rvalue) : pvalue := if e_rich e then erase x else degrade e x.

(* the Data tree a reference-free stream builds: what every back-reference must resolve to *)
Fixpoint image (e : env) (v : rvalue) : data :=
  match v with
  | VUndef => DUndef | VBool b => DBool b | VInt z => DInt z | VFloat f => DFloat f
  | VStr s => DStr s
  | VDefault => if e_rich e then DHash [(DStr ptype_key, DStr t_default)] else DStr s_default
  | VArr _ vs => DArr (map (image e) vs)
  | VHash _ es =>
      if e_ck e || all_keys_str es
      then DHash ((fix go (l : list (rvalue * str * rvalue)) :=
                     match l with [] => [] | (k, _, x) :: l' => (image e k, image e x) :: go l' end) es)
      else if e_rich e
      then DHash [(DStr ptype_key, DStr t_hash);
                  (DStr pvalue_key, DArr ((fix go (l : list (rvalue * str * rvalue)) :=
                     match l with [] => [] | (k, _, x) :: l' => image e k :: image e x :: go l' end) es))]
      else DHash ((fix go (l : list (rvalue * str * rvalue)) :=
                     match l with
                     | [] => []
                     | (k, kd, x) :: l' => (match k with VStr s => DStr s | _ => DStr kd end, image e x) :: go l'
                     end) es)
  | VSens _ x =>
      if e_rich e then DHash [(DStr ptype_key, DStr t_sensitive); (DStr pvalue_key, image e x)]
      else DStr s_sensitive
  | VBin _ p disp =>
      if e_bin e then DBin p
      else if e_rich e then DHash [(DStr ptype_key, DStr t_binary); (DStr pvalue_key, DStr (to_s t_binary p))]
      else DStr disp
  | VRich _ tn _ p disp =>
      if e_rich e then DHash [(DStr ptype_key, DStr tn); (DStr pvalue_key, DStr (to_s tn p))]
      else DStr disp
  | VObj _ ty _ attrs disp =>
      if e_rich e
      then DHash ((DStr ptype_key, image e ty) ::
                  (fix go (l : list (str * rvalue)) :=
                     match l with [] => [] | (k, x) :: l' => (DStr k, image e x) :: go l' end) attrs)
      else DStr disp
  end.

(* ---------- the values on which the format is unambiguous ---------- *)
(* The deserializer takes every hash whose keys are all strings and include __ptype for the encoding of a
   rich value (deserializer.go:48-58), so a *user* hash of that shape - in the value, or in its lossy image -
   cannot round-trip: open finding user-hash-ptype-key.  rt_ok excludes exactly that, plus three shapes the
   real library cannot produce: a value with a serialization string whose type is named Hash, Sensitive or
   Default; an object whose type is given neither by name nor as a type value; an attribute named __ptype
   or __pvalue. *)
Definition reserved_tn (s : str) : bool := str_eqb t_hash s || str_eqb t_sensitive s || str_eqb t_default s.
Definition reserved_key (s : str) : bool := str_eqb ptype_key s || str_eqb pvalue_key s.
Definition reads_as_rich (keys : list data) : bool := forallb is_dstr keys && existsb (dkey_is ptype_key) keys.

Fixpoint rt_ok (e : env) (v : rvalue) {struct v} : bool :=
  match v with
  | VArr _ vs => forallb (rt_ok e) vs
  | VHash _ es =>
      if e_ck e || all_keys_str es then
        forallb (fun en => rt_ok e (fst (fst en)) && rt_ok e (snd en)) es &&
        negb (reads_as_rich (map (fun en => image e (fst (fst en))) es))
      else if e_rich e then
        forallb (fun en => rt_ok e (fst (fst en)) && rt_ok e (snd en)) es
      else
        forallb (fun en => rt_ok e (snd en)) es &&
        negb (existsb (fun en => match fst (fst en) with
                                 | VStr s => str_eqb ptype_key s
                                 | _ => str_eqb ptype_key (snd (fst en))
                                 end) es)
  | VSens _ x => negb (e_rich e) || rt_ok e x
  | VRich _ tn _ _ _ => negb (e_rich e) || negb (reserved_tn tn)
  | VObj _ ty _ attrs _ =>
      negb (e_rich e) ||
      (rt_ok e ty &&
       match ty with
       | VStr s => negb (reserved_tn s)
       | VRich _ _ _ _ _ | VObj _ _ _ _ _ => true
       | _ => false
       end &&
       forallb (fun a => negb (reserved_key (fst a)) && rt_ok e (snd a)) attrs)
  | _ => true
  end.

(* the plain Data fragment: what needs no rich encoding *)
Fixpoint is_data (v : rvalue) : bool :=
  match v with
  | VUndef | VBool _ | VInt _ | VFloat _ | VStr _ => true
  | VArr _ vs => forallb is_data vs
  | VHash _ es => forallb (fun en => is_vstr (fst (fst en)) && is_data (snd en)) es
  | _ => false
  end.

(* ---------- identity tags name subtrees, as a checker ---------- *)
Definition id_of (v : rvalue) : option N :=
  match v with
  | VArr id _ | VHash id _ | VSens id _ | VBin id _ _ | VRich id _ _ _ _ | VObj id _ _ _ _ => Some id
  | _ => None
  end.

(* every node of v, v first *)
Fixpoint nodes (v : rvalue) : list rvalue :=
  v :: match v with
       | VArr _ vs => flat_map nodes vs
       | VHash _ es => flat_map (fun en => nodes (fst (fst en)) ++ nodes (snd en)) es
       | VSens _ x => nodes x
       | VObj _ ty _ attrs _ => nodes ty ++ flat_map (fun a => nodes (snd a)) attrs
       | _ => []
       end.

(* structural equality of values, given an equality test on payloads *)
Fixpoint rvalue_eqb (peqb : payload -> payload -> bool) (a b : rvalue) {struct a} : bool :=
  match a, b with
  | VUndef, VUndef => true
  | VDefault, VDefault => true
  | VBool x, VBool y => Bool.eqb x y
  | VInt x, VInt y => Z.eqb x y
  | VFloat x, VFloat y => Z.eqb x y
  | VStr x, VStr y => str_eqb x y
  | VArr i x, VArr j y =>
      N.eqb i j &&
      (fix go (x y : list rvalue) : bool :=
         match x, y with
         | [], [] => true
         | a :: x', b :: y' => rvalue_eqb peqb a b && go x' y'
         | _, _ => false
         end) x y
  | VHash i x, VHash j y =>
      N.eqb i j &&
      (fix go (x y : list (rvalue * str * rvalue)) : bool :=
         match x, y with
         | [], [] => true
         | (k, kd, v) :: x', (k2, kd2, v2) :: y' =>
             rvalue_eqb peqb k k2 && str_eqb kd kd2 && rvalue_eqb peqb v v2 && go x' y'
         | _, _ => false
         end) x y
  | VSens i x, VSens j y => N.eqb i j && rvalue_eqb peqb x y
  | VBin i p d, VBin j q d2 => N.eqb i j && peqb p q && str_eqb d d2
  | VRich i tn l p d, VRich j tn2 l2 q d2 =>
      N.eqb i j && str_eqb tn tn2 && Bool.eqb l l2 && peqb p q && str_eqb d d2
  | VObj i ty h ats d, VObj j ty2 h2 ats2 d2 =>
      N.eqb i j && rvalue_eqb peqb ty ty2 && Nat.eqb h h2 &&
      (fix go (x y : list (str * rvalue)) : bool :=
         match x, y with
         | [], [] => true
         | (k, v) :: x', (k2, v2) :: y' => str_eqb k k2 && rvalue_eqb peqb v v2 && go x' y'
         | _, _ => false
         end) ats ats2 && str_eqb d d2
  | _, _ => false
  end.

(* two nodes with the same tag are the same tree (eqb: a sound equality test on values) *)
Definition wf_richb (eqb : rvalue -> rvalue -> bool) (x : rvalue) : bool :=
  forallb (fun a => forallb (fun b =>
    match id_of a, id_of b with
    | Some i, Some j => if N.eqb i j then eqb a b else true
    | _, _ => true
    end) (nodes x)) (nodes x).

(* ---------- well-formedness of a stream, as a checker ---------- *)
(* every back-reference points to an earlier position; a hash receives an even number of children;
   only plain Data goes to a consumer that lacks a capability: no Binary without can_binary, and
   without can_complex_keys every hash key is a string delivered by Add (not a container, not a
   reference, not another scalar). State: number of positions, stack of (is_hash, children so far). *)
Definition is_plain_scalar (bin : bool) (d : data) : bool :=
  match d with
  | DUndef | DBool _ | DInt _ | DFloat _ | DStr _ => true
  | DBin _ => bin
  | DArr _ | DHash _ => false
  end.

Definition key_slot (stk : list (bool * nat)) : bool :=
  match stk with (true, n) :: _ => Nat.even n | _ => false end.
Definition bump (stk : list (bool * nat)) : list (bool * nat) :=
  match stk with (h, n) :: t => (h, S n) :: t | [] => [] end.

Fixpoint wf_stream_from (c : env) (npos : nat) (stk : list (bool * nat)) (evs : list event) : bool :=
  match evs with
  | [] => match stk with [] => true | _ => false end
  | EAdd d :: evs' =>
      is_plain_scalar (e_bin c) d &&
      (negb (key_slot stk) || e_ck c || is_dstr d) &&
      wf_stream_from c (S npos) (bump stk) evs'
  | ERef n :: evs' =>
      Nat.ltb n npos && (negb (key_slot stk) || e_ck c) && wf_stream_from c npos (bump stk) evs'
  | EArr _ :: evs' =>
      (negb (key_slot stk) || e_ck c) && wf_stream_from c (S npos) ((false, O) :: bump stk) evs'
  | EHash _ :: evs' =>
      (negb (key_slot stk) || e_ck c) && wf_stream_from c (S npos) ((true, O) :: bump stk) evs'
  | EEnd :: evs' =>
      match stk with
      | [] => false
      | (h, n) :: t => (negb h || Nat.even n) && wf_stream_from c npos t evs'
      end
  end.
Definition wf_stream (c : env) (evs : list event) : bool := wf_stream_from c O [] evs.

End Ser.

Arguments DUndef {payload}.
Arguments DBool {payload} b.
Arguments DInt {payload} z.
Arguments DFloat {payload} bits.
Arguments DStr {payload} s.
Arguments EAdd {payload} d.
Arguments ERef {payload} n.
Arguments EArr {payload} n.
Arguments EHash {payload} n.
Arguments EEnd {payload}.
Arguments VUndef {payload}.
Arguments VBool {payload} b.
Arguments VInt {payload} z.
Arguments VFloat {payload} bits.
Arguments VStr {payload} s.
Arguments VDefault {payload}.
Arguments PUndef {payload}.
Arguments PBool {payload} b.
Arguments PInt {payload} z.
Arguments PFloat {payload} bits.
Arguments PStr {payload} s.
Arguments PDefault {payload}.
Arguments cinit {payload}.
