(* JsonSer.v — model of the part of the Serializer (serialization/serializer.go) that decides WHICH consumer
   call is made at WHICH position of a stream: toData, process (dedup memo), the three hash routes
   (plain / non-String keys stringified / key-extended), Sensitive, Binary, Default, and every value that is
   turned into its string form (unknownToStringWithWarning).  Property C11 says "streaming ANY serializer
   output as JSON always produces syntactically valid JSON"; whether that holds depends on this code never
   putting anything but Add(String) at a key position of a consumer that cannot do complex keys - in
   particular never an AddRef (a `{"__pref":n}` object where JSON wants a string).

   Not modelled (values outside `sval`): types, objects and serialize-as-string values under
   rich_data => true (valueToDataHash, serializer.go:258-352); they are covered by the direct check only.
   Modelled rather than verified: px.Value.String() - the string form of a value that is stringified is
   a field of the model value (`text`), supplied by the harness from the library. *)
From Coq Require Import ZArith NArith Bool List.
From PcoreV Require Import Model.Base Model.Json.
Import ListNotations.
Open Scope Z_scope.

(* a px.Value as the Serializer's type switch sees it (serializer.go:86-182).  `id` stands for the pointer:
   the dedup memo `values map[px.Value]int` keys *types.Array, *types.Hash, *types.Sensitive and
   *types.Binary by identity, strings (types.stringValue, a Go string) by content. *)
Inductive sval :=
| XSc (s : scalar)                                   (* nil/Undef, Integer, Float, Boolean: SUndef SInt SFloat SBool *)
| XStr (s : str)                                     (* px.StringValue *)
| XDefault                                           (* *types.DefaultValue *)
| XArr (id : N) (l : list sval)                      (* *types.Array *)
| XHash (id : N) (l : list (sval * str * sval))      (* *types.Hash: key, key.String(), value *)
| XSens (id : N) (text : str) (inner : sval)         (* *types.Sensitive: String(), Unwrap() *)
| XBin (id : N) (bytes : list N) (text ser : str)    (* *types.Binary: bytes, String(), SerializationString() *)
| XOther (text : str).                               (* any value that ends in unknownToStringWithWarning(1, v):
                                                        rich_data=false: every other value; rich_data=true: a RuntimeValue *)

(* options of NewSerializer (serializer.go:42-54) and the three capabilities of the consumer *)
Record scfg := {
  rich : bool;       (* rich_data *)
  dedup : Z;         (* dedup_level, 0 when local_reference => false *)
  ckeys : bool;      (* consumer.CanDoComplexKeys() *)
  cbin : bool;       (* consumer.CanDoBinary() *)
  thr : Z            (* consumer.StringDedupThreshold() *)
}.

(* Convert, serializer.go:62-68: MaxDedup is lowered to NoKeyDedup for a consumer without complex keys *)
Definition eff_dedup (c : scfg) : Z :=
  if (2 <=? dedup c) && negb (ckeys c) then 1 else dedup c.

Inductive mkey := MStr (s : str) | MId (n : N).
Definition mkey_eqb (a b : mkey) : bool :=
  match a, b with
  | MStr x, MStr y => str_eqb x y
  | MId x, MId y => N.eqb x y
  | _, _ => false
  end.

(* context.values and context.refIndex *)
Record sst := { memo : list (mkey * Z); idx : Z }.
Definition st0 : sst := {| memo := []; idx := 0 |}.
Definition bump (st : sst) : sst := {| memo := memo st; idx := idx st + 1 |}.

Fixpoint lookup (k : mkey) (m : list (mkey * Z)) : option Z :=
  match m with
  | [] => None
  | (k', n) :: m' => if mkey_eqb k k' then Some n else lookup k m'
  end.
Definition register (k : mkey) (st : sst) : sst := {| memo := (k, idx st) :: memo st; idx := idx st |}.
Definition unregister (k : mkey) (st : sst) : sst :=
  {| memo := filter (fun p => negb (mkey_eqb k (fst p))) (memo st); idx := idx st |}.

(* addData serializer.go:254 *)
Definition add_data (s : scalar) (st : sst) : ev * sst := (EAdd s, bump st).

(* process serializer.go:197-216, split around the doer so that the recursive arms can call it *)
Inductive pstart := PRef (n : Z) | PGo (st : sst) (registered : bool).
Definition process_begin (c : scfg) (k : mkey) (st : sst) : pstart :=
  if eff_dedup c =? 0 then PGo st false                              (* :198 *)
  else match lookup k (memo st) with
       | Some r => PRef r                                            (* :203 AddRef *)
       | None => PGo (register k st) true                            (* :206-207 *)
       end.
(* :209-213: the doer produced no position -> forget the value again *)
Definition process_end (k : mkey) (idx0 : Z) (registered : bool) (r : ev * sst) : ev * sst :=
  if registered && (idx (snd r) =? idx0) then (fst r, unregister k (snd r)) else r.

Definition process (c : scfg) (k : mkey) (st : sst) (doer : sst -> ev * sst) : ev * sst :=
  match process_begin c k st with
  | PRef r => (ERef r, st)
  | PGo st1 reg => process_end k (idx st) reg (doer st1)
  end.

(* toData, case px.StringValue, serializer.go:97-106 *)
Definition ser_str (c : scfg) (level : Z) (s : str) (st : sst) : ev * sst :=
  if (level <=? eff_dedup c) && (thr c <=? Z.of_nat (length s))
  then process c (MStr s) st (add_data (SStr s))
  else add_data (SStr s) st.

(* the reserved strings, serialization/extension.go *)
Definition s_ptype : str := [95;95;112;116;121;112;101]%N.            (* __ptype *)
Definition s_pvalue : str := [95;95;112;118;97;108;117;101]%N.        (* __pvalue *)
Definition s_Default : str := [68;101;102;97;117;108;116]%N.          (* Default *)
Definition s_default : str := [100;101;102;97;117;108;116]%N.         (* default *)
Definition s_Binary : str := [66;105;110;97;114;121]%N.               (* Binary *)
Definition s_Hash : str := [72;97;115;104]%N.                         (* Hash *)
Definition s_Sensitive : str := [83;101;110;115;105;116;105;118;101]%N. (* Sensitive *)

(* the calls of a doer one after the other *)
Definition ser_list (f : sval -> sst -> ev * sst) :=
  fix go (l : list sval) (st : sst) {struct l} : list ev * sst :=
    match l with
    | [] => ([], st)
    | x :: l' => let '(e, s1) := f x st in let '(es, s2) := go l' s1 in (e :: es, s2)
    end.

Definition ser_entries (fk : sval -> str -> sst -> ev * sst) (fv : sval -> sst -> ev * sst) :=
  fix go (l : list (sval * str * sval)) (st : sst) {struct l} : list ev * sst :=
    match l with
    | [] => ([], st)
    | (k, kt, x) :: l' =>
        let '(ek, s1) := fk k kt st in
        let '(ex, s2) := fv x s1 in
        let '(es, s3) := go l' s2 in (ek :: ex :: es, s3)
    end.

Definition is_vstr (v : sval) : bool := match v with XStr _ => true | _ => false end.
(* Hash.AllKeysAreStrings types/hashtype.go:781 *)
Definition all_keys_strings (l : list (sval * str * sval)) : bool :=
  forallb (fun p => is_vstr (fst (fst p))) l.

(* a fixed `{k1: v1, k2: <rest>}` extension hash: addHash(2, ...) with string keys at level 2 and the type name at
   level 1 (serializer.go:135-140, 157-162, 363-376) *)
Definition ext_hash (c : scfg) (tname : str) (st : sst) (last : sst -> ev * sst) : ev * sst :=
  let s0 := bump st in                                               (* addHash: refIndex++ *)
  let '(k1, s1) := ser_str c 2 s_ptype s0 in
  let '(v1, s2) := ser_str c 1 tname s1 in
  let '(k2, s3) := ser_str c 2 s_pvalue s2 in
  let '(v2, s4) := last s3 in
  (EHash [k1; v1; k2; v2], s4).

(* the key of an entry of a hash with non-String keys under rich_data=false, serializer.go:224-229:
   a String key goes to toData(2, s), any other key to unknownToStringWithWarning(2, key) = toData(2, String) *)
Definition lossy_key (c : scfg) (k : sval) (ktext : str) (st : sst) : ev * sst :=
  match k with
  | XStr s => ser_str c 2 s st
  | _ => ser_str c 2 ktext st
  end.

(* toData serializer.go:86-182.  `lk` is the treatment of a key of a hash with non-String keys under
   rich_data=false (the code: lossy_key); a parameter only so that the variant of seeded change C11-m5 can be
   stated next to the code as it is. *)
Section Ser.
Variable lk : scfg -> sval -> str -> sst -> ev * sst.
Fixpoint ser_gen (c : scfg) (level : Z) (v : sval) (st : sst) {struct v} : ev * sst :=
  match v with
  | XSc s => add_data s st                                           (* :92-95 *)
  | XStr s => ser_str c level s st                                   (* :96-106 *)
  | XDefault =>                                                      (* :107-116 *)
      if rich c then
        let s0 := bump st in
        let '(k1, s1) := ser_str c 2 s_ptype s0 in
        let '(v1, s2) := ser_str c 1 s_Default s1 in
        (EHash [k1; v1], s2)
      else ser_str c 1 s_default st
  | XArr id l =>                                                     (* :131-138 *)
      match process_begin c (MId id) st with
      | PRef r => (ERef r, st)
      | PGo sa reg =>
          process_end (MId id) (idx st) reg
            (let '(es, sb) := ser_list (fun x s => ser_gen c 1 x s) l (bump sa) in (EArr es, sb))
      end
  | XHash id l =>
      match process_begin c (MId id) st with
      | PRef r => (ERef r, st)
      | PGo sa reg =>
          process_end (MId id) (idx st) reg
            (if ckeys c || all_keys_strings l then                   (* :118-127 *)
               let '(es, sb) := ser_entries (fun k _ s => ser_gen c 2 k s) (fun x s => ser_gen c 1 x s) l (bump sa) in
               (EHash es, sb)
             else if rich c then                                     (* toKeyExtendedHash :363-376 *)
               ext_hash c s_Hash sa (fun s =>
                 let '(es, sb) := ser_entries (fun k _ s' => ser_gen c 1 k s') (fun x s' => ser_gen c 1 x s') l (bump s) in
                 (EArr es, sb))
             else                                                    (* nonStringKeyedHashToData :218-234 *)
               let '(es, sb) := ser_entries (lk c) (fun x s => ser_gen c 1 x s) l (bump sa) in
               (EHash es, sb))
      end
  | XSens id text inner =>                                           (* :139-150 *)
      match process_begin c (MId id) st with
      | PRef r => (ERef r, st)
      | PGo sa reg =>
          process_end (MId id) (idx st) reg
            (if rich c then ext_hash c s_Sensitive sa (fun s => ser_gen c 1 inner s)
             else ser_str c level text sa)
      end
  | XBin id bytes text sertext =>                                    (* :151-168 *)
      process c (MId id) st (fun sa =>
        if cbin c then add_data (SBin bytes) sa
        else if rich c then ext_hash c s_Binary sa (ser_str c 1 sertext)
        else ser_str c level text sa)
  | XOther text => ser_str c 1 text st                               (* :169-175, :184-195 *)
  end.

End Ser.

Definition ser := ser_gen lossy_key.
(* Convert: c.toData(1, value) on a fresh context *)
Definition ser_top (c : scfg) (v : sval) : ev := fst (ser c 1 v st0).

(* the JSON streamer's capabilities, jsonstreamer.go:67-77 *)
Definition json_cfg (rich_data : bool) (dedup_level : Z) : scfg :=
  {| rich := rich_data; dedup := dedup_level; ckeys := false; cbin := false; thr := 20 |}.

(* ---- specification-level definitions *)

(* every Float in the value is finite, every Integer an int64 - what a px.Value can hold, minus NaN/Inf *)
Definition sc_plain (s : scalar) : bool :=
  match s with SUndef | SBool _ | SInt _ | SFloat _ => true | _ => false end.

Fixpoint sval_finite (v : sval) : bool :=
  match v with
  | XSc (SFloat b) => float_finite b
  | XArr _ l => forallb sval_finite l
  | XHash _ l => forallb (fun p => sval_finite (fst (fst p)) && sval_finite (snd p)) l
  | XSens _ _ x => sval_finite x
  | _ => true
  end.

(* the variant the seeded change C11-m5 makes of nonStringKeyedHashToData: the stringified key is sent to
   toData at level 1, the level of a value.  Kept only as a witness that the model tells the two apart. *)
Definition lossy_key_level1 (c : scfg) (k : sval) (ktext : str) (st : sst) : ev * sst :=
  match k with
  | XStr s => ser_str c 2 s st
  | _ => ser_str c 1 ktext st
  end.
Definition ser_top_level1 (c : scfg) (v : sval) : ev := fst (ser_gen lossy_key_level1 c 1 v st0).
