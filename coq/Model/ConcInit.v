(* C13 - the first initialization of the runtime, entered by several goroutines at once.

   internal.InitializeRuntime (internal/runtime.go:106-131) runs under the process-wide staticLock: test of
   pcoreRuntime.logger, assignment of the logger (the FIRST thing it does), registration of the Pcore:: aliases,
   px.ResolveResolvables with a context on the static loader (binds and resolves everything that Go init() functions
   declared), assignment of topImplRegistry, deferred Unlock.  Every pcore.Do / RootContext / Try passes through it and
   then builds a context on topImplRegistry and resolves what is still pending into its own loader.

   A thread is one goroutine's first use of the runtime; it is cut at the yield points of hook commit 06ca27a
   ("init.logger-set" after the assignment of the logger, "init.resolved" before the assignment of topImplRegistry)
   and where it blocks in staticLock.Lock().  The use that follows the initialization (px.Wrap of Go values through
   the implementation registry, the aliases, a type declared before) is one step and is complete iff the registry is
   set, the declarations were resolved into the static loader, and nobody took them elsewhere.

   [imode]: ILocked is the code; IFastPath is the variant with the test of the logger repeated in front of the lock
   (seeded change C13-m7: the classic double-checked fast path on a flag that is set before the work is done). *)
From Coq Require Import Arith Bool List.
Import ListNotations.

Inductive imode := ILocked | IFastPath.

Inductive ipc :=
| IStart                    (* has not called the runtime yet *)
| IWait                     (* inside staticLock.Lock(), the lock was held *)
| IAtLogger                 (* "init.logger-set": holds the lock, the logger is assigned *)
| IAtResolved               (* "init.resolved": holds the lock, aliases and declarations are resolved *)
| IDone (complete : bool).  (* its use of the runtime returned; complete = the sequential answers *)

Record istate := mkI {
  i_lock : option nat;      (* staticLock *)
  i_logger : bool;          (* pcoreRuntime.logger != nil *)
  i_resolved : bool;        (* the aliases and the init-time declarations are bound and resolved in the static loader *)
  i_registry : bool;        (* topImplRegistry != nil *)
  i_stolen : bool;          (* a context that is not on the static loader took the init-time declarations *)
  i_pc : nat -> ipc
}.

Definition iupd (f : nat -> ipc) (t : nat) (p : ipc) : nat -> ipc := fun t' => if Nat.eqb t' t then p else f t'.

Definition iinit : istate := mkI None false false false false (fun _ => IStart).

(* the use of the runtime after InitializeRuntime returned: RootContext resolves what is still pending into the
   loader of the new context, then the function looks *)
Definition iuse (st : istate) (t : nat) : istate :=
  let stolen := i_stolen st || negb (i_resolved st) in
  mkI (i_lock st) (i_logger st) (i_resolved st) (i_registry st) stolen
      (iupd (i_pc st) t (IDone (i_registry st && i_resolved st && negb stolen))).

(* staticLock.Lock() succeeded *)
Definition ienter (st : istate) (t : nat) : istate :=
  if i_logger st then iuse st t      (* :113 already initialized; deferred Unlock *)
  else mkI (Some t) true (i_resolved st) (i_registry st) (i_stolen st) (iupd (i_pc st) t IAtLogger).   (* :117 *)

Definition ilock (st : istate) (t : nat) : istate :=
  match i_lock st with
  | Some _ => mkI (i_lock st) (i_logger st) (i_resolved st) (i_registry st) (i_stolen st) (iupd (i_pc st) t IWait)
  | None => ienter st t
  end.

Definition istep (m : imode) (st : istate) (t : nat) : istate :=
  match i_pc st t with
  | IStart =>
      match m with
      | IFastPath => if i_logger st then iuse st t else ilock st t
      | ILocked => ilock st t
      end
  | IWait => match i_lock st with Some _ => st | None => ienter st t end
  | IAtLogger =>                (* :119-125 aliases, NewContext(StaticLoader), ResolveResolvables *)
      mkI (i_lock st) (i_logger st) (negb (i_stolen st)) (i_registry st) (i_stolen st) (iupd (i_pc st) t IAtResolved)
  | IAtResolved =>              (* :127 topImplRegistry, deferred Unlock, then the use *)
      iuse (mkI None (i_logger st) (i_resolved st) true (i_stolen st) (i_pc st)) t
  | IDone _ => st
  end.

Definition iexec (m : imode) (s : list nat) : istate := fold_left (istep m) s iinit.

Definition ienabled (st : istate) (t : nat) : bool :=
  match i_pc st t with
  | IDone _ => false
  | IWait => match i_lock st with Some _ => false | None => true end
  | _ => true
  end.

(* the schedule of the harness (firstdo.go, mode park): thread 0 up to the yield point [site] (0: init.logger-set,
   1: init.resolved), every other thread as far as it gets, thread 0 to the end, the others to the end *)
Definition park_sched (n site : nat) : list nat * list nat :=
  let others := seq 1 (n - 1) in
  (repeat 0 (S site) ++ others, repeat 0 (2 - site) ++ others).

Definition is_done (p : ipc) : bool := match p with IDone _ => true | _ => false end.
Definition is_complete (p : ipc) : bool := match p with IDone true => true | _ => false end.

(* per thread: returned while thread 0 was held, complete at the end *)
Definition park_obs (m : imode) (n site : nat) : list (bool * bool) :=
  let '(s1, s2) := park_sched n site in
  let mid := iexec m s1 in
  let fin := fold_left (istep m) s2 mid in
  map (fun t => (is_done (i_pc mid t), is_complete (i_pc fin t))) (seq 0 n).
