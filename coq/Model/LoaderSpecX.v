(* LoaderSpecX.v — notions used in the statements of the C12 corollaries over the FULL history language
   (`xop` of Model/LoaderAdd.v: the operations of Model/Loader.v, px.AddTypes of object types and type sets,
   declarations; through contexts by C12_ctx_fixed).  Definitions only. *)
From Coq Require Import NArith Bool List.
From PcoreV Require Import Model.Base Model.Loader Model.LoaderSpec Model.LoaderAdd.
Import ListNotations.

(* the name is not qualified by the name of the type set of any type-set loader among l and its ancestors:
   typedName.IsParent (types/typedname.go:203) of every such set's typed name answers false, so no
   typeSetLoader.LoadEntry / HasEntry on the way (loader/loader.go:242, :254) goes on with a relative name.
   A boolean guard: a name `Foo::Car` RESOLVES through the type-set loader of `Foo` (as `Car`) but is neither
   LISTED by its Discover nor stable under a binding of `Car` (C12_x_guard_needed). *)
Fixpoint no_relative (fuel : nat) (a : astate) (l : nat) (n : tname) : bool :=
  match fuel with
  | O => true
  | S f =>
    match nth_error a l with
    | None => true
    | Some nd =>
      match akind nd with
      | KBasic | KDep => true
      | KParented p => no_relative f a p n
      | KTypeSet p ts => negb (is_parent (ts_typed_name ts) n) && no_relative f a p n
      end
    end
  end.

Definition not_relative (a : astate) (l : nat) (n : tname) : bool := no_relative (S l) a l n.

(* the same as a guard on the chain alone (no name): neither the loader nor an ancestor is a type-set loader;
   `plain_chain` of Model/LoaderSpec.v as a boolean *)
Fixpoint plain_chainb (fuel : nat) (a : astate) (l : nat) : bool :=
  match fuel with
  | O => true
  | S f =>
    match nth_error a l with
    | None => true
    | Some nd =>
      match akind nd with
      | KBasic | KDep => true
      | KParented p => plain_chainb f a p
      | KTypeSet _ _ => false
      end
    end
  end.

(* ---------------------------------------------------------------------------------------------- *)
(* Operations of the full language that differ only in the letter case of the names they define / look up.
   Types handed to px.AddTypes / declared: the names of the types that are not type sets - members of a type set
   included - may differ in letter case; a type set keeps its name and the keys of Types() (the type-set loader
   made for it holds the set itself, so the two states would differ in that node although they behave alike). *)
Inductive mt_cv : mtype -> mtype -> Prop :=
| mcv_plain n n' v : to_lower n = to_lower n' -> mt_cv (MPlain n v) (MPlain n' v)
| mcv_object n n' v al ct : to_lower n = to_lower n' -> mt_cv (MObject n v al ct) (MObject n' v al ct)
| mcv_broken n n' v : to_lower n = to_lower n' -> mt_cv (MBroken n v) (MBroken n' v)
| mcv_set n v ms ms' :
    Forall2 (fun km km' : str * mtype => fst km = fst km' /\ mt_cv (snd km) (snd km')) ms ms' ->
    mt_cv (MSet n v ms) (MSet n v ms').

Inductive xop_cv : xop -> xop -> Prop :=
| xcv_op o o' : op_case_variant o o' = true -> xop_cv (XOp o) (XOp o')
| xcv_add l ts ts' : Forall2 mt_cv ts ts' -> xop_cv (XAddTypes l ts) (XAddTypes l ts')
| xcv_decl l ts ts' : Forall2 mt_cv ts ts' -> xop_cv (XDeclare l ts) (XDeclare l ts').
