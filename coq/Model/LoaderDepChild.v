(* LoaderDepChild.v — a loader PARENTED BY the dependency loader with module loaders (px.NewParentedLoader(dep), the
   loader a context made for a dependency loader forks):
     loader/loader.go   parentedLoader.LoadEntry (:198), HasEntry (:194), basicLoader.GetEntry / SetEntry of its own map, load() (:71)
   on top of Model/LoaderDep.v: the state is the state of the dependency loader (loader tree, own map) plus the
   child's own map; a history interleaves the operations of Model/LoaderDep.v (on the tree and on the dependency
   loader) with operations on the child.  One Gallina function per Go method, Go file:line in the comment.
   Definitions only.  The dependency loader itself stays what Model/LoaderDep.v says; nothing there is touched.
   Not modelled: Discover of the child (it calls Discover of the dependency loader, which Model/LoaderDep.v does not
   have), deeper chains below the child, type-set loaders over the child. *)
From Coq Require Import NArith Bool List.
From PcoreV Require Import Model.Base Model.Loader Model.LoaderSpec Model.LoaderDep.
Import ListNotations.

Inductive cop :=
| CDep (d : dop)                  (* an operation of Model/LoaderDep.v: on the tree or on the dependency loader *)
| CLoadEntry (n : tname)          (* child.LoadEntry(c, n) *)
| CLoad (n : tname)               (* px.Load with the child as the context's loader *)
| CGetEntry (n : tname)           (* child.GetEntry(n): the child's own map *)
| CHas (n : tname)                (* child.HasEntry(n) *)
| CDefine (n : tname) (v : val).  (* child.SetEntry(n, NewLoaderEntry(v, nil)) *)

Definition cstate : Type := dstate * ents.

(* loader.go:198 parentedLoader.LoadEntry with l.parent = the dependency loader:
   `entry := l.parent.LoadEntry(c, name); if entry == nil || entry.Value() == nil { entry = l.basicLoader.LoadEntry(c, name) }` *)
Definition child_load_entry (st : lstate) (mods : modset) (own cents : ents) (n : tname) : lstate * ents * lres * list nat :=
  let '(st1, own1, r, tr) := dep_load_entry st mods own n in                (* :199 *)
  match r with
  | LEnt None | LEnt (Some None) => (st1, own1, LEnt (b_get cents n), tr)   (* :200-202 *)
  | _ => (st1, own1, r, tr)
  end.

Definition cstep (cfg : config) (mods : modset) (s : cstate) (c : cop) : cstate * dout :=
  let '(ds, cents) := s in
  let '(st, own) := ds in
  match c with
  | CDep d => let '(ds', r) := dstep cfg mods ds d in ((ds', cents), r)
  | CLoadEntry n0 =>
    let '(st1, own1, r, tr) := child_load_entry st mods own cents (norm n0) in
    (((st1, own1), cents), DR (out_of_lres r) tr)
  | CLoad n0 =>                                                             (* loader.go:71 load() *)
    let n := norm n0 in
    if negb (str_eqb (tn_auth n) (cfg_auth cfg)) then (s, DR (RFound None) [])   (* :73 parentedLoader.NameAuthority = the parent's = the runtime one *)
    else
      let '(st1, own1, r, tr) := child_load_entry st mods own cents n in    (* :76 *)
      match r with
      | LEnt None =>                                                        (* :77 the child is a DefiningLoader: the miss is cached in ITS map *)
        let '(cents2, r') := b_set cents n None in
        (((st1, own1), cents2), DR (match r' with SOk _ => RFound None | SErr c => RErr c | SStuck => RStuck end) tr)
      | LEnt (Some None) => (((st1, own1), cents), DR (RFound None) tr)     (* :84 *)
      | LEnt (Some (Some v)) => (((st1, own1), cents), DR (RFound (Some v)) tr)   (* :87 *)
      | LPanic c => (((st1, own1), cents), DR (RErr c) tr)
      | LStuck => (((st1, own1), cents), DR RStuck tr)
      end
  | CGetEntry n0 => (s, DR (REntry (eobs_of (b_get cents (norm n0)))) [])   (* loader.go:120 *)
  | CHas n0 =>                                                              (* loader.go:194 l.parent.HasEntry(name) || l.basicLoader.HasEntry(name); *)
    (s, DR (RBool (b_has own (norm n0) || b_has cents (norm n0))) [])       (* the dependency loader's HasEntry is basicLoader's: its own map, no module is asked *)
  | CDefine n0 v =>                                                         (* loader.go:134 *)
    let '(cents', r) := b_set cents (norm n0) (Some v) in
    ((ds, cents'), DR (match r with
                       | SOk (Some v') => RDefined v'
                       | SOk None => RFault
                       | SErr c => RErr c
                       | SStuck => RStuck
                       end) [])
  end.

Fixpoint crun_from (cfg : config) (mods : modset) (s : cstate) (cs : list cop) : cstate * list dout :=
  match cs with
  | [] => (s, [])
  | c :: cs' =>
    let '(s1, r) := cstep cfg mods s c in
    let '(s2, rs) := crun_from cfg mods s1 cs' in
    (s2, r :: rs)
  end.

(* a history: operations `pre` on the tree, px.NewDependencyLoader(mods), px.NewParentedLoader(dep), then `cs` *)
Definition crun (cfg : config) (pre : list op) (mods : modset) (cs : list cop) : cstate * list dout :=
  crun_from cfg mods ((fst (run cfg pre), []), []) cs.
Definition couts (cfg : config) (pre : list op) (mods : modset) (cs : list cop) : list dout := snd (crun cfg pre mods cs).

Definition cop_wf (c : cop) : bool :=
  match c with
  | CDep d => dop_wf d
  | CLoadEntry n | CLoad n | CGetEntry n | CHas n | CDefine n _ => tn_wf (norm n)
  end.

(* ---------------------------------------------------------------------------------------------- *)
(* The specification: the child owns a write-once map; a lookup through it answers with what the dependency loader
   answers (its own binding, else the module routed to, else the modules in order - the value becomes the dependency
   loader's binding), otherwise with the child's own binding, otherwise not found; HasEntry sees the two maps only. *)
Definition child_spec_lookup (a : astate) (mods : modset) (bs cbs : binds) (n : tname) : option (binds * option val * list nat) :=
  match dep_spec_lookup a mods bs n with
  | Some (bs', Some v, tr) => Some (bs', Some v, tr)
  | Some (bs', None, tr) => Some (bs', assoc (map_key n) cbs, tr)
  | None => None
  end.

Definition cspec_state : Type := dspec_state * binds.

Definition bound (bs : binds) (n : tname) : bool := match assoc (map_key n) bs with Some _ => true | None => false end.

Definition cspec_step (cfg : config) (mods : modset) (s : cspec_state) (c : cop) : cspec_state * dout :=
  let '(ss, cbs) := s in
  let '(a, bs) := ss in
  match c with
  | CDep d => let '(ss', r) := dspec_step cfg mods ss d in ((ss', cbs), r)
  | CLoadEntry n0 =>
    match child_spec_lookup a mods bs cbs (norm n0) with
    | Some (bs', r, tr) => (((a, bs'), cbs), DR (REntry (eobs_of_val r)) tr)
    | None => (s, DR RStuck [])
    end
  | CLoad n0 =>
    let n := norm n0 in
    if negb (str_eqb (tn_auth n) (cfg_auth cfg)) then (s, DR (RFound None) [])
    else match child_spec_lookup a mods bs cbs n with
         | Some (bs', r, tr) => (((a, bs'), cbs), DR (RFound r) tr)
         | None => (s, DR RStuck [])
         end
  | CGetEntry n0 => (s, DR (REntry (eobs_of_val (assoc (map_key (norm n0)) cbs))) [])
  | CHas n0 => (s, DR (RBool (bound bs (norm n0) || bound cbs (norm n0))) [])
  | CDefine n0 v => let '(cbs', r) := binds_define cbs (norm n0) v in ((ss, cbs'), DR r [])
  end.

Fixpoint cspec_run_from (cfg : config) (mods : modset) (s : cspec_state) (cs : list cop) : cspec_state * list dout :=
  match cs with
  | [] => (s, [])
  | c :: cs' =>
    let '(s1, r) := cspec_step cfg mods s c in
    let '(s2, rs) := cspec_run_from cfg mods s1 cs' in
    (s2, r :: rs)
  end.

Definition cspec_run (cfg : config) (pre : list op) (mods : modset) (cs : list cop) : cspec_state * list dout :=
  cspec_run_from cfg mods ((fst (spec_run cfg pre), []), []) cs.
Definition cspec_outs (cfg : config) (pre : list op) (mods : modset) (cs : list cop) : list dout :=
  snd (cspec_run cfg pre mods cs).
