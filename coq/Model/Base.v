(* Base.v — shared basics: Go strings as byte lists, association lists, small helpers.
   Model files contain definitions only (plus the tiny reflection lemmas every client needs). *)
From Coq Require Import ZArith NArith Bool Lia List.
Import ListNotations.
Open Scope Z_scope.

(* A Go string is an immutable byte sequence; `==` on strings is byte equality. *)
Definition str := list N.

Fixpoint str_eqb (a b : str) : bool :=
  match a, b with
  | [], [] => true
  | x :: a', y :: b' => N.eqb x y && str_eqb a' b'
  | _, _ => false
  end.

Lemma str_eqb_spec a b : reflect (a = b) (str_eqb a b).
Proof.
  revert b; induction a as [|x a IH]; intros [|y b]; cbn; try (constructor; congruence).
  destruct (N.eqb_spec x y) as [->|Hn]; cbn.
  - destruct (IH b) as [->|Hn]; constructor; congruence.
  - constructor; congruence.
Qed.

Lemma str_eqb_refl a : str_eqb a a = true.
Proof. destruct (str_eqb_spec a a); congruence. Qed.

Lemma str_eqb_eq a b : str_eqb a b = true <-> a = b.
Proof. destruct (str_eqb_spec a b); split; congruence. Qed.

Lemma str_eqb_neq a b : str_eqb a b = false <-> a <> b.
Proof. destruct (str_eqb_spec a b); split; congruence. Qed.

(* lexicographic byte order = Go's `<` on strings *)
Fixpoint str_ltb (a b : str) : bool :=
  match a, b with
  | [], [] => false
  | [], _ :: _ => true
  | _ :: _, [] => false
  | x :: a', y :: b' => if N.ltb x y then true else if N.eqb x y then str_ltb a' b' else false
  end.

Fixpoint str_eqb_list (a b : list str) : bool :=
  match a, b with
  | [], [] => true
  | x :: a', y :: b' => str_eqb x y && str_eqb_list a' b'
  | _, _ => false
  end.

Section Generic.
  Context {A : Type}.

  Fixpoint list_eqb (eqb : A -> A -> bool) (a b : list A) : bool :=
    match a, b with
    | [], [] => true
    | x :: a', y :: b' => eqb x y && list_eqb eqb a' b'
    | _, _ => false
    end.

  Definition option_eqb (eqb : A -> A -> bool) (a b : option A) : bool :=
    match a, b with
    | None, None => true
    | Some x, Some y => eqb x y
    | _, _ => false
    end.

  (* indices (as nat) of the elements of l for which f is false — used by the
     correspondence files: `mismatches` = indices of the cases whose check failed *)
  Fixpoint failing_from (f : A -> bool) (l : list A) (i : N) : list N :=
    match l with
    | [] => []
    | x :: l' => if f x then failing_from f l' (N.succ i) else i :: failing_from f l' (N.succ i)
    end.
  Definition failing (f : A -> bool) (l : list A) : list N := failing_from f l 0%N.
End Generic.

Lemma list_eqb_spec {A} (eqb : A -> A -> bool) :
  (forall x y, reflect (x = y) (eqb x y)) -> forall a b, reflect (a = b) (list_eqb eqb a b).
Proof.
  intros H a; induction a as [|x a IH]; intros [|y b]; cbn; try (constructor; congruence).
  destruct (H x y) as [->|Hn]; cbn.
  - destruct (IH b) as [->|Hn]; constructor; congruence.
  - constructor; congruence.
Qed.

(* int64 range *)
Definition min_int64 : Z := -9223372036854775808.
Definition max_int64 : Z := 9223372036854775807.
Definition in_int64 (z : Z) : bool := (min_int64 <=? z) && (z <=? max_int64).
(* two's complement wrap to int64 *)
Definition wrap64 (z : Z) : Z := ((z + 9223372036854775808) mod 18446744073709551616) - 9223372036854775808.
