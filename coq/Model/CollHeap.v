(* CollHeap.v — the List / OrderedMap operations of pcore the way the CURRENT code performs them on Go slices
   (types/arraytype.go, types/hashtype.go, px/collection.go, types/basiccollector.go), over the store of
   Model/Heap.v.  Property C08 (values are immutable) is a statement about this model: which backing arrays an
   operation shares with its receiver, which it allocates, and where it writes.

   An Array is a slice of values, a Hash a slice of entries (`[]*HashEntry`; a HashEntry is an immutable
   key/value pair and is modelled as a value).  Every operation first decides, READING the store only, what it
   is going to build (a `plan`), then `exec` builds it.  A plan says how the code obtains its result:
     Share v            an existing value, a re-slice of an existing backing array, or a scalar
     New _ Exact xs     make([]T, n) filled with the n items                      (capacity = length)
     New _ (Cap c) xs   make([]T, n, c) / make([]T, 0, c) filled without ever exceeding c
     New _ (Loop c) xs  make([]T, 0, c) followed by one append per item           (Go growth when c is exceeded)
     AppendTo s xs      append(s, xs...) on an EXISTING slice s — in place when the capacity of s allows
   Writes into an array that the same operation allocated with Exact / Cap are collapsed into its final contents;
   appends are performed one by one with the Go semantics (Heap.happend).

   Lazily filled caches of a value (Hash.index, reducedType, detailedType) are not part of the state: a lookup
   recomputes the index from the entries.  The cached index is the one computed from the entries at the time of
   the first lookup; C08_frame (no cell of a value ever changes) is what makes the two agree, and the
   correspondence run compares lookups after deletions / merges on shared storage.

   Definitions only.  Go file:line refer to /repo/types. *)
From Coq Require Import ZArith NArith Bool List.
From PcoreV Require Import Model.Base Model.Heap Model.Coll.
Import ListNotations.
Open Scope Z_scope.

Inductive hval :=
| HUndef | HBool (b : bool) | HInt (z : Z) | HStr (s : str)
| HArr (s : slice)                 (* Array{elements: s}, arraytype.go:23 *)
| HHash (s : slice)                (* Hash{entries: s}, hashtype.go:31 *)
| HEntry (k v : hval)              (* *HashEntry{key, value}: never assigned after WrapHashEntry *)
| HNilv.                           (* a Go nil element (the zero value of a cell) *)

Notation hstore := (store hval).

Definition cv (c : option hval) : hval := match c with Some x => x | None => HNilv end.
Definition ent (e : hval) : hval * hval := match e with HEntry k v => (k, v) | _ => (HNilv, HNilv) end.

(* the deep snapshot of a value (harness/collh/impl.go: Snapshot; MaxDepth = 48) *)
Definition obs_fuel : nat := 48.
Fixpoint observe (fuel : nat) (h : hstore) (v : hval) : pv :=
  match fuel with
  | O => PCut
  | S f =>
      match v with
      | HUndef => PUndef
      | HBool b => PBool b
      | HInt z => PInt z
      | HStr s => PStr s
      | HNilv => PNil
      | HArr s => PArr (map (fun c => observe f h (cv c)) (hread h s))
      | HHash s => PHash (map (fun c => match cv c with
                                        | HEntry k v => (observe f h k, observe f h v)
                                        | _ => (PNil, PNil)
                                        end) (hread h s))
      | HEntry k v => PEntry (observe f h k) (observe f h v)
      end
  end.

(* ---------------------------------------------------------------------------------------------- *)
(* plans and their execution *)

Inductive how := Exact | Cap (c : nat) | Loop (c : nat).

Inductive plan :=
| Share (v : hval)
| MkEntry (k v : plan)                                   (* WrapHashEntry(k, v) *)
| New (hash : bool) (hw : how) (items : list plan)
| AppendTo (s : slice) (items : list plan).

Section Exec.
  Variable grow : nat -> nat -> nat.

  Definition append_each (h : hstore) (s : slice) (vs : list hval) : hstore * slice :=
    fold_left (fun hs x => happend grow (fst hs) (snd hs) [x]) vs (h, s).

  Definition build (h : hstore) (hw : how) (vs : list hval) : hstore * slice :=
    match hw with
    | Exact => halloc h vs 0
    | Cap c => halloc h vs c
    | Loop c => let '(h0, s0) := halloc h [] c in append_each h0 s0 vs
    end.

  (* the items of a plan are executed from left to right *)
  Section ExecAll.
    Variable f : hstore -> plan -> hstore * hval.
    Fixpoint exec_all (h : hstore) (ps : list plan) : hstore * list hval :=
      match ps with
      | [] => (h, [])
      | p :: t => let '(h1, v) := f h p in
                  let '(h2, vs) := exec_all h1 t in (h2, v :: vs)
      end.
  End ExecAll.

  Fixpoint exec (h : hstore) (p : plan) : hstore * hval :=
    match p with
    | Share v => (h, v)
    | MkEntry k v => let '(h1, kv) := exec h k in
                     let '(h2, vv) := exec h1 v in (h2, HEntry kv vv)
    | New hash hw items =>
        let '(h1, vs) := exec_all exec h items in
        let '(h2, s) := build h1 hw vs in
        (h2, if hash then HHash s else HArr s)
    | AppendTo s items =>
        let '(h1, vs) := exec_all exec h items in
        let '(h2, s') := happend grow h1 s vs in
        (h2, HArr s')
    end.
  Definition exec_list : hstore -> list plan -> hstore * list hval := exec_all exec.
End Exec.

(* ---------------------------------------------------------------------------------------------- *)
(* construction of fresh values *)

(* harness/collh/impl.go Lit: exactly sized slices *)
Fixpoint lit_plan (p : pv) : plan :=
  match p with
  | PUndef => Share HUndef
  | PBool b => Share (HBool b)
  | PInt z => Share (HInt z)
  | PStr s => Share (HStr s)
  | PArr l => New false Exact (map lit_plan l)
  | PHash es => New true Exact (map (fun e => MkEntry (lit_plan (fst e)) (lit_plan (snd e))) es)
  | PEntry k v => MkEntry (lit_plan k) (lit_plan v)
  | PNil | PCut | PBad => Share HNilv
  end.

(* BuildArray / BuildHash with a capacity: make([]T, 0, cap), the builder appends (arraytype.go:286, hashtype.go:589) *)
Definition build_plan (c : nat) (p : pv) : plan :=
  match p with
  | PArr l => New false (Loop c) (map lit_plan l)
  | PHash es => New true (Loop c) (map (fun e => MkEntry (lit_plan (fst e)) (lit_plan (snd e))) es)
  | _ => lit_plan p
  end.

(* types.Parse: every array and hash is built by the collector with capacity 0 and appends
   (parser.go:190, :279; basiccollector.go:24 AddArray, :36 AddHash) *)
Fixpoint parse_plan (p : pv) : plan :=
  match p with
  | PArr l => New false (Loop 0) (map parse_plan l)
  | PHash es => New true (Loop 0) (map (fun e => MkEntry (parse_plan (fst e)) (parse_plan (snd e))) es)
  | PEntry k v => MkEntry (parse_plan k) (parse_plan v)
  | _ => lit_plan p
  end.

(* ---------------------------------------------------------------------------------------------- *)
(* one operation: the decision (reads the store only) *)

Inductive pres := PPlan (p : plan) | PErr (e : err).

Section Decide.
  Variable h : hstore.
  Variable pool : list hval.

  Definition ob (v : hval) : pv := observe obs_fuel h v.
  Definition P (i : nat) : hval := nth i pool HUndef.
  Definition els (s : slice) : list hval := map cv (hread h s).
  Definition kob (e : hval) : pv := ob (fst (ent e)).
  Definition shares (vs : list hval) : list plan := map Share vs.
  Definition pbad := PErr EBadType.
  Definition ok (v : hval) := PPlan (Share v).

  (* s[:n:n] *)
  Definition capped (s : slice) : slice := mkSlice (s_addr s) (s_off s) (s_len s) (s_len s).

  Definition h_pred (pd : pred) (v : hval) : bool :=
    match pd with
    | PdEq x => veq (ob v) (ob (P x))
    | PdInt => match v with HInt _ => true | _ => false end
    end.

  Definition h_mapper (m : mapper) (v : hval) : plan :=
    match m with
    | MpId => Share v
    | MpWrap => New false Exact [Share v]                    (* SingletonArray, arraytype.go:292 *)
    | MpConst x => Share (P x)
    end.

  (* the elements of a list-like value as At / Each enumerate them *)
  Definition h_elems (v : hval) : option (list hval) :=
    match v with
    | HArr s => Some (els s)
    | HHash s => Some (els s)
    | HEntry k x => Some [k; x]
    | _ => None
    end.

  (* flattenElements, arraytype.go:488 (reads nested arrays through the store) *)
  Fixpoint h_flatten1 (fuel : nat) (v : hval) : list hval :=
    match fuel with
    | O => [v]
    | S f =>
        match v with
        | HArr s => flat_map (h_flatten1 f) (els s)
        | HEntry k x => h_flatten1 f k ++ h_flatten1 f x
        | _ => [v]
        end
    end.
  Definition h_flatten (vs : list hval) : list hval := flat_map (h_flatten1 obs_fuel) vs.
  Definition nested (v : hval) : bool := match v with HArr _ | HEntry _ _ => true | _ => false end.

  (* Array.Flatten, arraytype.go:478: self unless some element is an Array or a HashEntry *)
  Definition flatten_plan (self : hval) (vs : list hval) : pres :=
    if existsb nested vs then PPlan (New false (Loop (2 * length vs)) (shares (h_flatten vs)))
    else ok self.

  Fixpoint h_pairs_flat (l : list hval) : list hval :=
    match l with
    | k :: v :: t => HEntry k v :: h_pairs_flat t
    | _ => []
    end.

  Fixpoint h_pairs_of (l : list hval) : option (list hval) :=
    match l with
    | [] => Some []
    | p :: t =>
        match h_elems p with
        | Some [k; v] => match h_pairs_of t with Some r => Some (HEntry k v :: r) | None => None end
        | _ => None
        end
    end.

  (* WrapHashFromArray, hashtype.go:688: the entries (new HashEntry values) or the issue *)
  Definition h_hash_from_array (l : list hval) : list hval + err :=
    if negb (Nat.eqb (length l) 0) && forallb nested l then
      match h_pairs_of l with
      | Some es => inl (unique_entriesG kob es)
      | None => inr EIssue
      end
    else if Nat.odd (length l) then inr EIssue
    else inl (unique_entriesG kob (h_pairs_flat l)).

  (* Hash.Merge, hashtype.go:1170: make(selfLen, selfLen+len(o)); copy; replace in place or append *)
  Definition merge_plan (hv oh : list hval) : pres :=
    PPlan (New true (Cap (length hv + length oh)) (shares (merge_entriesG kob hv oh))).

  Fixpoint h_kv_list (es : list hval) : list hval :=
    match es with
    | [] => []
    | e :: t => fst (ent e) :: snd (ent e) :: h_kv_list t
    end.

  Definition int_key (v : hval) : Z := match v with HInt z => z | _ => 0 end.
  Definition h_is_int (v : hval) : bool := match v with HInt _ => true | _ => false end.

  Definition decide (o : op) : pres :=
    match o with
    | OLit p => PPlan (lit_plan p)
    | OBuild c p => PPlan (build_plan c p)
    | OParse p => PPlan (parse_plan p)
    | OEquals r x => ok (HBool (veq (ob (P r)) (ob (P x))))
    | OTouch _ => ok HUndef
    | OKey r => match P r with HEntry k _ => ok k | _ => pbad end
    | OValue r => match P r with HEntry _ v => ok v | _ => pbad end
    | OHashFromArray r =>
        match P r with
        | HArr s => match h_hash_from_array (els s) with
                    | inl es => PPlan (New true Exact (shares es))
                    | inr e => PErr e
                    end
        | _ => pbad
        end
    | OAsArray r =>
        match P r with
        | HHash s => PPlan (New false Exact                               (* hashtype.go:811 *)
                              (map (fun e => New false Exact [Share (fst (ent e)); Share (snd (ent e))]) (els s)))
        | HEntry k v => PPlan (New false Exact [Share k; Share v])        (* hashtype.go:494 *)
        | _ => pbad
        end
    (* OrderedMap operations *)
    | OMerge r x =>
        match P r, P x with
        | HHash s, HHash t => merge_plan (els s) (els t)
        | _, _ => pbad
        end
    | OGet r x =>
        match P r with
        | HHash s => match hfindG kob (els s) (ob (P x)) with
                     | Some i => ok (snd (ent (nth i (els s) HNilv)))
                     | None => ok HUndef
                     end
        | _ => pbad
        end
    | OIncludes r x =>
        match P r with
        | HHash s => ok (HBool (match hfindG kob (els s) (ob (P x)) with Some _ => true | None => false end))
        | _ => pbad
        end
    | OKeys r => match P r with                                           (* hashtype.go:1158 make(n) *)
                 | HHash s => PPlan (New false Exact (shares (map (fun e => fst (ent e)) (els s))))
                 | _ => pbad
                 end
    | OValues r => match P r with
                   | HHash s => PPlan (New false Exact (shares (map (fun e => snd (ent e)) (els s))))
                   | _ => pbad
                   end
    | OMapValues r m =>                                                   (* hashtype.go:924 make(n) *)
        match P r with
        | HHash s => PPlan (New true Exact
                              (map (fun e => MkEntry (Share (fst (ent e))) (h_mapper m (snd (ent e)))) (els s)))
        | _ => pbad
        end
    | OSelectPairs r pd =>                                                (* hashtype.go:942 make(0) + append *)
        match P r with
        | HHash s => PPlan (New true (Loop 0) (shares (filter (fun e => h_pred pd (fst (ent e))) (els s))))
        | _ => pbad
        end
    | ORejectPairs r pd =>
        match P r with
        | HHash s => PPlan (New true (Loop 0) (shares (filter (fun e => negb (h_pred pd (fst (ent e)))) (els s))))
        | _ => pbad
        end
    (* List operations *)
    | _ =>
        let recv := P (match o with
                       | OAdd r _ | OAddAll r _ | ODelete r _ | ODeleteAll r _ | OSlice r _ _ | OAt r _ | OEachSlice r _ _
                       | OSelect r _ | OReject r _ | OFind r _ | OMap r _ | OSort r | OFlatten r | OUnique r | OLen r => r
                       | _ => O
                       end) in
        match recv with
        | HArr s =>
            let l := els s in
            match o with
            | OAdd _ x => PPlan (AppendTo (capped s) [Share (P x)])       (* arraytype.go:347: append(av.elements[:n:n], ov) *)
            | OAddAll _ x =>
                match P x with
                | HArr t => PPlan (AppendTo (capped s) (shares (els t)))  (* arraytype.go:355 *)
                | other => match h_elems other with                       (* arraytype.go:360: make(sLen); copy; At *)
                           | Some xs => PPlan (New false Exact (shares (l ++ xs)))
                           | None => pbad
                           end
                end
            | OSlice _ i j =>                                             (* arraytype.go:570: av.elements[:n:n][i:j] *)
                if (i <? 0) || (j <? 0) then PErr EFault
                else match hslice (capped s) (Z.to_nat i) (Z.to_nat j) with
                     | Some s' => ok (HArr s')
                     | None => PErr EFault
                     end
            | ODelete _ x =>                                              (* arraytype.go:389 -> px.Reject: make(0, 8) + append *)
                PPlan (New false (Loop 8) (shares (filter (fun e => negb (veq (ob e) (ob (P x)))) l)))
            | ODeleteAll _ x =>
                match h_elems (P x) with
                | Some xs => PPlan (New false (Loop 8)
                                      (shares (filter (fun e => negb (existsb (fun d => veq (ob e) (ob d)) xs)) l)))
                | None => pbad
                end
            | OSelect _ pd => PPlan (New false (Loop 8) (shares (filter (h_pred pd) l)))
            | OReject _ pd => PPlan (New false (Loop 8) (shares (filter (fun e => negb (h_pred pd e)) l)))
            | OFind _ pd => match find (h_pred pd) l with Some v => ok v | None => ok HUndef end
            | OMap _ m => PPlan (New false Exact (map (h_mapper m) l))    (* px.Map: make(n) *)
            | OSort _ => if forallb h_is_int l                             (* arraytype.go:595: make(n); copy; sort in place *)
                         then PPlan (New false Exact (shares (sort_by int_key l))) else pbad
            | OFlatten _ => flatten_plan recv l
            | OUnique _ =>                                                (* arraytype.go:711 *)
                if Nat.ltb (length l) 2 then ok recv
                else let u := unique_accG ob [] l in
                     if Nat.eqb (length u) (length l) then ok recv
                     else PPlan (New false (Loop (length l)) (shares u))
            | OAt _ i => match at_z i l with Some v => ok v | None => ok HUndef end
            | OLen _ => ok (HInt (Z.of_nat (length l)))
            | OEachSlice _ n j =>                                         (* arraytype.go:447: WrapValues(av.elements[i:e]) *)
                if Nat.eqb n 0 then pbad
                else if Nat.leb (length l) (j * n) then ok HUndef
                else match hslice s (j * n) (Nat.min (j * n + n) (length l)) with
                     | Some s' => ok (HArr s')
                     | None => PErr EFault
                     end
            | _ => pbad
            end
        | HHash s =>
            let es := els s in
            match o with
            | OAdd _ x =>                                                 (* hashtype.go:733 *)
                match P x with
                | HEntry _ _ => merge_plan es [P x]
                | HArr t => match els t with
                            | [k; v] => merge_plan es [HEntry k v]
                            | _ => PErr EUnsupported
                            end
                | _ => PErr EUnsupported
                end
            | OAddAll _ x =>                                              (* hashtype.go:745 *)
                match P x with
                | HHash t => merge_plan es (els t)
                | HArr t => match h_hash_from_array (els t) with
                            | inl oh => merge_plan es oh
                            | inr e => PErr e
                            end
                | HEntry _ _ => PErr EUnsupported
                | _ => pbad
                end
            | OSlice _ i j =>                                             (* hashtype.go:1190 *)
                if (i <? 0) || (j <? 0) then PErr EFault
                else match hslice (capped s) (Z.to_nat i) (Z.to_nat j) with
                     | Some s' => ok (HHash s')
                     | None => PErr EFault
                     end
            | ODelete _ x =>                                              (* hashtype.go:826: make(0, n-1) + two appends *)
                match hfindG kob es (ob (P x)) with
                | Some i => PPlan (New true (Cap (length es - 1)) (shares (remove_nth i es)))
                | None => ok recv
                end
            | ODeleteAll _ x =>                                           (* hashtype.go:836 *)
                match h_elems (P x) with
                | Some ks =>
                    let doomed := doomed_ofG kob es (map ob ks) in
                    match doomed with
                    | [] => ok recv
                    | _ => let r := remove_positions doomed 0 es in
                           PPlan (New true (Cap (length r)) (shares r))
                    end
                | None => pbad
                end
            | OSelect _ pd => PPlan (New true (Loop 0) (shares (filter (h_pred pd) es)))
            | OReject _ pd => PPlan (New true (Loop 0) (shares (filter (fun e => negb (h_pred pd e)) es)))
            | OFind _ pd => match find (h_pred pd) es with Some e => ok e | None => ok HUndef end
            | OMap _ m => PPlan (New false Exact (map (h_mapper m) es))
            | OSort _ => if forallb (fun e => h_is_int (fst (ent e))) es  (* hashtype.go:1217 *)
                         then PPlan (New true Exact (shares (sort_by (fun e => int_key (fst (ent e))) es))) else pbad
            | OFlatten _ =>                                               (* hashtype.go:900: make(0, 2n) + append; then Array.Flatten *)
                let kv := h_kv_list es in
                if existsb nested kv then PPlan (New false (Loop (2 * length kv)) (shares (h_flatten kv)))
                else PPlan (New false (Cap (2 * length es)) (shares kv))
            | OUnique _ => ok recv
            | OAt _ i => match at_z i es with Some e => ok e | None => ok HUndef end
            | OLen _ => ok (HInt (Z.of_nat (length es)))
            | OEachSlice _ n j =>                                         (* hashtype.go:874: WrapValues(ValueSlice(entries[i:e])) copies *)
                if Nat.eqb n 0 then pbad
                else match chunk n j es with
                     | Some c => PPlan (New false Exact (shares c))
                     | None => ok HUndef
                     end
            | _ => pbad
            end
        | HEntry k v =>
            if negb (entry_op o) then pbad else
            match o with
            | OAdd _ _ | ODelete _ _ => PErr EUnsupported
            | OAddAll _ x | ODeleteAll _ x => match h_elems (P x) with Some _ => PErr EUnsupported | None => pbad end
            | OAt _ i => ok (if i =? 0 then k else if i =? 1 then v else HUndef)
            | OLen _ => ok (HInt 2)
            | OFlatten _ =>                                               (* hashtype.go:482: he.AsArray().Flatten() *)
                if nested k || nested v then PPlan (New false (Loop 4) (shares (h_flatten [k; v])))
                else PPlan (New false Exact [Share k; Share v])
            | _ => pbad
            end
        | _ => pbad
        end
    end.
End Decide.

(* ---------------------------------------------------------------------------------------------- *)
(* histories *)

Record hstate := mkState { st_heap : hstore; st_pool : list hval }.

Definition hstep (grow : nat -> nat -> nat) (st : hstate) (o : op) : hstate * out :=
  match decide (st_heap st) (st_pool st) o with
  | PPlan p => let '(h', v) := exec grow (st_heap st) p in
               (mkState h' (st_pool st ++ [v]), RVal (observe obs_fuel h' v))
  | PErr e => (mkState (st_heap st) (st_pool st ++ [HUndef]), RErr e)
  end.

Fixpoint hrun (grow : nat -> nat -> nat) (st : hstate) (ops : list op) : hstate * list out :=
  match ops with
  | [] => (st, [])
  | o :: t => let '(st1, r) := hstep grow st o in
              let '(st2, rs) := hrun grow st1 t in (st2, r :: rs)
  end.

Definition empty_state : hstate := mkState [] [].

(* the observation of every pool value at the end of a history *)
Definition final_obs (st : hstate) : list pv := map (observe obs_fuel (st_heap st)) (st_pool st).

(* two growth policies for running the model: no spare capacity / doubling (the observables do not depend on it) *)
Definition grow_exact (_ need : nat) : nat := need.
Definition grow_double (c need : nat) : nat := Nat.max need (2 * c).
