(* C13 - concurrent use of shared loaders: threads are lists of loader operations, every operation is
   expanded into the atomic segments that the code has between its critical sections, and a schedule
   (a list of thread ids) picks which thread runs its next segment.

   A segment is the code between two consecutive yield points `verifhook.Point(site)` of /repo (or
   between the start/end of the operation and a yield point).  The yield points sit exactly where a
   goroutine has left one critical section (basicLoader.lock, fileBasedLoader.locksLock, the per-name
   instantiation lock) and has not yet entered the next one, so that a segment touches the shared
   state in (at most) one critical section, or in several consecutive ones that the harness scheduler
   never separates (then they are one atomic step of the model as well).

   Go code mirrored (tree after the fix: commits listed in design_notes/C13.md):
     loader/loader.go     load :71, basicLoader.GetEntry/HasEntry/SetEntry :110-155,
                          parentedLoader.LoadEntry/HasEntry :183-194
     loader/filebased.go  fileBasedLoader.LoadEntry :80, find :119, instantiate :242, HasEntry :325
   Self-contained on purpose (Model/Loader.v is the sequential C12 model, written concurrently). *)
From Coq Require Import NArith Arith Bool List.
Import ListNotations.

Definition key := N.        (* TypedName.MapKey of the name (case folding etc. is C12's business) *)
Definition lid := nat.      (* index of a loader in the configuration *)
Definition tid := nat.      (* index of a thread in the program *)
Definition lockid := nat.   (* identity of a *sync.Mutex created by instantiate (filebased.go:257) *)

(* A value bound to a name.  basicLoader.SetEntry accepts a second definition when `ov == nv`
   (identity, vid) or when the old value implements px.Equality and accepts the new one (vcls: the
   harness' values are equal iff they have the same class). *)
Record val := mkV { vid : N; vcls : option N }.

Definition veq (o n : val) : bool :=
  N.eqb (vid o) (vid n) ||
  match vcls o, vcls n with Some a, Some b => N.eqb a b | _, _ => false end.

(* a *loaderEntry: None is an entry whose value is nil (cached miss / instantiation mark) *)
Definition entry := option val.

(* what GetEntry hands out: nil, an entry without a value, an entry with a value *)
Inductive rd := RdNil | RdHole | RdVal (v : val).

Record ldef := mkL {
  l_parent : option lid;          (* None: a basicLoader (the static loader); Some p: parented by p *)
  l_isfile : bool;                (* a fileBasedLoader *)
  l_files : list (key * val);     (* its index: the names that have a file, and the value the file defines *)
  l_bad : list key                (* those whose file cannot be instantiated: the instantiator panics (a syntax error,
                                     PCORE_WRONG_DEFINITION, PCORE_NO_DEFINITION; loader/instantiate.go) before it defines anything *)
}.
Definition config := list ldef.

Inductive op :=
| OLoad (l : lid) (n : key)                 (* px.Load with a context whose loader is l *)
| ODefine (l : lid) (n : key) (v : val)     (* l.SetEntry(n, NewLoaderEntry(v)) *)
| OHas (l : lid) (n : key).                 (* l.HasEntry(n) *)

Inductive res :=
| RFound (v : option val)       (* px.Load: (v, true) / (nil, false) *)
| RDefined (v : val)            (* SetEntry returned an entry with this value *)
| RBool (b : bool)
| RErr                          (* panic AttemptToRedefine *)
| RFileErr                      (* px.Load escaped with the error of the instantiator of a file that is broken *)
| RFault.                       (* a Go runtime fault (none is reachable, see ConcProofs.no_fault) *)

Inductive event :=
| EvRes (t : tid) (o : op) (r : res)        (* operation o of thread t returned r *)
| EvParse (t : tid) (d : lid) (n : key).    (* thread t read and parsed the file of name n in loader d *)

(* ---- shared state ---------------------------------------------------------------------------- *)

Record shared := mkS {
  ents : lid -> key -> option entry;       (* basicLoader.namedEntries of every loader *)
  lockmap : lid -> key -> option lockid;   (* fileBasedLoader.locks *)
  held : lockid -> option tid;             (* a mutex is locked (the owner is ghost information) *)
  next_lock : lockid                       (* allocation of &sync.Mutex{} *)
}.

Definition upd2 {A} (f : lid -> key -> A) (d : lid) (n : key) (a : A) : lid -> key -> A :=
  fun d' n' => if Nat.eqb d' d && N.eqb n' n then a else f d' n'.
Definition upd1 {A} (f : nat -> A) (k : nat) (a : A) : nat -> A :=
  fun k' => if Nat.eqb k' k then a else f k'.

Definition set_ents (sh : shared) d n (e : entry) : shared :=
  mkS (upd2 (ents sh) d n (Some e)) (lockmap sh) (held sh) (next_lock sh).
Definition set_lockmap (sh : shared) d n (o : option lockid) : shared :=
  mkS (ents sh) (upd2 (lockmap sh) d n o) (held sh) (next_lock sh).
Definition set_held (sh : shared) lk (o : option tid) : shared :=
  mkS (ents sh) (lockmap sh) (upd1 (held sh) lk o) (next_lock sh).
Definition bump_lock (sh : shared) : shared :=
  mkS (ents sh) (lockmap sh) (held sh) (S (next_lock sh)).

Definition init_shared : shared :=
  mkS (fun _ _ => None) (fun _ _ => None) (fun _ => None) 0.

(* basicLoader.GetEntry loader.go:110 (one RLock section) *)
Definition get (sh : shared) (d : lid) (n : key) : rd :=
  match ents sh d n with
  | None => RdNil
  | Some None => RdHole
  | Some (Some v) => RdVal v
  end.

(* basicLoader.SetEntry loader.go:124 (one Lock section).  None: panic AttemptToRedefine.
   Some e': the entry that is returned. *)
Definition set_entry (sh : shared) (d : lid) (n : key) (e : entry) : shared * option entry :=
  match ents sh d n with
  | None => (set_ents sh d n e, Some e)                         (* :153 *)
  | Some old =>
      match e with
      | None => (sh, Some old)             (* a cached miss neither replaces nor conflicts with what is there *)
      | Some nv =>
          match old with
          | None => (set_ents sh d n e, Some e)                 (* the entry without value is replaced *)
          | Some ov => if veq ov nv then (sh, Some old)         (* :135-139 *)
                       else (sh, None)                          (* :148-151 *)
          end
      end
  end.

(* ---- configuration ----------------------------------------------------------------------------- *)

Definition ldef_of (cfg : config) (d : lid) : ldef := nth d cfg (mkL None false [] []).
Definition is_file (cfg : config) (d : lid) : bool := l_isfile (ldef_of cfg d).

Fixpoint assoc (fs : list (key * val)) (n : key) : option val :=
  match fs with
  | [] => None
  | (k, v) :: fs' => if N.eqb k n then Some v else assoc fs' n
  end.
(* findExistingPath filebased.go:208 (under the loader's lock; the index does not change once built) *)
Definition file_of (cfg : config) (d : lid) (n : key) : option val :=
  if is_file cfg d then assoc (l_files (ldef_of cfg d)) n else None.

(* the file of n under the file based loader d is there but cannot be instantiated *)
Definition file_bad (cfg : config) (d : lid) (n : key) : bool :=
  is_file cfg d && existsb (N.eqb n) (l_bad (ldef_of cfg d)).

Fixpoint chain_up (cfg : config) (fuel : nat) (l : lid) : list lid :=
  match fuel with
  | 0 => [l]
  | S f => match l_parent (ldef_of cfg l) with
           | Some p => l :: chain_up cfg f p
           | None => [l]
           end
  end.
(* the loaders that LoadEntry of l consults, outermost ancestor first (loader.go:187 recursion) *)
Definition chain (cfg : config) (l : lid) : list lid := rev (chain_up cfg (length cfg) l).

(* ---- thread-local control state: the yield point at which the thread is parked ------------------- *)

Inductive pc :=
| PIdle                                                         (* between two operations *)
| PBetween (l : lid) (n : key) (d : lid) (rest : list lid)      (* "parented.between" in loader d: the ancestors had no value *)
| PAfterLookup (l : lid) (n : key)                              (* "load.after-lookup": LoadEntry returned nil *)
| PBeforeFind (l : lid) (n : key) (d : lid) (rest : list lid)   (* "filebased.before-find" *)
| PBeforeSet (l : lid) (n : key) (d : lid) (rest : list lid)    (* "filebased.before-set": find found no file *)
| PBeforeLock (l : lid) (n : key) (d : lid) (lk : lockid) (rest : list lid)   (* "instantiate.before-lock" *)
| PLocked (l : lid) (n : key) (d : lid) (lk : lockid) (rest : list lid)       (* "instantiate.locked" *)
| PChecked (l : lid) (n : key) (d : lid) (lk : lockid) (rest : list lid)      (* "instantiate.checked": GetEntry was nil *)
| PMarked (l : lid) (n : key) (d : lid) (lk : lockid) (rest : list lid)       (* "instantiate.marked" *)
| PUnlocked (l : lid) (n : key) (d : lid) (lk : lockid) (r : option rd) (rest : list lid).
                                   (* "instantiate.unlocked" (deferred function, filebased.go:264: it runs on the normal return
                                      and while the instantiator's panic unwinds); r = None: panicking *)

Record thread := mkT { t_pc : pc; t_todo : list op }.

Definition fin (t : tid) (o : op) (r : res) : pc * list event := (PIdle, [EvRes t o r]).

(* back in load() loader.go:76-86 *)
Definition finish_load (t : tid) (l : lid) (n : key) (e : rd) : pc * list event :=
  match e with
  | RdNil => (PAfterLookup l n, [])
  | RdHole => fin t (OLoad l n) (RFound None)
  | RdVal v => fin t (OLoad l n) (RFound (Some v))
  end.

(* the LoadEntry of one level returned e to the LoadEntry of the next level (rest: the levels below) *)
Definition next_level (t : tid) (l : lid) (n : key) (e : rd) (rest : list lid) : pc * list event :=
  match e with
  | RdVal _ => finish_load t l n e     (* loader.go:187, filebased.go:82: handed down unchanged *)
  | _ => match rest with
         | [] => finish_load t l n e
         | d :: rest' => (PBetween l n d rest', [])
         end
  end.

(* level d has just read its own map (loader.go:190); a file based loader goes on at filebased.go:82 *)
Definition after_read (cfg : config) (t : tid) (l : lid) (n : key) (d : lid) (e : rd) (rest : list lid)
  : pc * list event :=
  if is_file cfg d then
    match e with
    | RdNil => (PBeforeFind l n d rest, [])     (* :91 the second GetEntry is in the same segment *)
    | _ => next_level t l n e rest              (* :82 *)
    end
  else next_level t l n e rest.

Definition has_level (cfg : config) (sh : shared) (n : key) (d : lid) : bool :=
  if is_file cfg d
  then match file_of cfg d n with Some _ => true | None => false end     (* filebased.go:325: the index only *)
  else match get sh d n with RdVal _ => true | _ => false end.           (* loader.go:117 *)

(* first segment of an operation *)
Definition start (cfg : config) (sh : shared) (t : tid) (o : op) : shared * (pc * list event) :=
  match o with
  | OLoad l n =>
      match chain cfg l with
      | [] => (sh, fin t o RFault)
      | d0 :: rest => (sh, after_read cfg t l n d0 (get sh d0 n) rest)
      end
  | ODefine l n v =>
      match set_entry sh l n (Some v) with
      | (sh', Some (Some r)) => (sh', fin t o (RDefined r))
      | (sh', Some None) => (sh', fin t o RFault)
      | (sh', None) => (sh', fin t o RErr)
      end
  | OHas l n => (sh, fin t o (RBool (existsb (has_level cfg sh n) (chain cfg l))))
  end.

(* the segment that starts at yield point p; None: the thread cannot move (its mutex is held) *)
Definition seg (cfg : config) (sh : shared) (t : tid) (p : pc) : option (shared * (pc * list event)) :=
  match p with
  | PIdle => None
  | PBetween l n d rest =>
      Some (sh, after_read cfg t l n d (get sh d n) rest)
  | PAfterLookup l n =>                                   (* loader.go:79 *)
      Some (fst (set_entry sh l n None), fin t (OLoad l n) (RFound None))
  | PBeforeFind l n d rest =>                             (* find :119, instantiate :252-260 *)
      match file_of cfg d n with
      | None => Some (sh, (PBeforeSet l n d rest, []))
      | Some _ =>
          match lockmap sh d n with
          | Some lk => Some (sh, (PBeforeLock l n d lk rest, []))
          | None => let lk := next_lock sh in
                    Some (bump_lock (set_lockmap sh d n (Some lk)), (PBeforeLock l n d lk rest, []))
          end
      end
  | PBeforeSet l n d rest =>                              (* filebased.go:100-102: the fresh entry is returned *)
      Some (fst (set_entry sh d n None), next_level t l n RdHole rest)
  | PBeforeLock l n d lk rest =>                          (* nameLock.Lock() :263 *)
      match held sh lk with
      | Some _ => None
      | None => Some (set_held sh lk (Some t), (PLocked l n d lk rest, []))
      end
  | PLocked l n d lk rest =>                              (* :272 / :280 *)
      match get sh d n with
      | RdNil => Some (sh, (PChecked l n d lk rest, []))
      | e => Some (set_held sh lk None, (PUnlocked l n d lk (Some e) rest, []))
      end
  | PChecked l n d lk rest =>                             (* :275 *)
      Some (fst (set_entry sh d n None), (PMarked l n d lk rest, []))
  | PMarked l n d lk rest =>                              (* :278 the instantiator: read, parse, AddTypes -> SetEntry *)
      match file_of cfg d n with
      | None => Some (set_held sh lk None, (PUnlocked l n d lk None rest, [EvParse t d n]))
      | Some fv =>
          if file_bad cfg d n
          then (* the instantiator panics before it defines anything; the deferred function unlocks (:265) *)
               Some (set_held sh lk None, (PUnlocked l n d lk None rest, [EvParse t d n]))
          else
          match set_entry sh d n (Some fv) with
          | (sh', Some _) => Some (set_held sh' lk None, (PUnlocked l n d lk (Some (get sh' d n)) rest, [EvParse t d n]))
          | (sh', None) => Some (set_held sh' lk None, (PUnlocked l n d lk None rest, [EvParse t d n]))
          end
      end
  | PUnlocked l n d lk r rest =>                          (* :267-269 delete(l.locks, key) *)
      let sh' := set_lockmap sh d n None in
      match r with
      | None => Some (sh', fin t (OLoad l n) (if file_bad cfg d n then RFileErr else RErr))    (* the panic goes on *)
      | Some e => Some (sh', next_level t l n e rest)
      end
  end.

(* ---- global state, schedules ----------------------------------------------------------------- *)

Record state := mkSt { st_sh : shared; st_thr : tid -> thread; st_log : list event }.

Definition prog := list (list op).
Definition sched := list tid.

Definition init (p : prog) : state :=
  mkSt init_shared (fun t => mkT PIdle (nth t p [])) [].

Definition step (cfg : config) (st : state) (t : tid) : state :=
  let th := st_thr st t in
  match t_pc th with
  | PIdle =>
      match t_todo th with
      | [] => st
      | o :: todo =>
          let '(sh', (p', evs)) := start cfg (st_sh st) t o in
          mkSt sh' (upd1 (st_thr st) t (mkT p' todo)) (st_log st ++ evs)
      end
  | p =>
      match seg cfg (st_sh st) t p with
      | None => st
      | Some (sh', (p', evs)) =>
          mkSt sh' (upd1 (st_thr st) t (mkT p' (t_todo th))) (st_log st ++ evs)
      end
  end.

Definition exec (cfg : config) (p : prog) (s : sched) : state := fold_left (step cfg) s (init p).
Definition trace (cfg : config) (p : prog) (s : sched) : list event := st_log (exec cfg p s).

(* ---- observables ------------------------------------------------------------------------------- *)

Fixpoint results_of (t : tid) (log : list event) : list res :=
  match log with
  | [] => []
  | EvRes t' _ r :: log' => if Nat.eqb t' t then r :: results_of t log' else results_of t log'
  | _ :: log' => results_of t log'
  end.

Fixpoint parses_by (t : tid) (log : list event) : nat :=
  match log with
  | [] => 0
  | EvParse t' _ _ :: log' => (if Nat.eqb t' t then 1 else 0) + parses_by t log'
  | _ :: log' => parses_by t log'
  end.

Fixpoint nparse (d : lid) (n : key) (log : list event) : nat :=
  match log with
  | [] => 0
  | EvParse _ d' n' :: log' => (if Nat.eqb d' d && N.eqb n' n then 1 else 0) + nparse d n log'
  | _ :: log' => nparse d n log'
  end.

(* is the schedule step enabled (not blocked, not finished)? *)
Definition enabled (cfg : config) (st : state) (t : tid) : bool :=
  let th := st_thr st t in
  match t_pc th with
  | PIdle => match t_todo th with [] => false | _ => true end
  | p => match seg cfg (st_sh st) t p with None => false | Some _ => true end
  end.

(* every thread of p (there are k of them) has run all its operations *)
Fixpoint all_done (st : state) (k : nat) : bool :=
  match k with
  | 0 => true
  | S k' => (match t_pc (st_thr st k'), t_todo (st_thr st k') with PIdle, [] => true | _, _ => false end) && all_done st k'
  end.
