(* ReflectNamed.v — the reflection bridge of pcore on DEFINED Go types (property C18).

   Model/Reflect.v describes the Go types that reflect.SliceOf/MapOf/PtrTo/StructOf assemble: all of them unnamed.
   A program hands the bridge its own defined types (type Port uint16, type Blob []byte, net.IP, []Octet with
   type Octet uint8, structs that embed other structs).  The bridge goes by reflect.Kind almost everywhere
   (WrapPrimitive types.go:754, primitivePTypes zinit.go:13, every ReflectTo method - the pointer arms since the fixes
   a92c23f and b3fee50); it goes by the IDENTITY of the type in exactly these places:
     - the type switch of wrap (types.go:591): []byte, []int, []string, []interface{}, map[string]string,
       map[string]interface{} (a defined type, or a slice of a defined scalar, falls through to wrapReflected);
     - the wellKnown table (types.go:739 on the value side, :847 on the type side): []byte.
   So a Go type here is a gty (its underlying structure) plus a mask that says which of its nodes are defined types.
   Definitions only. *)
From Coq Require Import ZArith NArith Bool List.
From PcoreV Require Import Model.Base Model.Reflect.
Import ListNotations.
Open Scope Z_scope.

(* named: this node is a defined type; sub: the masks of the element (slice, pointer), of key and value (map), of the
   fields (struct).  Missing positions count as unnamed, so NM false [] is the mask of a type of Model/Reflect.v. *)
Inductive nmask := NM (named : bool) (sub : list nmask).

Definition nm_named (m : nmask) : bool := let 'NM b _ := m in b.
Definition nm_sub (m : nmask) : list nmask := let 'NM _ l := m in l.
Definition nm_nth (i : nat) (m : nmask) : nmask := nth i (nm_sub m) (NM false []).

(* the slice / map type can be identical to one of the types that wrap's type switch and the wellKnown table name:
   it is unnamed and so are its element and key types *)
Definition exact (m : nmask) : bool := negb (nm_named m) && forallb (fun c => negb (nm_named c)) (nm_sub m).

Section WithFloatFormat.
  Variable ffmt : Z -> str.

  (* wrap / wrapReflected (w as in wrapx) of a value whose type has the mask m *)
  Fixpoint wrapn (w : bool) (t : gty) (m : nmask) (v : gval) {struct v} : value :=
    match v with
    | GVSlice None =>
        (* a nil slice of a defined type reaches wrapReflected: types.go:679 IsNil -> undef *)
        if exact m then wrapx ffmt w t v else VUndef
    | GVSlice (Some es) =>
        (* types.go:739 wellKnown[vt] is a lookup by type identity: only []byte itself is a Binary *)
        if exact m && is_u8 (elem_ty t) then VBinary (Some (bytes_of es))
        else (* :714 element by element *) VArr (map (wrapn true (elem_ty t) (nm_nth 0 m)) es)
    | GVMap None => if exact m then wrapx ffmt w t v else VUndef
    | GVMap (Some kvs) =>
        VHash (sorted_map ffmt (map (fun kv => (wrapn true (key_ty t) (nm_nth 0 m) (fst kv),
                                                wrapn true (elem_ty t) (nm_nth 1 m) (snd kv))) kvs))
    | GVPtr (Some x) =>
        if is_struct_ty (elem_ty t) then VObj (struct_name (elem_ty t)) false v
        else wrapn false (elem_ty t) (nm_nth 0 m) x
    | _ =>
        (* scalars: WrapPrimitive goes by Kind (a defined scalar misses the type switch of wrap and gets the same
           value from wrapReflected); nil pointers; registered structs (kept as they are); interface{} content *)
        wrapx ffmt w t v
    end.
End WithFloatFormat.

(* wrapReflectedType (types.go:839): wellKnown by identity, then by Kind *)
Fixpoint ptype_n (t : gty) (m : nmask) : ty :=
  match t with
  | GSlice e => if exact m && is_u8 e then TBinary else TArray (ptype_n e (nm_nth 0 m))
  | GMap k v => THash (ptype_n k (nm_nth 0 m)) (ptype_n v (nm_nth 1 m))
  | GPtr e => TOptional (ptype_n e (nm_nth 0 m))
  | _ => ptype_of t
  end.

(* the guards of Model/Reflect.v (input classes of the open findings) with the identity tests of the fast paths *)
Fixpoint rt_ok_n (w : bool) (t : gty) (m : nmask) (v : gval) {struct v} : bool :=
  match v with
  | GVSlice None => negb (exact m && w && fast_slice_elem (elem_ty t))
  | GVSlice (Some es) => forallb (rt_ok_n true (elem_ty t) (nm_nth 0 m)) es
  | GVMap None => negb (exact m && w && fast_map (key_ty t) (elem_ty t))
  | GVMap (Some kvs) => forallb (fun kv => rt_ok_n true (elem_ty t) (nm_nth 1 m) (snd kv)) kvs
  | GVPtr (Some x) =>
      is_struct_ty (elem_ty t) ||
      (negb (is_ptr_ty (elem_ty t)) && negb (is_nil_coll x) && rt_ok_n false (elem_ty t) (nm_nth 0 m) x)
  | GVIface (Some (d, x)) => canonical_dyn d
  | _ => true
  end.

Fixpoint acc_ok_n (w : bool) (t : gty) (m : nmask) (v : gval) {struct v} : bool :=
  match v with
  | GVInt z => match t with GInt KUint | GInt KUint64 => z <? two63 | _ => true end
  | GVFloat b => match t with GFloat32 => f_finite b | _ => true end
  | GVSlice None => exact m && w && (fast_slice_elem (elem_ty t) || is_u8 (elem_ty t))
  | GVSlice (Some es) => forallb (acc_ok_n true (elem_ty t) (nm_nth 0 m)) es
  | GVMap None => exact m && w && fast_map (key_ty t) (elem_ty t)
  | GVMap (Some kvs) =>
      forallb (fun kv => acc_ok_n true (key_ty t) (nm_nth 0 m) (fst kv) && acc_ok_n true (elem_ty t) (nm_nth 1 m) (snd kv)) kvs
  | GVPtr (Some x) =>
      is_struct_ty (elem_ty t) ||
      match x with
      | GVSlice None | GVMap None | GVPtr None => true
      | _ => acc_ok_n false (elem_ty t) (nm_nth 0 m) x
      end
  | _ => true
  end.

(* ------------------------------------------------------------------------------------------------ *)
(** * Which fields of a struct become attributes (reflector.go:292 InitializerFromTagged)

   fields: (Go name, embedded?).  Only an embedded FIRST field of a struct whose object type is derived WITH a declared
   parent type is the Go rendering of that parent (fix 6ad23ad; objecttype.go:814 ToReflectedValue and :983
   appendAttributeValues test the same three things); every other exported field is an attribute of the type itself,
   named after the field - for an embedded field that is the name of its type (reflector.go:419 FirstToLower). *)
Definition own_attr_fields (has_parent : bool) (fs : list (str * bool)) : list (str * bool) :=
  match fs with
  | (n, true) :: fs' => if has_parent then fs' else fs
  | _ => fs
  end.
Definition own_attr_names (has_parent : bool) (fs : list (str * bool)) : list str :=
  map (fun f => first_to_lower (fst f)) (own_attr_fields has_parent fs).
