(* InferHeap.v — type inference the way the CURRENT code performs it on Go slices (property C08: a type handed out
   by an earlier inference is a value obtained earlier; no later operation may change it).

   What is shared and what is written (types/commonality.go, types/enumtype.go, utils/strings.go,
   types/arraytype.go:772-809, types/hashtype.go:1413-1436):
     * the members of an Enum are a Go slice `values []string`; NewEnumType KEEPS the slice it is given
       (enumtype.go:38; a case-insensitive Enum with members keeps a lower-cased copy, make(top));
     * commonType(Enum, String value) and commonType(Enum, Enum) evaluate `append(ea.values, ...)` on the slice of
       the FIRST operand (commonality.go:31, :39): when that slice has spare capacity the new members are written
       into the backing array of the existing Enum, behind its length; utils.Unique then copies everything into
       make([]string, 0, top) (strings.go:75-89) - unless there are fewer than two strings, which it hands back;
     * commonType returns one of its operands itself when it accepts the other (commonality.go:14-25), and
       builds Array / Type results around the result of the nested call (:75, :131): type objects are shared;
     * Array and Hash cache the inferred type in the value (reducedType), so the type of a collection nested in
       two other collections is the same object in both inferences.
   The store of Model/Heap.v holds the string arrays; a type is a tree over slices (`yty`); values are trees with
   an object identity per Array / Hash (the key of the cache).  Assignability, the fallback ladder and the merge
   of types without slices are the pure functions of Model/Lattice.v and Model/Infer.v (property C04) applied to
   the observation of the operands.  `YP` holds types without parts of their own (the empty Array type is
   `YArray (YP TUnit) 0 0`, so that the parts of every composite result are shared as in the code).

   Definitions only.  Go file:line refer to /repo. *)
From Coq Require Import ZArith NArith Bool List.
From PcoreV Require Import Model.Base Model.Heap Model.Coll Model.Ty Model.Lattice Model.Infer.
Import ListNotations.
Open Scope Z_scope.

Notation sstore := (store str).

Inductive yty :=
| YP (t : ty)                               (* a type that holds no slice and no other type object *)
| YEnum (ci : bool) (s : slice)             (* EnumType{caseInsensitive, values}, enumtype.go:12 *)
| YArray (e : yty) (lo hi : Z)              (* ArrayType{size, typ} *)
| YHash (k v : yty) (lo hi : Z)             (* HashType{size, keyType, valueType} *)
| YType (t : yty).                          (* TypeType{typ} *)

(* a cell that was never written holds the zero value "" *)
Definition sget (c : option str) : str := match c with Some s => s | None => [] end.
Definition strs (h : sstore) (s : slice) : list str := map sget (hread h s).

(* the deep observation of a type (harness: the structural decoding of the hook) *)
Fixpoint tobs (h : sstore) (t : yty) : ty :=
  match t with
  | YP t => t
  | YEnum ci s => TEnum ci (strs h s)
  | YArray e lo hi => TArray (tobs h e) lo hi
  | YHash k v lo hi => THash (tobs h k) (tobs h v) lo hi
  | YType t => TType (tobs h t)
  end.

(* the inferred types of the value universe hold no Pattern: the regexp oracle is never asked *)
Definition norx (_ _ : str) : bool := false.

(* ---------------------------------------------------------------------------------------------- *)
(* commonType on slices *)

Section Common.
  Variable grow : nat -> nat -> nat.

  (* utils.Unique, strings.go:75: the argument itself when it has fewer than two strings, else
     make([]string, 0, top) followed by one append per distinct string (never beyond the capacity) *)
  Definition hunique (h : sstore) (t : slice) : sstore * slice :=
    if Nat.ltb (s_len t) 2 then (h, t)
    else halloc h (sdedup (strs h t)) (s_len t).

  (* NewEnumType, enumtype.go:38 *)
  Definition hnew_enum (h : sstore) (u : slice) (ci : bool) : sstore * yty :=
    if ci && Nat.ltb 0 (s_len u) then
      let '(h', l) := halloc h (map lower_ascii (strs h u)) 0 in (h', YEnum true l)
    else (h, YEnum ci u).

  (* NewEnumType(utils.Unique(append(ea.values, xs...)), ci), commonality.go:31 / :39 *)
  Definition enum_merge (h : sstore) (s : slice) (xs : list str) (ci : bool) : sstore * yty :=
    let '(h1, tmp) := happend grow h s xs in
    let '(h2, u) := hunique h1 tmp in
    hnew_enum h2 u ci.

  Fixpoint hcommon_f (n : nat) (h : sstore) (a b : yty) {struct n} : sstore * yty :=
    match n with
    | O => (h, YP TOutOfFuel)
    | S n' =>
        let oa := tobs h a in
        let ob := tobs h b in
        if is_unit oa then (h, b)                                                      (* :14 *)
        else if is_unit ob then (h, a)                                                 (* :17 *)
        else if asg norx true oa ob then (h, a)                                        (* :20 *)
        else if asg norx true ob oa then (h, b)                                        (* :23 *)
        else
          match a, b with
          | YEnum ci s, YP (TStringVal x) => enum_merge h s [x] ci                     (* :31 *)
          | YEnum ci s, YEnum ci' s' => enum_merge h s (strs h s') (ci || ci')         (* :39 *)
          | YP (TStringVal x), YP (TStringVal x') =>                                   (* :58 []string{a, b} *)
              let '(h', s) := halloc h [x; x'] 0 in (h', YEnum false s)
          | YP (TStringVal x), YEnum ci' s' => enum_merge h s' [x] ci'                 (* :64 commonType(b, a) *)
          | YArray e lo hi, YArray e' lo' hi' =>                                       (* :75 *)
              let '(h', c) := hcommon_f n' h e e' in
              (h', YArray c (Z.min lo lo') (Z.max hi hi'))
          | YType t, YType t' =>                                                       (* :131 *)
              let '(h', c) := hcommon_f n' h t t' in (h', YType c)
          | _, _ =>
              (* every other pair builds a type without slices (String, sizes, ranges, the ladder :141):
                 the pure commonType of Model/Infer.v on the observations *)
              (h, YP (match string_merge oa ob with
                      | Some c => c
                      | None => merge_same norx (common_f norx n') oa ob
                      end))
          end
    end.

  Definition hcommon (h : sstore) (a b : yty) : sstore * yty :=
    hcommon_f (S (tsize (tobs h a) + tsize (tobs h b))) h a b.
End Common.

(* ---------------------------------------------------------------------------------------------- *)
(* values with object identity, the cache of inferred types, v.PType() *)

Inductive ival :=
| IUndef | IBool (b : bool) | IInt (z : Z) | IStr (s : str)
| IArr (id : nat) (vs : list ival)                   (* *Array: id stands for the pointer *)
| IHash (id : nat) (es : list (ival * ival)).        (* *Hash *)

Fixpoint ipv (v : ival) : pv :=
  match v with
  | IUndef => PUndef | IBool b => PBool b | IInt z => PInt z | IStr s => PStr s
  | IArr _ vs => PArr (map ipv vs)
  | IHash _ es => PHash (map (fun e => (ipv (fst e), ipv (snd e))) es)
  end.

(* Array.reducedType / Hash.reducedType of the objects that have one *)
Definition icache := list (nat * yty).
Fixpoint clookup (id : nat) (c : icache) : option yty :=
  match c with
  | [] => None
  | (i, t) :: r => if Nat.eqb i id then Some t else clookup id r
  end.

Definition ist0 := (sstore * icache)%type.

Section Folds.
  Variable grow : nat -> nat -> nat.
  Variable inf : ival -> ist0 -> ist0 * yty.

  (* arraytype.go:800: elemType = commonType(elemType, av.elements[idx].PType()) *)
  Fixpoint fold_arr (l : list ival) (st : ist0) (acc : yty) : ist0 * yty :=
    match l with
    | [] => (st, acc)
    | y :: l' =>
        let '(st1, ty) := inf y st in
        let '(h2, c) := hcommon grow (fst st1) acc ty in
        fold_arr l' (h2, snd st1) c
    end.

  (* hashtype.go:1426-1430 *)
  Fixpoint fold_hash (l : list (ival * ival)) (st : ist0) (ka va : yty) : ist0 * (yty * yty) :=
    match l with
    | [] => (st, (ka, va))
    | e :: l' =>
        let '(st1, tk) := inf (fst e) st in
        let '(h2, ka') := hcommon grow (fst st1) ka tk in
        let '(st3, tv) := inf (snd e) (h2, snd st1) in
        let '(h4, va') := hcommon grow (fst st3) va tv in
        fold_hash l' (h4, snd st3) ka' va'
    end.
End Folds.

Fixpoint hinfer (grow : nat -> nat -> nat) (v : ival) (st : ist0) {struct v} : ist0 * yty :=
  match v with
  | IUndef => (st, YP TUndef)                          (* undeftype.go:121 *)
  | IBool b => (st, YP (TBoolean (Some b)))            (* booleantype.go:309 *)
  | IInt z => (st, YP (TInteger z z))                  (* integertype.go:456 *)
  | IStr s => (st, YP (TStringVal s))                  (* stringtype.go:591 *)
  | IArr id vs =>                                      (* arraytype.go:793 privateReducedType *)
      match clookup id (snd st) with
      | Some t => (st, t)
      | None =>
          match vs with
          | [] => (st, YArray (YP TUnit) 0 0)          (* EmptyArrayType(): one shared object without slices *)
          | x :: r =>
              let '(st1, t0) := hinfer grow x st in
              let '(st2, te) := fold_arr grow (hinfer grow) r st1 t0 in
              let t := YArray te (zlen vs) (zlen vs) in
              ((fst st2, (id, t) :: snd st2), t)
          end
      end
  | IHash id es =>                                     (* hashtype.go:1413 privateReducedType *)
      match clookup id (snd st) with
      | Some t => (st, t)
      | None =>
          match es with
          | [] => (st, YHash (YP TUnit) (YP TUnit) 0 0)
          | e :: r =>
              let '(st1, tk) := hinfer grow (fst e) st in
              let '(st2, tv) := hinfer grow (snd e) st1 in
              let '(st3, kv) := fold_hash grow (hinfer grow) r st2 tk tv in
              let t := YHash (fst kv) (snd kv) (zlen es) (zlen es) in
              ((fst st3, (id, t) :: snd st3), t)
          end
      end
  end.

(* ---------------------------------------------------------------------------------------------- *)
(* histories over a pool of values and types *)

Inductive ient := EV (v : ival) | ET (t : yty).

Inductive iop :=
| ILit (p : pv)                                   (* a fresh literal value: every Array / Hash in it is a new object *)
| IWrapArr (rs : list nat)                        (* types.WrapValues of pool values (the same objects) *)
| IWrapHash (krs : list (str * nat))              (* types.WrapHash of entries "key" => pool value *)
| IAdd (r x : nat)                                (* Array.Add: a new Array object holding the same element objects *)
| IAt (r i : nat)                                 (* Array.At *)
| ISub (r i : nat)                                (* the i-th component type of a pool type *)
| IEnumLit (ci : bool) (vs : list str) (spare : nat)   (* a parsed Enum: enumtype.go:85-98, spare = 1 with a trailing flag *)
| IPType (r : nat)                                (* v.PType() *)
| ICommon (r x : nat).                            (* px.CommonType of two pool types *)

Inductive iobs := OV (p : pv) | OT (t : ty).
Inductive iout := IVal (o : iobs) | IErr.

Record ist := mkIst { i_heap : sstore; i_cache : icache; i_pool : list ient; i_next : nat }.

Definition eobs (h : sstore) (e : ient) : iobs :=
  match e with EV v => OV (ipv v) | ET t => OT (tobs h t) end.

(* harness/collh/impl.go Lit: fresh objects, numbered in construction order *)
Fixpoint lit_ival (n : nat) (p : pv) {struct p} : nat * ival :=
  match p with
  | PUndef => (n, IUndef) | PBool b => (n, IBool b) | PInt z => (n, IInt z) | PStr s => (n, IStr s)
  | PArr l =>
      let '(n', vs) :=
        (fix go (n : nat) (l : list pv) {struct l} : nat * list ival :=
           match l with
           | [] => (n, [])
           | x :: t => let '(n1, v) := lit_ival n x in
                       let '(n2, vs) := go n1 t in (n2, v :: vs)
           end) (S n) l in
      (n', IArr n vs)
  | PHash es =>
      let '(n', vs) :=
        (fix go (n : nat) (l : list (pv * pv)) {struct l} : nat * list (ival * ival) :=
           match l with
           | [] => (n, [])
           | (k, x) :: t => let '(n1, kv) := lit_ival n k in
                            let '(n2, xv) := lit_ival n1 x in
                            let '(n3, vs) := go n2 t in (n3, (kv, xv) :: vs)
           end) (S n) es in
      (n', IHash n vs)
  | PEntry _ _ | PNil | PCut | PBad => (n, IUndef)
  end.

Definition EP (pool : list ient) (i : nat) : option ient := nth_error pool i.

Fixpoint pool_vals (pool : list ient) (rs : list nat) : option (list ival) :=
  match rs with
  | [] => Some []
  | r :: t => match EP pool r, pool_vals pool t with
              | Some (EV v), Some vs => Some (v :: vs)
              | _, _ => None
              end
  end.

Fixpoint pool_entries (pool : list ient) (krs : list (str * nat)) : option (list (ival * ival)) :=
  match krs with
  | [] => Some []
  | (k, r) :: t => match EP pool r, pool_entries pool t with
                   | Some (EV v), Some es => Some ((IStr k, v) :: es)
                   | _, _ => None
                   end
  end.

Definition sub_ty (t : yty) (i : nat) : option yty :=
  match t, i with
  | YArray e _ _, O => Some e
  | YHash k _ _ _, O => Some k
  | YHash _ v _ _, S O => Some v
  | YType t, O => Some t
  | _, _ => None
  end.

Definition ipush (st : ist) (h : sstore) (c : icache) (n : nat) (e : ient) : ist * iout :=
  (mkIst h c (i_pool st ++ [e]) n, IVal (eobs h e)).
Definition ifail (st : ist) : ist * iout :=
  (mkIst (i_heap st) (i_cache st) (i_pool st ++ [EV IUndef]) (i_next st), IErr).

Definition istep (grow : nat -> nat -> nat) (st : ist) (o : iop) : ist * iout :=
  let h := i_heap st in
  let c := i_cache st in
  let n := i_next st in
  let pool := i_pool st in
  match o with
  | ILit p => let '(n', v) := lit_ival n p in ipush st h c n' (EV v)
  | IWrapArr rs =>
      match pool_vals pool rs with
      | Some vs => ipush st h c (S n) (EV (IArr n vs))
      | None => ifail st
      end
  | IWrapHash krs =>
      match pool_entries pool krs with
      | Some es => ipush st h c (S n) (EV (IHash n es))
      | None => ifail st
      end
  | IAdd r x =>                                        (* arraytype.go:347: a new Array over the same element objects *)
      match EP pool r, EP pool x with
      | Some (EV (IArr _ vs)), Some (EV xv) => ipush st h c (S n) (EV (IArr n (vs ++ [xv])))
      | _, _ => ifail st
      end
  | IAt r i =>
      match EP pool r with
      | Some (EV (IArr _ vs)) => ipush st h c n (EV (nth i vs IUndef))
      | _ => ifail st
      end
  | ISub r i =>
      match EP pool r with
      | Some (ET t) => match sub_ty t i with Some u => ipush st h c n (ET u) | None => ifail st end
      | _ => ifail st
      end
  | IEnumLit ci vs spare =>
      let '(h1, s) := halloc h vs (length vs + spare) in
      let '(h2, t) := hnew_enum h1 s ci in
      ipush st h2 c n (ET t)
  | IPType r =>
      match EP pool r with
      | Some (EV v) => let '(st0, t) := hinfer grow v (h, c) in ipush st (fst st0) (snd st0) n (ET t)
      | Some (ET t) => ipush st h c n (ET (YType t))   (* every Type's PType: &TypeType{t} *)
      | None => ifail st
      end
  | ICommon r x =>
      match EP pool r, EP pool x with
      | Some (ET a), Some (ET b) => let '(h', t) := hcommon grow h a b in ipush st h' c n (ET t)
      | _, _ => ifail st
      end
  end.

Fixpoint irun (grow : nat -> nat -> nat) (st : ist) (ops : list iop) : ist * list iout :=
  match ops with
  | [] => (st, [])
  | o :: t => let '(st1, r) := istep grow st o in
              let '(st2, rs) := irun grow st1 t in (st2, r :: rs)
  end.

Definition iempty : ist := mkIst [] [] [] 0.

(* the observation of every pool entry at the end of a history *)
Definition ifinal (st : ist) : list iobs := map (eobs (i_heap st)) (i_pool st).

(* ---------------------------------------------------------------------------------------------- *)
(* equality of observations (what the correspondence compares) *)

Definition iobs_eqb (a b : iobs) : bool :=
  match a, b with
  | OV p, OV q => pv_eqb p q
  | OT t, OT u => ty_eqb t u
  | _, _ => false
  end.
Definition iout_eqb (a b : iout) : bool :=
  match a, b with
  | IVal x, IVal y => iobs_eqb x y
  | IErr, IErr => true
  | _, _ => false
  end.

(* the pure value of Model/Ty.v (for the comparison with the pure inference of Model/Infer.v) *)
Fixpoint ival_value (v : ival) : value :=
  match v with
  | IUndef => VUndef | IBool b => VBool b | IInt z => VInt z | IStr s => VStr s
  | IArr _ vs => VArr (map ival_value vs)
  | IHash _ es => VHash (map (fun e => (ival_value (fst e), ival_value (snd e))) es)
  end.

(* ---------------------------------------------------------------------------------------------- *)
(* sensitivity: utils.Unique that hands back its argument when nothing was removed (the shortcut that
   Array.Unique has).  The copy made by Unique is what keeps `append(ea.values, ...)` harmless. *)
Definition hunique_shortcut (h : sstore) (t : slice) : sstore * slice :=
  if Nat.ltb (s_len t) 2 then (h, t)
  else let u := sdedup (strs h t) in
       if Nat.eqb (length u) (s_len t) then (h, t) else halloc h u (s_len t).

Definition enum_merge_shortcut (grow : nat -> nat -> nat) (h : sstore) (s : slice) (xs : list str) (ci : bool)
  : sstore * yty :=
  let '(h1, tmp) := happend grow h s xs in
  let '(h2, u) := hunique_shortcut h1 tmp in
  hnew_enum h2 u ci.
