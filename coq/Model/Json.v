(* Json.v — executable model of the JSON transport of pcore:
     serialization/jsonstreamer.go  (NewJsonStreamer: px.ValueConsumer -> JSON text)
     serialization/jsontodata.go    (JsonToData: JSON text -> px.ValueConsumer)
   One definition per Go method, same order of tests, Go file:line in the comments.  The model follows the
   tree AFTER the two fix: commits 1ed663c (delimit restores afterElement) and 1f092e9 (integral floats keep a
   fraction); the pinned behaviour is kept as `delimit_pinned` / `write_pinned` for the `_refuted` witnesses.

   What is modelled rather than verified (encoding/json, strconv): a JSON text is a list of *tokens*; a
   scalar token carries the decoded payload and the text class that decides how it is read back
   (integer-looking / has fraction or exponent).  Escaping and digit generation are the library's; the harness
   tokenises the real bytes and the direct check exercises them.  json.Decoder is modelled on syntactically
   valid texts only (Token() skips `,` and `:`, More() peeks) — its syntax errors are the library's. *)
From Coq Require Import ZArith NArith Bool List.
From PcoreV Require Import Model.Base.
Import ListNotations.
Open Scope Z_scope.

(* ---------------------------------------------------------------------------------------------- *)
(* results of a Go call *)

Inductive res (A : Type) :=
| Ok (a : A)
| Err          (* an error is reported: panic(px.Error(...)) / panic(err) *)
| Fault        (* a Go runtime fault: index out of range, failed type assertion, nil dereference *)
| OutOfFuel.   (* artefact of the model's fuel; excluded by every theorem *)
Arguments Ok {A} a.
Arguments Err {A}.
Arguments Fault {A}.
Arguments OutOfFuel {A}.

Definition bind {A B} (r : res A) (f : A -> res B) : res B :=
  match r with Ok a => f a | Err => Err | Fault => Fault | OutOfFuel => OutOfFuel end.
Notation "'let*' x ':=' r 'in' k" := (bind r (fun x => k))
  (at level 200, x pattern, r at level 100, k at level 200, right associativity).

Definition res_eqb {A} (eqb : A -> A -> bool) (a b : res A) : bool :=
  match a, b with
  | Ok x, Ok y => eqb x y
  | Err, Err | Fault, Fault | OutOfFuel, OutOfFuel => true
  | _, _ => false
  end.

(* ---------------------------------------------------------------------------------------------- *)
(* the calls a px.ValueConsumer receives (px/valueconsumer.go).  AddArray/AddHash take a `doer` closure
   inside which the children are added, so a call sequence is a forest, not a flat list. *)

Inductive scalar :=
| SUndef
| SBool (b : bool)
| SInt (z : Z)            (* px.Integer, an int64 *)
| SFloat (bits : Z)       (* px.Float, by its IEEE-754 bits (0 <= bits < 2^64) *)
| SStr (s : str)          (* px.StringValue: any byte string *)
| SBin (b : list N)       (* *types.Binary: only offered to a consumer with CanDoBinary() *)
| SOther.                 (* any other px.Value handed to Add (Default, ...) *)

Inductive ev :=
| EAdd (s : scalar)       (* Add(v) *)
| ERef (n : Z)            (* AddRef(n) *)
| EArr (l : list ev)      (* AddArray(len, doer) *)
| EHash (l : list ev).    (* AddHash(len, doer): key, value, key, value, ... *)

Definition scalar_eqb (a b : scalar) : bool :=
  match a, b with
  | SUndef, SUndef | SOther, SOther => true
  | SBool x, SBool y => Bool.eqb x y
  | SInt x, SInt y | SFloat x, SFloat y => Z.eqb x y
  | SStr x, SStr y | SBin x, SBin y => str_eqb x y
  | _, _ => false
  end.

Fixpoint ev_eqb (a b : ev) {struct a} : bool :=
  match a, b with
  | EAdd x, EAdd y => scalar_eqb x y
  | ERef x, ERef y => Z.eqb x y
  | EArr x, EArr y | EHash x, EHash y =>
      (fix go (l1 l2 : list ev) {struct l1} : bool :=
         match l1, l2 with
         | [], [] => true
         | u :: l1', v :: l2' => ev_eqb u v && go l1' l2'
         | _, _ => false
         end) x y
  | _, _ => false
  end.

(* ---------------------------------------------------------------------------------------------- *)
(* float64 facts the code depends on, computed from the bits *)

Definition f_exp (b : Z) : Z := (b / 2^52) mod 2048.
Definition f_mant (b : Z) : Z := b mod 2^52.

(* json.Marshal(float64) fails with UnsupportedValueError exactly on NaN and ±Inf (encoding/json encode.go
   floatEncoder) *)
Definition float_finite (b : Z) : bool := negb (f_exp b =? 2047).

(* Does json.Marshal(f) produce a text without '.', 'e', 'E'?  encoding/json uses strconv's shortest 'f'
   format unless |f| < 1e-6 or |f| >= 1e21 (then 'e'); in 'f' format the text has no fraction exactly when f
   is integral.  1e21 is exactly representable, so the comparison is exact. *)
Definition float_intlike (b : Z) : bool :=
  let e := f_exp b in
  let m := f_mant b in
  if e =? 2047 then false
  else if e =? 0 then m =? 0                      (* ±0 is written "0" / "-0"; a subnormal is not integral *)
  else
    let sig := 2^52 + m in
    if e >=? 1075 then sig * 2^(e - 1075) <? 10^21
    else if e <? 1023 then false                  (* 0 < |f| < 1 *)
    else sig mod 2^(1075 - e) =? 0.

(* strconv.ParseFloat on an integer-looking text: the nearest float64, ties to even, ±Inf beyond the range
   (json.Number.Float64; jsontodata.go:105 ignores the range error) *)
Definition float_of_Z_bits (z : Z) : Z :=
  if z =? 0 then 0
  else
    let s := if z <? 0 then 2^63 else 0 in
    let a := Z.abs z in
    let l := Z.log2 a in
    if l <=? 52 then s + (l + 1023) * 2^52 + (a * 2^(52 - l) - 2^52)
    else
      let sh := l - 52 in
      let q := a / 2^sh in
      let r := a mod 2^sh in
      let half := 2^(sh - 1) in
      let q' := if (half <? r) || ((r =? half) && Z.odd q) then q + 1 else q in
      let bits := (l + 1023) * 2^52 + (q' - 2^52) in   (* a carry out of the significand bumps the exponent *)
      if bits >=? 2047 * 2^52 then s + 2047 * 2^52 else s + bits.

(* ---------------------------------------------------------------------------------------------- *)
(* UTF-8 as Go decodes it (unicode/utf8 DecodeRune: an invalid byte is RuneError of width 1).
   json.Marshal(string) writes every invalid byte as \ufffd; every valid character survives. *)

Definition in_rng (lo b hi : N) : bool := (N.leb lo b && N.leb b hi)%N.
Definition cont (b : N) : bool := in_rng 128 b 191.
Definition two_ok (b0 b1 : N) : bool := in_rng 194 b0 223 && cont b1.
Definition three_ok (b0 b1 b2 : N) : bool :=
  ((N.eqb b0 224 && in_rng 160 b1 191) || (in_rng 225 b0 236 && cont b1) ||
   (N.eqb b0 237 && in_rng 128 b1 159) || (in_rng 238 b0 239 && cont b1)) && cont b2.
Definition four_ok (b0 b1 b2 b3 : N) : bool :=
  ((N.eqb b0 240 && in_rng 144 b1 191) || (in_rng 241 b0 243 && cont b1) ||
   (N.eqb b0 244 && in_rng 128 b1 143)) && cont b2 && cont b3.

Definition replacement : str := [239; 191; 189]%N.      (* U+FFFD *)

Fixpoint utf8_coerce (s : str) : str :=
  match s with
  | [] => []
  | b0 :: r0 =>
    if N.ltb b0 128 then b0 :: utf8_coerce r0
    else
      let bad := replacement ++ utf8_coerce r0 in
      match r0 with
      | [] => bad
      | b1 :: r1 =>
        if two_ok b0 b1 then b0 :: b1 :: utf8_coerce r1
        else match r1 with
             | [] => bad
             | b2 :: r2 =>
               if three_ok b0 b1 b2 then b0 :: b1 :: b2 :: utf8_coerce r2
               else match r2 with
                    | [] => bad
                    | b3 :: r3 => if four_ok b0 b1 b2 b3 then b0 :: b1 :: b2 :: b3 :: utf8_coerce r3 else bad
                    end
             end
      end
  end.

(* utf8.ValidString *)
Fixpoint utf8_valid (s : str) : bool :=
  match s with
  | [] => true
  | b0 :: r0 =>
    if N.ltb b0 128 then utf8_valid r0
    else match r0 with
         | [] => false
         | b1 :: r1 =>
           if two_ok b0 b1 then utf8_valid r1
           else match r1 with
                | [] => false
                | b2 :: r2 =>
                  if three_ok b0 b1 b2 then utf8_valid r2
                  else match r2 with
                       | [] => false
                       | b3 :: r3 => if four_ok b0 b1 b2 b3 then utf8_valid r3 else false
                       end
                end
         end
  end.

(* ---------------------------------------------------------------------------------------------- *)
(* JSON text as tokens *)

Inductive numtext :=
| NInt (z : Z)        (* the text matches -?[0-9]+ ; z is its exact value *)
| NFrac (bits : Z).   (* the text has a fraction or an exponent; bits of strconv.ParseFloat(text, 64) *)

Inductive jtoken :=
| LBrack | RBrack | LBrace | RBrace | Comma | Colon
| TNull | TBool (b : bool) | TStr (s : str) | TNum (n : numtext)
| TBad.               (* bytes that are no JSON lexeme (never written by the streamer) *)

Definition numtext_eqb (a b : numtext) : bool :=
  match a, b with
  | NInt x, NInt y | NFrac x, NFrac y => Z.eqb x y
  | _, _ => false
  end.

Definition jtoken_eqb (a b : jtoken) : bool :=
  match a, b with
  | LBrack, LBrack | RBrack, RBrack | LBrace, LBrace | RBrace, RBrace | Comma, Comma | Colon, Colon
  | TNull, TNull | TBad, TBad => true
  | TBool x, TBool y => Bool.eqb x y
  | TStr x, TStr y => str_eqb x y
  | TNum x, TNum y => numtext_eqb x y
  | _, _ => false
  end.

(* serialization/extension.go:14  PcoreRefKey = `__pref` *)
Definition pref_key : str := [95; 95; 112; 114; 101; 102]%N.

(* ---------------------------------------------------------------------------------------------- *)
(* the writer: serialization/jsonstreamer.go *)

(* jsontodata.go:13-17 *)
Inductive jstate := FirstInArray | FirstInObject | AfterElement | AfterValue | AfterKey.

(* jsonstreamer.go:103 write: the type switch (StringValue, Float, Integer, Boolean, default) *)
Definition write (s : scalar) : res (list jtoken) :=
  match s with
  | SStr x => Ok [TStr (utf8_coerce x)]                 (* :108 json.Marshal(e.String()) *)
  | SFloat b =>                                          (* :110 json.Marshal(e.Float()) *)
      if float_finite b then
        (* :111 if !bytes.ContainsAny(v, ".eE") { v = append(v, '.', '0') } : either way the text now has a
           fraction or an exponent and parses (strconv round trip) to the same float *)
        if float_intlike b then Ok [TNum (NFrac b)] else Ok [TNum (NFrac b)]
      else Err                                           (* :122 assertOk(0, err): UnsupportedValueError *)
  | SInt z => Ok [TNum (NInt z)]                         (* :116 *)
  | SBool b => Ok [TBool b]                              (* :118 *)
  | SUndef | SBin _ | SOther => Ok [TNull]               (* :120 default *)
  end.

(* the pinned tree (before 1f092e9): an integral float was written without fraction; `float_int_text b`
   stands for the integer its digits denote *)
Definition write_pinned (float_int_text : Z -> Z) (s : scalar) : res (list jtoken) :=
  match s with
  | SFloat b =>
      if float_finite b then
        if float_intlike b then Ok [TNum (NInt (float_int_text b))] else Ok [TNum (NFrac b)]
      else Err
  | _ => write s
  end.

(* jsonstreamer.go:79 delimit(doer).  `body` is the doer's effect: the bytes it writes and the value of
   j.state when it returns (AddArray/AddHash overwrite j.state inside the doer, :39 and :49). *)
Definition delimit (st : jstate) (body : res (list jtoken * jstate)) : res (list jtoken * jstate) :=
  match st with
  | FirstInArray => let* (o, _) := body in Ok (o, AfterElement)              (* :81 *)
  | FirstInObject => let* (o, _) := body in Ok (o, AfterKey)                 (* :84 *)
  | AfterKey => let* (o, _) := body in Ok (Colon :: o, AfterValue)           (* :87 *)
  | AfterValue => let* (o, _) := body in Ok (Comma :: o, AfterKey)           (* :91 *)
  | AfterElement => let* (o, _) := body in Ok (Comma :: o, AfterElement)     (* :95 default; :99 j.state = afterElement *)
  end.

(* the pinned tree (before 1ed663c): the default arm left j.state as the doer left it *)
Definition delimit_pinned (st : jstate) (body : res (list jtoken * jstate)) : res (list jtoken * jstate) :=
  match st with
  | AfterElement => let* (o, st') := body in Ok (Comma :: o, st')
  | _ => delimit st body
  end.

(* jsonstreamer.go:63 AddRef: fmt.Fprintf(j.out, `{"%s":%d}`, PcoreRefKey, ref) *)
Definition ref_tokens (n : Z) : list jtoken := [LBrace; TStr pref_key; Colon; TNum (NInt n); RBrace].

(* the children of a doer, in order, threading j.state *)
Definition seq_gen (f : jstate -> ev -> res (list jtoken * jstate)) :=
  fix go (st0 : jstate) (l0 : list ev) {struct l0} : res (list jtoken * jstate) :=
    match l0 with
    | [] => Ok ([], st0)
    | x :: l' =>
        let* (o1, st1) := f st0 x in
        let* (o2, st2) := go st1 l' in
        Ok (o1 ++ o2, st2)
    end.

Section Stream.
  Variable dl : jstate -> res (list jtoken * jstate) -> res (list jtoken * jstate).
  Variable wr : scalar -> res (list jtoken).

  (* one consumer call in state st: Add :55, AddRef :61, AddArray :37, AddHash :46 *)
  Fixpoint stream_gen (st : jstate) (e : ev) {struct e} : res (list jtoken * jstate) :=
    dl st
      match e with
      | EAdd s => let* o := wr s in Ok (o, st)
      | ERef n => Ok (ref_tokens n, st)
      | EArr l =>                                      (* :39 j.state = firstInArray; '['; doer(); ']' *)
          let* (o, st') := seq_gen stream_gen FirstInArray l in
          Ok (LBrack :: o ++ [RBrack], st')
      | EHash l =>                                     (* :48 '{'; j.state = firstInObject; doer(); '}' *)
          let* (o, st') := seq_gen stream_gen FirstInObject l in
          Ok (LBrace :: o ++ [RBrace], st')
      end.
End Stream.

Definition stream_ev := stream_gen delimit write.
Definition stream_list := seq_gen stream_ev.

(* NewJsonStreamer starts in firstInArray (jsonstreamer.go:19); the text written for a sequence of
   top-level calls, and for the single top-level call every Serializer.Convert makes *)
Definition stream_all (evs : list ev) : res (list jtoken) :=
  let* (o, _) := stream_list FirstInArray evs in Ok o.
Definition stream_top (e : ev) : res (list jtoken) :=
  let* (o, _) := stream_ev FirstInArray e in Ok o.

Definition stream_top_pinned (fit : Z -> Z) (e : ev) : res (list jtoken) :=
  let* (o, _) := stream_gen delimit_pinned (write_pinned fit) FirstInArray e in Ok o.

(* ---------------------------------------------------------------------------------------------- *)
(* RFC 8259, section 2-5, as a recursive-descent recogniser over tokens:
     value  = false / null / true / object / array / number / string
     array  = "[" [ value *( "," value ) ] "]"
     object = "{" [ member *( "," member ) ] "}"      member = string ":" value
   Each function returns the rest of the input after the phrase it recognised. *)

Fixpoint parse_value (fuel : nat) (toks : list jtoken) {struct fuel} : option (list jtoken) :=
  match fuel with
  | O => None
  | S f =>
    match toks with
    | TNull :: r | TBool _ :: r | TStr _ :: r | TNum _ :: r => Some r
    | LBrack :: RBrack :: r => Some r
    | LBrack :: r => parse_elems f r
    | LBrace :: RBrace :: r => Some r
    | LBrace :: r => parse_members f r
    | _ => None
    end
  end
with parse_elems (fuel : nat) (toks : list jtoken) {struct fuel} : option (list jtoken) :=
  match fuel with
  | O => None
  | S f =>
    match parse_value f toks with
    | Some (Comma :: r) => parse_elems f r
    | Some (RBrack :: r) => Some r
    | _ => None
    end
  end
with parse_members (fuel : nat) (toks : list jtoken) {struct fuel} : option (list jtoken) :=
  match fuel with
  | O => None
  | S f =>
    match toks with
    | TStr _ :: Colon :: r =>
      match parse_value f r with
      | Some (Comma :: r') => parse_members f r'
      | Some (RBrace :: r') => Some r'
      | _ => None
      end
    | _ => None
    end
  end.

(* a JSON text is one value *)
Definition json_valid (toks : list jtoken) : bool :=
  match parse_value (S (length toks)) toks with
  | Some [] => true
  | _ => false
  end.

(* ---------------------------------------------------------------------------------------------- *)
(* the reader: serialization/jsontodata.go *)

(* json.Decoder.Token(): the next token that is not a separator (on a valid text) *)
Fixpoint next_token (toks : list jtoken) : option (jtoken * list jtoken) :=
  match toks with
  | [] => None                                              (* io.EOF *)
  | Comma :: r | Colon :: r => next_token r
  | t :: r => Some (t, r)
  end.

(* json.Decoder.More(): the next byte is neither ']' nor '}' (nor EOF) *)
Definition more (toks : list jtoken) : bool :=
  match toks with
  | [] | RBrack :: _ | RBrace :: _ => false
  | _ => true
  end.

(* json.Number.Int64 = strconv.ParseInt(text, 10, 64): fails on a fraction/exponent and out of range *)
Definition num_int64 (n : numtext) : option Z :=
  match n with
  | NInt z => if in_int64 z then Some z else None
  | NFrac _ => None
  end.

(* json.Number.Float64 *)
Definition num_float64 (n : numtext) : Z :=
  match n with
  | NInt z => float_of_Z_bits z
  | NFrac b => b
  end.

(* jsontodata.go:95 addValue: what is handed to c.Add for a token (nothing for a delimiter) *)
Definition add_value (t : jtoken) : list ev :=
  match t with
  | TBool b => [EAdd (SBool b)]                                             (* :97 *)
  | TNum n => match num_int64 n with
              | Some z => [EAdd (SInt z)]                                   (* :102 *)
              | None => [EAdd (SFloat (num_float64 n))]                     (* :105 *)
              end
  | TStr s => [EAdd (SStr s)]                                               (* :108 *)
  | TNull => [EAdd SUndef]                                                  (* :110 *)
  | _ => []
  end.

Definition is_pref (t : jtoken) : bool :=
  match t with TStr s => str_eqb s pref_key | _ => false end.

(* jsontodata.go:32 jsonValues: the loop is the tail call; returns the calls made on the consumer and the
   unread rest of the text *)
Fixpoint jv (fuel : nat) (toks : list jtoken) {struct fuel} : res (list ev * list jtoken) :=
  match fuel with
  | O => OutOfFuel
  | S fuel' =>
    match next_token toks with                                               (* :34 d.Token() *)
    | None => Ok ([], [])                                                   (* :35 io.EOF *)
    | Some (t, rest) =>
      match t with
      | TBad => Err                                                          (* :38 syntax error *)
      | RBrack | RBrace => Ok ([], rest)                                    (* :43 *)
      | LBrace =>                                                            (* :46 *)
        if more rest then                                                    (* :48 *)
          match next_token rest with                                         (* :49 *)
          | None => Err
          | Some (k, rest1) =>
            if is_pref k && more rest1 then                                  (* :53 *)
              match next_token rest1 with                                    (* :54 *)
              | None => Err
              | Some (TNum n, rest2) =>
                match num_int64 n with                                       (* :59 *)
                | None => Err                                                (* :60 *)
                | Some z =>
                  match next_token rest2 with                                (* :64 consume end delimiter *)
                  | Some (RBrace, rest3) =>                                  (* :68 *)
                      let* (tl, r) := jv fuel' rest3 in
                      Ok (ERef z :: tl, r)                                   (* :69 c.AddRef(int(n)); :73 continue *)
                  | _ => Err                                                 (* :71 invalid token *)
                  end
                end
              | Some (_, _) => Fault                                         (* :59 t.(json.Number) on another token *)
              end
            else
              let* (inner, rest2) := jv fuel' rest1 in                       (* :75 AddHash(8, {addValue(c,t); jsonValues(c,d)}) *)
              let* (tl, r) := jv fuel' rest2 in
              Ok (EHash (add_value k ++ inner) :: tl, r)
          end
        else
          let* (inner, rest1) := jv fuel' rest in                            (* :80 AddHash(8, {jsonValues(c,d)}) *)
          let* (tl, r) := jv fuel' rest1 in
          Ok (EHash inner :: tl, r)
      | LBrack =>
          let* (inner, rest1) := jv fuel' rest in                            (* :85 AddArray(8, {jsonValues(c,d)}) *)
          let* (tl, r) := jv fuel' rest1 in
          Ok (EArr inner :: tl, r)
      | _ =>
          let* (tl, r) := jv fuel' rest in                                   (* :90 addValue(c, t) *)
          Ok (add_value t ++ tl, r)
      end
    end
  end.

(* jsontodata.go:21 JsonToData: every panic below, runtime faults included, is recovered and re-raised as
   px.Error(InvalidJson) *)
Definition read (toks : list jtoken) : res (list ev) :=
  match jv (S (length toks)) toks with
  | Ok (evs, _) => Ok evs
  | Err | Fault => Err
  | OutOfFuel => OutOfFuel
  end.

(* ---------------------------------------------------------------------------------------------- *)
(* specification-level definitions used by the theorems *)

(* the canonical JSON text of an event tree, written without any state *)
Definition scalar_token (s : scalar) : jtoken :=
  match s with
  | SStr x => TStr (utf8_coerce x)
  | SFloat b => TNum (NFrac b)
  | SInt z => TNum (NInt z)
  | SBool b => TBool b
  | SUndef | SBin _ | SOther => TNull
  end.

(* the children of a hash after the first: `:` value `,` key `:` value ... *)
Definition alt_gen (f : ev -> list jtoken) :=
  fix go (colon : bool) (l : list ev) {struct l} : list jtoken :=
    match l with
    | [] => []
    | x :: l' => (if colon then Colon else Comma) :: f x ++ go (negb colon) l'
    end.

Fixpoint render (e : ev) : list jtoken :=
  match e with
  | EAdd s => [scalar_token s]
  | ERef n => ref_tokens n
  | EArr l =>
      LBrack :: match l with
                | [] => []
                | x :: l' => render x ++ flat_map (fun y => Comma :: render y) l'
                end ++ [RBrack]
  | EHash l =>
      LBrace :: match l with
                | [] => []
                | k :: l' => render k ++ alt_gen render true l'
                end ++ [RBrace]
  end.

(* what a JSON text can carry of an event: strings as valid UTF-8 (each invalid byte becomes U+FFFD, every
   Unicode character is kept), a value that is no Data scalar as null *)
Definition scalar_image (s : scalar) : scalar :=
  match s with
  | SStr x => SStr (utf8_coerce x)
  | SBin _ | SOther => SUndef
  | _ => s
  end.

Fixpoint json_image (e : ev) : ev :=
  match e with
  | EAdd s => EAdd (scalar_image s)
  | ERef n => ERef n
  | EArr l => EArr (map json_image l)
  | EHash l => EHash (map json_image l)
  end.

(* an event tree as a Serializer produces it for a consumer with CanDoComplexKeys() = false:
   int64 integers and references, finite floats, hashes with an even number of children whose keys are
   strings.  `guard` is the extra condition on the first key of a hash (see C11_statement). *)
Definition scalar_ok (s : scalar) : bool :=
  match s with
  | SInt z => in_int64 z
  | SFloat b => float_finite b
  | _ => true
  end.

Definition is_str (e : ev) : bool := match e with EAdd (SStr _) => true | _ => false end.

Fixpoint keys_ok (l : list ev) : bool :=
  match l with
  | [] => true
  | k :: _ :: l' => is_str k && keys_ok l'
  | [_] => false
  end.

Definition first_key_is_pref (l : list ev) : bool :=
  match l with
  | EAdd (SStr s) :: _ => str_eqb (utf8_coerce s) pref_key
  | _ => false
  end.

Section Wf.
  Variable guard : list ev -> bool.
  Fixpoint json_wf_gen (e : ev) : bool :=
    match e with
    | EAdd s => scalar_ok s
    | ERef n => in_int64 n
    | EArr l => forallb json_wf_gen l
    | EHash l => keys_ok l && guard l && forallb json_wf_gen l
    end.
End Wf.

(* the property's own domain: every well-formed stream *)
Definition json_wf_all : ev -> bool := json_wf_gen (fun _ => true).
(* ... minus the open finding: a hash whose first key is the reserved string `__pref` *)
Definition json_wf : ev -> bool := json_wf_gen (fun l => negb (first_key_is_pref l)).

(* exactly representable scalars: the image is the identity *)
Definition scalar_exact (s : scalar) : bool :=
  match s with
  | SStr x => utf8_valid x
  | SBin _ | SOther => false
  | _ => true
  end.

Fixpoint data_exact (e : ev) : bool :=
  match e with
  | EAdd s => scalar_exact s
  | ERef _ => true
  | EArr l | EHash l => forallb data_exact l
  end.
