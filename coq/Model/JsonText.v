(* JsonText.v - the JSON transport at the level of the BYTES of a whole text.
     serialization/jsonstreamer.go   what NewJsonStreamer writes to its io.Writer, byte by byte
     serialization/jsontodata.go:27  json.NewDecoder(in); d.UseNumber(): from bytes to the tokens jsonValues sees
   Model/Json.v works on tokens (a scalar token carries the decoded payload); the step from the bytes of a whole
   text to its token list used to be the harness' tokenizer (harness/cmd/c11/jsonio.go tokenize), i.e. trusted.
   This file models both directions of that step:
     bstream_gen / btext   the streamer writing bytes: delimiters ',' ':' '[' ']' '{' '}', `{"__pref":%d}`,
                           strings by Model/JsonStr.v (json.Marshal), integers in decimal (json.Marshal(int64) =
                           strconv.FormatInt, fmt %d), floats by the ORACLE float_text + the `.0` of fix 1f092e9,
                           true/false/null;
     lx / lex              a tokenizer of a whole text (the same algorithm as the harness' tokenize: white space,
                           six structural bytes, a string lexeme up to its unescaped closing quote decoded by
                           json_unquote, a maximal run of number characters checked against the RFC 8259 number
                           grammar and classified integer-looking / fraction-or-exponent, a run of lower-case
                           letters) as ONE structurally recursive pass (no fuel);
     read_text             JsonToData on bytes = read (lex bytes).
   ORACLES (Section variables, strconv's; nothing is assumed about them in this file):
     float_text  : bits -> the text json.Marshal(float64) writes (strconv.AppendFloat 'f'/'e', shortest)
     parse_float : text -> bits of strconv.ParseFloat(text, 64)
   The only law the theorems use is `float_law` below, a BOOLEAN evaluated on every float of every case of
   every run with the library's answers (obligation text_model): the text is a JSON number lexeme and parses
   back to the same bits.  Integer texts are not an oracle: int_text / int_of_text are computed (Coq's Decimal)
   and proved inverse. *)
From Coq Require Import ZArith NArith Bool List Decimal.
From PcoreV Require Import Model.Base Model.Json Model.JsonStr.
Import ListNotations.
Local Open Scope N_scope.

(* ---------------------------------------------------------------------------------------------- *)
(* integers in decimal: strconv.FormatInt(i, 10) / fmt %d, and strconv.ParseInt / big.Int.SetString *)

Fixpoint uint_bytes (u : uint) : list N :=
  match u with
  | Nil => []
  | D0 u => 48 :: uint_bytes u | D1 u => 49 :: uint_bytes u | D2 u => 50 :: uint_bytes u
  | D3 u => 51 :: uint_bytes u | D4 u => 52 :: uint_bytes u | D5 u => 53 :: uint_bytes u
  | D6 u => 54 :: uint_bytes u | D7 u => 55 :: uint_bytes u | D8 u => 56 :: uint_bytes u
  | D9 u => 57 :: uint_bytes u
  end.

Definition int_text (z : Z) : list N :=
  match Z.to_int z with
  | Pos u => uint_bytes u
  | Neg u => 45 :: uint_bytes u
  end.

Definition digit_cons (c : N) (u : uint) : option uint :=
  if c =? 48 then Some (D0 u) else if c =? 49 then Some (D1 u) else if c =? 50 then Some (D2 u)
  else if c =? 51 then Some (D3 u) else if c =? 52 then Some (D4 u) else if c =? 53 then Some (D5 u)
  else if c =? 54 then Some (D6 u) else if c =? 55 then Some (D7 u) else if c =? 56 then Some (D8 u)
  else if c =? 57 then Some (D9 u) else None.

Fixpoint bytes_uint (t : list N) : option uint :=
  match t with
  | [] => Some Nil
  | c :: r => match bytes_uint r with Some u => digit_cons c u | None => None end
  end.

(* the text matches -?[0-9]+ (harness isIntText): its exact value *)
Definition int_of_text (t : list N) : option Z :=
  match t with
  | [] => None
  | c :: r =>
    if c =? 45 then
      match r with
      | [] => None
      | _ :: _ => match bytes_uint r with Some u => Some (Z.of_int (Neg u)) | None => None end
      end
    else match bytes_uint t with Some u => Some (Z.of_int (Pos u)) | None => None end
  end.

(* ---------------------------------------------------------------------------------------------- *)
(* RFC 8259 section 6:  number = [ "-" ] int [ frac ] [ exp ]   int = "0" / digit1-9 *DIGIT
   frac = "." 1*DIGIT   exp = ("e" / "E") [ "-" / "+" ] 1*DIGIT       (json.Valid on a number text) *)

Definition is_digit (c : N) : bool := in_rng 48 c 57.

Fixpoint drop_digits (t : list N) : list N :=
  match t with
  | c :: r => if is_digit c then drop_digits r else t
  | [] => []
  end.

Definition num_exp (t : list N) : bool :=
  match t with
  | [] => true
  | c :: r =>
    if (c =? 101) || (c =? 69) then
      let r' := match r with s :: q => if (s =? 43) || (s =? 45) then q else r | [] => r end in
      match r' with
      | d :: q => is_digit d && match drop_digits q with [] => true | _ :: _ => false end
      | [] => false
      end
    else false
  end.

Definition num_frac (t : list N) : bool :=
  match t with
  | c :: r =>
    if c =? 46 then
      match r with
      | d :: q => is_digit d && num_exp (drop_digits q)
      | [] => false
      end
    else num_exp t
  | [] => true
  end.

Definition num_int (t : list N) : bool :=
  match t with
  | c :: r => if c =? 48 then num_frac r else if in_rng 49 c 57 then num_frac (drop_digits r) else false
  | [] => false
  end.

Definition num_ok (t : list N) : bool :=
  match t with
  | c :: r => if c =? 45 then num_int r else num_int t
  | [] => false
  end.

(* bytes.ContainsAny(v, ".eE") *)
Definition has_frac (t : list N) : bool := existsb (fun c => (c =? 46) || (c =? 101) || (c =? 69)) t.

(* the bytes a tokenizer takes into one number lexeme *)
Definition numchar (c : N) : bool :=
  is_digit c || (c =? 43) || (c =? 45) || (c =? 46) || (c =? 101) || (c =? 69).
Definition numstart (c : N) : bool := (c =? 45) || is_digit c.
Definition lower (c : N) : bool := in_rng 97 c 122.

(* what may follow a number or a literal for it to end there: nothing, or a byte that is neither a number
   character nor a lower-case letter (in a text of the streamer: ',' ':' ']' '}') *)
Definition dstart (rest : list N) : bool :=
  match rest with [] => true | c :: _ => negb (numchar c) && negb (lower c) end.

(* the shape every number text has: starts with '-' or a digit, number characters throughout *)
Definition num_shape (t : list N) : bool :=
  match t with c :: r => numstart c && forallb numchar r | [] => false end.

Definition w_null : list N := [110; 117; 108; 108].
Definition w_true : list N := [116; 114; 117; 101].
Definition w_false : list N := [102; 97; 108; 115; 101].

Definition word_token (w : list N) : jtoken :=
  if list_eqb N.eqb w w_null then TNull
  else if list_eqb N.eqb w w_true then TBool true
  else if list_eqb N.eqb w w_false then TBool false
  else TBad.

Section Text.
  Variable float_text : Z -> list N.     (* ORACLE: json.Marshal(math.Float64frombits(bits)) *)
  Variable parse_float : list N -> Z.    (* ORACLE: bits of strconv.ParseFloat(text, 64) *)

  (* ---------------------------------------------------------------------------------------------- *)
  (* the writer, bytes *)

  (* jsonstreamer.go:113 if err == nil && !bytes.ContainsAny(v, `.eE`) { v = append(v, '.', '0') } *)
  Definition fix_float (v : list N) : list N := if has_frac v then v else v ++ [46; 48].

  (* jsonstreamer.go:103 write *)
  Definition bwrite (s : scalar) : res (list N) :=
    match s with
    | SStr x => Ok (write_string x)                                   (* :108 json.Marshal(e.String()) *)
    | SFloat b => if float_finite b then Ok (fix_float (float_text b)) (* :110-115 *)
                  else Err                                             (* :124 assertOk(0, err) *)
    | SInt z => Ok (int_text z)                                        (* :117 json.Marshal(e.Int()) *)
    | SBool b => Ok (if b then w_true else w_false)                    (* :119 *)
    | SUndef | SBin _ | SOther => Ok w_null                            (* :121 *)
    end.

  (* jsonstreamer.go:79 delimit *)
  Definition bdelimit (st : jstate) (body : res (list N * jstate)) : res (list N * jstate) :=
    match st with
    | FirstInArray => let* (o, _) := body in Ok (o, AfterElement)
    | FirstInObject => let* (o, _) := body in Ok (o, AfterKey)
    | AfterKey => let* (o, _) := body in Ok (58 :: o, AfterValue)       (* ':' *)
    | AfterValue => let* (o, _) := body in Ok (44 :: o, AfterKey)       (* ',' *)
    | AfterElement => let* (o, _) := body in Ok (44 :: o, AfterElement) (* ',' *)
    end.

  (* jsonstreamer.go:63 fmt.Fprintf(j.out, `{"%s":%d}`, PcoreRefKey, ref): the key is written raw *)
  Definition bref (n : Z) : list N := [123; 34] ++ pref_key ++ [34; 58] ++ int_text n ++ [125].

  Definition bseq_gen (f : jstate -> ev -> res (list N * jstate)) :=
    fix go (st0 : jstate) (l0 : list ev) {struct l0} : res (list N * jstate) :=
      match l0 with
      | [] => Ok ([], st0)
      | x :: l' =>
          let* (o1, st1) := f st0 x in
          let* (o2, st2) := go st1 l' in
          Ok (o1 ++ o2, st2)
      end.

  (* Add :55, AddRef :61, AddArray :37, AddHash :46 *)
  Fixpoint bstream_ev (st : jstate) (e : ev) {struct e} : res (list N * jstate) :=
    bdelimit st
      match e with
      | EAdd s => let* o := bwrite s in Ok (o, st)
      | ERef n => Ok (bref n, st)
      | EArr l =>
          let* (o, st') := bseq_gen bstream_ev FirstInArray l in
          Ok (91 :: o ++ [93], st')
      | EHash l =>
          let* (o, st') := bseq_gen bstream_ev FirstInObject l in
          Ok (123 :: o ++ [125], st')
      end.

  Definition bstream_list := bseq_gen bstream_ev.

  (* NewJsonStreamer (state firstInArray) + one top-level call: the bytes in the io.Writer *)
  Definition btext (e : ev) : res (list N) :=
    let* (o, _) := bstream_ev FirstInArray e in Ok o.

  (* ---------------------------------------------------------------------------------------------- *)
  (* the tokenizer *)

  Definition num_token (t : list N) : jtoken :=
    if num_ok t then
      match int_of_text t with
      | Some z => TNum (NInt z)
      | None => TNum (NFrac (parse_float t))
      end
    else TBad.

  (* the bytes of the current lexeme are kept in reverse *)
  Inductive lstate :=
  | LTop
  | LStr (acc : list N) (esc : bool)      (* inside a string; esc: the previous byte was an unescaped backslash *)
  | LNum (acc : list N)
  | LWord (acc : list N).

  Definition is_ws (c : N) : bool := (c =? 32) || (c =? 9) || (c =? 10) || (c =? 13).

  (* a byte met between lexemes *)
  Definition start (c : N) : list jtoken * lstate :=
    if is_ws c then ([], LTop)
    else if c =? 91 then ([LBrack], LTop)
    else if c =? 93 then ([RBrack], LTop)
    else if c =? 123 then ([LBrace], LTop)
    else if c =? 125 then ([RBrace], LTop)
    else if c =? 44 then ([Comma], LTop)
    else if c =? 58 then ([Colon], LTop)
    else if c =? 34 then ([], LStr [34] false)
    else if numstart c then ([], LNum [c])
    else if lower c then ([], LWord [c])
    else ([TBad], LTop).

  Definition finish (st : lstate) : list jtoken :=
    match st with
    | LTop => []
    | LStr _ _ => [TBad]                        (* no closing quote *)
    | LNum acc => [num_token (List.rev acc)]
    | LWord acc => [word_token (List.rev acc)]
    end.

  Fixpoint lx (st : lstate) (bs : list N) {struct bs} : list jtoken :=
    match bs with
    | [] => finish st
    | c :: r =>
      match st with
      | LTop => let (o, st') := start c in o ++ lx st' r
      | LStr acc esc =>
          if esc then lx (LStr (c :: acc) false) r
          else if c =? 92 then lx (LStr (c :: acc) true) r
          else if c =? 34 then str_token (List.rev (c :: acc)) :: lx LTop r
          else lx (LStr (c :: acc) false) r
      | LNum acc =>
          if numchar c then lx (LNum (c :: acc)) r
          else num_token (List.rev acc) :: (let (o, st') := start c in o ++ lx st' r)
      | LWord acc =>
          if lower c then lx (LWord (c :: acc)) r
          else word_token (List.rev acc) :: (let (o, st') := start c in o ++ lx st' r)
      end
    end.

  Definition lex (bs : list N) : list jtoken := lx LTop bs.

  (* jsontodata.go:21 JsonToData(path, in, consumer) on the bytes of `in` *)
  Definition read_text (bs : list N) : res (list ev) := read (lex bs).

  Definition lex_res (r : res (list N)) : res (list jtoken) :=
    match r with Ok b => Ok (lex b) | Err => Err | Fault => Fault | OutOfFuel => OutOfFuel end.

  (* ---------------------------------------------------------------------------------------------- *)
  (* the one law about the oracles, as a boolean: what is written for a finite float is a JSON number lexeme
     and strconv reads it back to the same bits *)
  Definition float_law (b : Z) : bool :=
    negb (float_finite b) ||
    (num_ok (fix_float (float_text b)) && Z.eqb (parse_float (fix_float (float_text b))) b).

  Fixpoint floats_lawful (e : ev) : bool :=
    match e with
    | EAdd (SFloat b) => float_law b
    | EAdd _ | ERef _ => true
    | EArr l | EHash l => forallb floats_lawful l
    end.
End Text.

(* NOT the code: the fraction test that only looks for '.' (hand-made mutant M5 of design_notes/C11.md), kept as the
   witness that the byte model tells it apart: 1e+21 becomes 1e+21.0, no number lexeme *)
Definition fix_float_dot (v : list N) : list N := if existsb (fun c => c =? 46) v then v else v ++ [46; 48].

(* ---------------------------------------------------------------------------------------------- *)
(* oracles given as tables (the correspondence run supplies the library's answers for the floats / number texts
   of a case; the non-vacuity examples use them too) *)
Definition ftab_lookup (tab : list (Z * list N)) (b : Z) : list N :=
  match find (fun p => Z.eqb (fst p) b) tab with Some p => snd p | None => [] end.
Definition ptab_lookup (tab : list (list N * Z)) (t : list N) : Z :=
  match find (fun p => list_eqb N.eqb (fst p) t) tab with Some p => snd p | None => (-1)%Z end.
