(* CtxRoot.v — property C14: px.DoWithContext and the entry points built from it, for EVERY argument (also the context
   that is current already) and for bodies that do NOT nest properly: bodies that leave another context current or
   replace the goroutine-local table.

   The interleaving machine of Model/Ctx.v knows bodies made of well nested scopes only.  This file adds the part of
   the behaviour that lies outside it: one goroutine (that a goroutine's table entry is touched by that goroutine only
   is C14_goroutine_local), its table entry, and programs over

     pcore.RootContext()      internal/runtime.go:230  threadlocal.Init(); threadlocal.Set(key, new root context) - the
                              context stays current after the call (documented so)                          -> RRoot
     threadlocal.Init()       threadlocal/gid.go:41    a new, empty table                                    -> RInit
     threadlocal.Delete(key)  gid.go:92                                                                      -> RDelete
     threadlocal.Set(key, c)  gid.go:104 (panics without a table), c a new context                           -> RSetNew
     px.DoWithContext(a, f)   px/context.go:147, a = the current context / a new one / the one of the k-th enclosing
                              DoWithContext                                                                  -> RDwc
     func(){ defer recover(); body }()                                                                       -> RTry
     panic(error)                                                                                            -> RPanic
     observation of (threadlocal.Initialized(), threadlocal.Get(key))                                        -> RObs

   px.DoWithContext is NOT modelled again: `eval` calls dwc_enter and run_dact of Model/Ctx.v (the functions the
   interleaving machine uses), on the one-entry table [e] with goroutine index 0.
   The other public entry points are compositions of DoWithContext (internal/runtime.go:239-285), the harness prints
   them as such:
     pcore.Do(f)                      = RDwc ANew [RDwc ANew f]            (root context, then its fork)
     pcore.Try(f)                     = RTry [RDwc ANew [RDwc ANew f]]
     pcore.DoWithParent(Background,f) = RDwc ANew f                        (a root context)
     pcore.DoWithParent(c, f)         = RDwc ANew f                        (c.Fork())
     pcore.TryWithParent(p, f)        = RTry [RDwc ANew f]
   Not in the language: threadlocal.Cleanup() inside a body (the deferred Set of DoWithContext would panic).
   Definitions only. *)
From Coq Require Import ZArith NArith Bool List.
From PcoreV Require Import Model.Base Model.Ctx.
Import ListNotations.
Local Open Scope nat_scope.

Inductive rarg :=
| ACur              (* the context that is current at the call; a new one when there is none *)
| ANew              (* a context made for the call *)
| AOuter (k : nat). (* the context established by the k-th enclosing DoWithContext (0 = innermost); new if none *)

Inductive rop :=
| RRoot
| RInit
| RDelete
| RSetNew
| RObs
| RPanic
| RDwc (a : rarg) (body : list rop)
| RTry (body : list rop).

Inductive revent :=
| REObs (e : option table)      (* None: no table; Some None: table, no current context; Some (Some c): context c *)
| REPanic (notable : bool).     (* false: panic(error) of the program; true: threadlocal.Set without a table *)

(* state of the goroutine: its table entry (a one-entry tlsmap, index 0), the next context identity, the contexts of
   the enclosing DoWithContext calls, the trace (newest first), panicking *)
Record rst := { r_tbl : tlsmap; r_next : nat; r_env : list addr; r_trace : list revent; r_pan : bool }.

Definition rshared (t : tlsmap) : shared := {| tls := t; cheap := []; lheap := [] |}.

Definition set_tbl (t : tlsmap) (st : rst) : rst :=
  {| r_tbl := t; r_next := r_next st; r_env := r_env st; r_trace := r_trace st; r_pan := r_pan st |}.
Definition set_pan (b : bool) (st : rst) : rst :=
  {| r_tbl := r_tbl st; r_next := r_next st; r_env := r_env st; r_trace := r_trace st; r_pan := b |}.
Definition set_env (env : list addr) (st : rst) : rst :=
  {| r_tbl := r_tbl st; r_next := r_next st; r_env := env; r_trace := r_trace st; r_pan := r_pan st |}.
Definition emit (e : revent) (st : rst) : rst :=
  {| r_tbl := r_tbl st; r_next := r_next st; r_env := r_env st; r_trace := e :: r_trace st; r_pan := r_pan st |}.
Definition fresh (st : rst) : addr * rst :=
  (r_next st, {| r_tbl := r_tbl st; r_next := S (r_next st); r_env := r_env st; r_trace := r_trace st; r_pan := r_pan st |}).

(* the argument of DoWithContext *)
Definition pick (a : rarg) (st : rst) : addr * rst :=
  match a with
  | ACur => match tl_get 0 (r_tbl st) with Some c => (c, st) | None => fresh st end
  | ANew => fresh st
  | AOuter k => match nth_error (r_env st) k with Some c => (c, st) | None => fresh st end
  end.

(* statements are skipped while the goroutine panics *)
Fixpoint eval (p : rop) (st : rst) {struct p} : rst :=
  let run := fix run (ps : list rop) (st : rst) {struct ps} : rst :=
    match ps with
    | [] => st
    | q :: qs => if r_pan st then st else run qs (eval q st)
    end in
  match p with
  | RRoot =>                                                    (* internal/runtime.go:233-234 Init; Set *)
    let '(c, st1) := fresh st in
    match tl_set 0 c (tl_init 0 (r_tbl st1)) with
    | Some t => set_tbl t st1
    | None => set_pan true (emit (REPanic true) st1)
    end
  | RInit => set_tbl (tl_init 0 (r_tbl st)) st
  | RDelete => set_tbl (tl_delete 0 (r_tbl st)) st
  | RSetNew =>
    let '(c, st1) := fresh st in
    match tl_set 0 c (r_tbl st1) with
    | Some t => set_tbl t st1
    | None => set_pan true (emit (REPanic true) st1)
    end
  | RObs => emit (REObs (tl_find 0 (r_tbl st))) st
  | RPanic => set_pan true (emit (REPanic false) st)
  | RDwc a body =>                                              (* px/context.go:147 *)
    let '(c, st0) := pick a st in
    let '(t1, x, fine) := dwc_enter 0 c (r_tbl st0) in
    let st1 := if fine then set_env (r_env st0) (run body (set_env (c :: r_env st0) (set_tbl t1 st0)))
               else set_pan true (emit (REPanic true) (set_tbl t1 st0)) in
    (* the deferred function runs whether the body returned or panicked *)
    let '(s2, p2) := run_dact 0 x (rshared (r_tbl st1)) in
    let st2 := set_tbl (tls s2) st1 in
    if p2 then set_pan true (emit (REPanic true) st2) else st2
  | RTry body => set_pan false (run body st)
  end.

Fixpoint eval_list (ps : list rop) (st : rst) : rst :=
  match ps with
  | [] => st
  | q :: qs => if r_pan st then st else eval_list qs (eval q st)
  end.

(* a goroutine that starts with the table entry e (None: plain `go`; Some None: threadlocal.Go; Some (Some 0): the
   goroutine of px.Fork / the body of pcore.Do, context 0) *)
Definition rinit (e : option table) : rst :=
  {| r_tbl := [e]; r_next := 1; r_env := []; r_trace := []; r_pan := false |}.

(* what the harness records: the events and the entry at the end *)
Definition rrun (e : option table) (ps : list rop) : list revent * option table :=
  let st := eval_list ps (rinit e) in (rev (r_trace st), tl_find 0 (r_tbl st)).

Definition table_eqb (a b : option table) : bool := option_eqb (option_eqb Nat.eqb) a b.
Definition revent_eqb (a b : revent) : bool :=
  match a, b with
  | REObs x, REObs y => table_eqb x y
  | REPanic x, REPanic y => Bool.eqb x y
  | _, _ => false
  end.

(* a scope call (DoWithContext, or an entry point composed of it: pcore.Do / Try / DoWithParent / TryWithParent) or an
   observation *)
Definition is_scope (p : rop) : bool :=
  match p with
  | RDwc _ _ => true
  | RTry [RDwc _ _] => true
  | RObs => true
  | _ => false
  end.
