(* CollHeapA.v — read accessors that hand out GO SLICES, and the writes of the CALLER into what came back, over the
   slice-level model of Model/CollHeap.v / Model/CollHeapX.v (property C08).

     AAccess entries r dl dc dx ws
        dst := make([]T, dl, dc)              the caller's destination: dl cells filled with pool[dx], capacity
                                              max dc dl (dl = dc = 0 is also the nil destination)
        res := pool[r].AppendTo(dst)          entries = false:
                                                Array      types/arraytype.go:388  append(slice, av.elements...)
                                                Hash       types/hashtype.go:816   one append per entry
                                                HashEntry  types/hashtype.go:424   append(slice, he.key, he.value)
        res := pool[r].AppendEntriesTo(dst)   entries = true: Hash, types/hashtype.go:812  append(entries, hv.entries...)
        for (i, x) in ws: res[:cap(res)][i] = pool[x]   when i < cap(res): the caller WRITES into what it was given -
                                              into the elements and into the spare capacity behind them
        the pool gets types.WrapValues(res) / types.WrapHash(res): the slice itself (no copy)

   This is what the library does with the result of AppendTo: the creators of Enum (types/enumtype.go:78), Tuple and
   Callable (types/tupletype.go:74) take `ar.AppendTo(make([]px.Value, 0, ar.Len()+k))`, append the arguments that
   follow the list (writes into the cells len .. len+k-1), assign the last cell, and wrap the slice.
   `append` is Heap.happend: in place when the capacity of the destination allows, else a fresh array.  Nothing in this
   file says that the result is disjoint from the receiver's storage: that is the theorem (Proofs/CollHeapAProofs.v:
   access_fresh, astep_prefix).  The writes are made when the slice is handed out (the model does not keep a raw slice
   across later steps; the wrapped result stays in the pool like every other value).

   Definitions only. *)
From Coq Require Import ZArith NArith Bool List.
From PcoreV Require Import Model.Base Model.Heap Model.Coll Model.CollHeap Model.CollHeapX.
Import ListNotations.
Local Open Scope nat_scope.

Inductive aop :=
| ABase (o : xop)
| AAccess (entries : bool) (r dl dc dx : nat) (ws : list (nat * nat)).

(* res[:cap(res)][i] = v, a Go index assignment: legal (and performed) when i < cap(res) *)
Definition poke (h : hstore) (s : slice) (i : nat) (v : hval) : hstore :=
  if Nat.ltb i (s_cap s)
  then update_nth (s_addr s) (fun a => write_cells a (s_off s + i) [v]) h
  else h.

Definition pokes (pool : list hval) (h : hstore) (s : slice) (ws : list (nat * nat)) : hstore :=
  fold_left (fun h' w => poke h' s (fst w) (P pool (snd w))) ws h.

(* what the accessor appends, and whether it appends one element at a time *)
Definition access_elems (h : hstore) (recv : hval) (entries : bool) : option (bool * list hval) :=
  match recv, entries with
  | HArr s, false => Some (false, els h s)
  | HHash s, false => Some (true, els h s)
  | HEntry k v, false => Some (false, [k; v])
  | HHash s, true => Some (false, els h s)
  | _, _ => None
  end.

Definition access_run (g : nat -> nat -> nat) (h : hstore) (dst_items : list hval) (dc : nat)
           (loop : bool) (elems : list hval) : hstore * slice :=
  let '(h1, d) := halloc h dst_items dc in
  if loop then append_each g h1 d elems else happend g h1 d elems.

Definition is_entry (v : hval) : bool := match v with HEntry _ _ => true | _ => false end.

(* a []*HashEntry holds entries only: the harness never asks for anything else (badtype) *)
Definition access_typed (pool : list hval) (entries : bool) (dl dx : nat) (ws : list (nat * nat)) : bool :=
  negb entries ||
  (forallb (fun w => is_entry (P pool (snd w))) ws && (Nat.eqb dl 0 || is_entry (P pool dx))).

Definition astep (g : nat -> nat -> nat) (st : hstate) (o : aop) : hstate * out :=
  match o with
  | ABase x => xstep g st x
  | AAccess entries r dl dc dx ws =>
      let h := st_heap st in
      let pool := st_pool st in
      match (if access_typed pool entries dl dx ws then access_elems h (P pool r) entries else None) with
      | Some (loop, elems) =>
          let '(h2, res) := access_run g h (repeat (P pool dx) dl) dc loop elems in
          let h3 := pokes pool h2 res ws in
          let v := if entries then HHash res else HArr res in
          (mkState h3 (pool ++ [v]), RVal (observe obs_fuel h3 v))
      | None => (mkState h (pool ++ [HUndef]), RErr EBadType)
      end
  end.

Fixpoint arun (g : nat -> nat -> nat) (st : hstate) (ops : list aop) : hstate * list out :=
  match ops with
  | [] => (st, [])
  | o :: t => let '(st1, r) := astep g st o in
              let '(st2, rs) := arun g st1 t in (st2, r :: rs)
  end.

(* the defect class of the seeded change C08-m8, for the sensitivity example: an accessor that hands out the
   receiver's own slice when the destination is empty (`if len(slice) == 0 { return av.elements }`) *)
Definition aliasing_access (st : hstate) (r : nat) (ws : list (nat * nat)) : hstate :=
  match P (st_pool st) r with
  | HArr s => mkState (pokes (st_pool st) (st_heap st) s ws) (st_pool st ++ [HArr s])
  | _ => st
  end.
