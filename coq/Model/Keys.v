(* Keys.v — C07: executable model of `Equals` and of the hash keys (`px.ToKey`) of pcore values and
   of the types that are values.  Definitions only; the lemmas are in Proofs/KeysProofs*.v.

   The model follows the code as it is after the `fix:` commits listed in known_findings/C07.json
   (types/types.go:21-40 key bytes, :559-632 appendKeyBytes/stringKey/appendKey/appendSortedKeys).

   Universe.  Values: undef, default, Boolean, Integer, Float (by IEEE-754 bits), String, Regexp,
   Binary, Timespan, Timestamp, Array, Hash, HashEntry, Sensitive, Type.  Types: the parameterless
   types Any Unit Undef Default Numeric Scalar ScalarData Binary String, and Boolean, Integer, Float,
   String[size], String[value], Enum, Pattern, Regexp, Collection, Array, Hash, Tuple, Variant,
   Optional, NotUndef, Type, Sensitive, Iterable.
   Outside the model (direct check on the implementation only): Struct (its parameters depend on the
   assignability of Undef to the member types), Callable, Iterator, Runtime, Init, Like,
   TypeReference, TypeAlias, Object, TypeSet, Timespan/Timestamp/SemVer/SemVerRange/URI types, and
   the values URI, SemVer, SemVerRange, Object, MutableHash, Iterator, Runtime. *)
From Coq Require Import ZArith NArith Bool String Ascii List.
From PcoreV Require Import Model.Base.
Import ListNotations.
Open Scope Z_scope.

(* ------------------------------------------------------------------------------------------ *)
(* bytes *)

Definition bytes_of (s : string) : list N := map N_of_ascii (list_ascii_of_string s).

(* k little-endian base-256 digits of n *)
Fixpoint digits (k : nat) (n : N) : list N :=
  match k with
  | O => []
  | S k' => (n mod 256)%N :: digits k' (n / 256)%N
  end.

(* the eight bytes byte(n>>56) ... byte(n) that every fixed-size key payload is written with *)
Definition be64 (n : N) : list N := rev (digits 8 n).

Definition two64 : Z := 18446744073709551616.
(* the bit pattern of an int64 *)
Definition u64 (z : Z) : N := Z.to_N (z mod two64).

(* types/types.go:562 appendKeyBytes: the bytes preceded by their count (eight bytes, big endian) *)
Definition lp (s : str) : list N := be64 (N.of_nat (length s)) ++ s.

(* float64 by its bits.  x != x *)
Definition f_is_nan (b : N) : bool :=
  ((N.land b 0x7ff0000000000000 =? 0x7ff0000000000000) && negb (N.land b 0x000fffffffffffff =? 0))%N.
(* x == 0 : +0.0 or -0.0 *)
Definition f_is_zero (b : N) : bool := ((b =? 0) || (b =? 0x8000000000000000))%N.
Definition fnorm (b : N) : N := if f_is_zero b then 0%N else b.
(* Go `==` on float64: false when an operand is NaN; 0.0 == -0.0; otherwise equality of the bits *)
Definition feq (a b : N) : bool := (negb (f_is_nan a) && negb (f_is_nan b) && (fnorm a =? fnorm b))%N.

(* the bounds of the unbounded Float type (floattype.go:26): -Inf and +Inf *)
Definition neg_max_float : N := 0xfff0000000000000%N. (* math.Float64bits(math.Inf(-1)) *)
Definition max_float : N := 0x7ff0000000000000%N.     (* math.Float64bits(math.Inf(1)) *)

(* ------------------------------------------------------------------------------------------ *)
(* sort.Strings followed by the removal of adjacent duplicates (types.go:604 appendSortedKeys);
   Hash.ToKey (hashtype.go:1212) sorts without removing.  sort.Strings is modelled by insertion
   sort: the sorted permutation of a list of strings is unique. *)

Fixpoint ins (x : str) (l : list str) : list str :=
  match l with
  | [] => [x]
  | y :: l' => if str_ltb x y then x :: l else y :: ins x l'
  end.
Definition sort_strs (l : list str) : list str := fold_right ins [] l.

Fixpoint dedup (l : list str) : list str :=
  match l with
  | [] => []
  | x :: l' => match l' with
               | [] => [x]
               | y :: _ => if str_eqb x y then dedup l' else x :: dedup l'
               end
  end.
Definition sort_dedup (l : list str) : list str := dedup (sort_strs l).

(* ------------------------------------------------------------------------------------------ *)
(* key constructors: types/types.go:21-40 *)

Definition k_undef : list N := [1; 117]%N.                                   (* undeftype.go:113 *)
Definition k_default : list N := [1; 100]%N.                                 (* defaulttype.go:85 *)
Definition k_bool (b : bool) : list N := [1; 98; if b then 1 else 0]%N.      (* booleantype.go:299 *)
Definition k_int (z : Z) : list N := (1 :: 105 :: be64 (u64 z))%N.           (* integertype.go:413 *)
Definition k_float (b : N) : list N := (1 :: 102 :: be64 (fnorm b))%N.       (* floattype.go:275 *)
Definition k_str (s : str) : list N := (1 :: 115 :: lp s)%N.                 (* types.go:569 stringKey *)
Definition k_regexp (s : str) : list N := (1 :: 114 :: lp s)%N.              (* regexptype.go:262 *)
Definition k_binary (s : str) : list N := (0 :: 66 :: lp s)%N.               (* binarytype.go:258 *)
(* timespantype.go:441 Timespan.Int() = whole seconds (nanoseconds / 1e9, truncated): both ToKey and
   Equals use it, so Timespans that differ by less than a second are equal and have one key *)
Definition tspan_secs (z : Z) : Z := Z.quot z 1000000000.
Definition k_timespan (z : Z) : list N := (1 :: 68 :: be64 (u64 (tspan_secs z)))%N. (* timespantype.go:490 *)
Definition k_timestamp (s ns : Z) : list N := (1 :: 84 :: be64 (u64 s) ++ be64 (u64 ns))%N. (* timestamptype.go:403 *)
(* a sequence of keys, terminated by HkEnd: Array 'A' = 65 (arraytype.go:606), HashEntry writes the
   key of [key, value] (hashtype.go:577), Hash 'H' = 72 (hashtype.go:1212) *)
Definition k_seq (c : N) (ks : list (list N)) : list N := (0 :: c :: concat ks ++ [4])%N.
(* a type: name, parameter keys, HkEnd (types.go:580-595; stringtype.go:262 for String[value]) *)
Definition k_type (name : list N) (ps : list (list N)) : list N := (1 :: 116 :: name ++ concat ps ++ [4])%N.

(* ------------------------------------------------------------------------------------------ *)
(* types *)

Inductive nullary := NAny | NUnit | NUndef | NDefault | NNumeric | NScalar | NScalarData | NBinary | NString.
Inductive unary := UOptional | UNotUndef | UType | USensitive | UIterable.

(* The constructor arguments are the fields of the Go struct that the type constructors build:
   sizes are the (min, max) of the *IntegerType; TTuple carries the given-or-actual size;
   TRegexp [] is the default Regexp type; TUn u TAny is the default Optional/NotUndef/... type. *)
Inductive ty :=
 | TNullary (n : nullary)
 | TBoolean (v : option bool)
 | TInteger (lo hi : Z)
 | TFloat (lo hi : N)
 | TStringSz (lo hi : Z)
 | TStringVal (s : str)
 | TEnum (ci : bool) (vs : list str)
 | TPattern (rxs : list str)
 | TRegexp (s : str)
 | TCollection (lo hi : Z)
 | TArray (e : ty) (lo hi : Z)
 | THash (k v : ty) (lo hi : Z)
 | TTuple (ts : list ty) (lo hi : Z)
 | TVariant (ts : list ty)
 | TUn (u : unary) (t : ty).

Definition TAny := TNullary NAny.
Definition TUnit := TNullary NUnit.
Definition TString := TNullary NString.
Definition TOptional := TUn UOptional.
Definition TNotUndef := TUn UNotUndef.
Definition TType := TUn UType.
Definition TSensitive := TUn USensitive.
Definition TIterable := TUn UIterable.

Definition nm_Any := Eval vm_compute in bytes_of "Any".
Definition nm_Unit := Eval vm_compute in bytes_of "Unit".
Definition nm_Undef := Eval vm_compute in bytes_of "Undef".
Definition nm_Default := Eval vm_compute in bytes_of "Default".
Definition nm_Numeric := Eval vm_compute in bytes_of "Numeric".
Definition nm_Scalar := Eval vm_compute in bytes_of "Scalar".
Definition nm_ScalarData := Eval vm_compute in bytes_of "ScalarData".
Definition nm_Binary := Eval vm_compute in bytes_of "Binary".
Definition nm_String := Eval vm_compute in bytes_of "String".
Definition nm_Boolean := Eval vm_compute in bytes_of "Boolean".
Definition nm_Integer := Eval vm_compute in bytes_of "Integer".
Definition nm_Float := Eval vm_compute in bytes_of "Float".
Definition nm_Enum := Eval vm_compute in bytes_of "Enum".
Definition nm_Pattern := Eval vm_compute in bytes_of "Pattern".
Definition nm_Regexp := Eval vm_compute in bytes_of "Regexp".
Definition nm_Collection := Eval vm_compute in bytes_of "Collection".
Definition nm_Array := Eval vm_compute in bytes_of "Array".
Definition nm_Hash := Eval vm_compute in bytes_of "Hash".
Definition nm_Tuple := Eval vm_compute in bytes_of "Tuple".
Definition nm_Variant := Eval vm_compute in bytes_of "Variant".
Definition nm_Optional := Eval vm_compute in bytes_of "Optional".
Definition nm_NotUndef := Eval vm_compute in bytes_of "NotUndef".
Definition nm_Type := Eval vm_compute in bytes_of "Type".
Definition nm_Sensitive := Eval vm_compute in bytes_of "Sensitive".
Definition nm_Iterable := Eval vm_compute in bytes_of "Iterable".

(* Name() of every type *)
Definition tname (t : ty) : list N :=
  match t with
  | TNullary NAny => nm_Any | TNullary NUnit => nm_Unit | TNullary NUndef => nm_Undef
  | TNullary NDefault => nm_Default | TNullary NNumeric => nm_Numeric | TNullary NScalar => nm_Scalar
  | TNullary NScalarData => nm_ScalarData | TNullary NBinary => nm_Binary | TNullary NString => nm_String
  | TBoolean _ => nm_Boolean | TInteger _ _ => nm_Integer | TFloat _ _ => nm_Float
  | TStringSz _ _ => nm_String | TStringVal _ => nm_String
  | TEnum _ _ => nm_Enum | TPattern _ => nm_Pattern | TRegexp _ => nm_Regexp
  | TCollection _ _ => nm_Collection | TArray _ _ _ => nm_Array | THash _ _ _ _ => nm_Hash
  | TTuple _ _ _ => nm_Tuple | TVariant _ => nm_Variant
  | TUn UOptional _ => nm_Optional | TUn UNotUndef _ => nm_NotUndef | TUn UType _ => nm_Type
  | TUn USensitive _ => nm_Sensitive | TUn UIterable _ => nm_Iterable
  end.

Definition is_any (t : ty) : bool := match t with TNullary NAny => true | _ => false end.
Definition is_unit (t : ty) : bool := match t with TNullary NUnit => true | _ => false end.

(* integertype.go:276 IntegerType.Parameters *)
Definition int_params (lo hi : Z) : list (list N) :=
  if lo =? min_int64 then (if hi =? max_int64 then [] else [k_default; k_int hi])
  else if hi =? max_int64 then [k_int lo] else [k_int lo; k_int hi].
(* integertype.go:293 IntegerType.SizeParameters *)
Definition size_params (lo hi : Z) : list (list N) :=
  [k_int lo; if hi =? max_int64 then k_default else k_int hi].
(* `*size == *IntegerTypePositive`, `*size == *IntegerTypeZero` *)
Definition sz_positive (lo hi : Z) : bool := (lo =? 0) && (hi =? max_int64).
Definition sz_zero (lo hi : Z) : bool := (lo =? 0) && (hi =? 0).
(* floattype.go:176 FloatType.Parameters *)
Definition float_params (lo hi : N) : list (list N) :=
  if (lo =? neg_max_float)%N then (if (hi =? max_float)%N then [] else [k_default; k_float hi])
  else if (hi =? max_float)%N then [k_float lo] else [k_float lo; k_float hi].

(* The keys of Parameters(), one list element per parameter (types.go:584-594):
   Enum, Pattern, Variant sorted and without duplicates, all others in order. *)
Fixpoint tparams (t : ty) : list (list N) :=
  match t with
  | TNullary _ => []
  | TBoolean None => []                                            (* booleantype.go:160 *)
  | TBoolean (Some b) => [k_bool b]
  | TInteger lo hi => int_params lo hi
  | TFloat lo hi => float_params lo hi
  | TStringSz lo hi => int_params lo hi                            (* stringtype.go:256 *)
  | TStringVal s => [k_str s]                                      (* stringtype.go:262 *)
  | TEnum ci vs => sort_dedup (map k_str vs ++ (if ci then [k_bool true] else []))  (* enumtype.go:202 *)
  | TPattern rxs => sort_dedup (map k_regexp rxs)                  (* patterntype.go:155 *)
  | TRegexp s => match s with [] => [] | _ => [k_regexp s] end     (* regexptype.go:136 *)
  | TCollection lo hi => if sz_positive lo hi then [] else size_params lo hi  (* collectiontype.go:141 *)
  | TArray e lo hi =>                                              (* arraytype.go:248 *)
      if is_unit e && sz_zero lo hi then size_params lo hi
      else (if negb (is_any e) || sz_zero lo hi then [k_type (tname e) (tparams e)] else [])
           ++ (if sz_positive lo hi then [] else size_params lo hi)
  | THash k v lo hi =>                                             (* hashtype.go:319 *)
      if is_any k && is_any v && sz_positive lo hi then []
      else if is_unit k && is_unit v && sz_zero lo hi then [k_int 0; k_int 0]
      else [k_type (tname k) (tparams k); k_type (tname v) (tparams v)]
           ++ (if sz_positive lo hi then [] else size_params lo hi)
  | TTuple ts lo hi =>                                             (* tupletype.go:370 *)
      map (fun x => k_type (tname x) (tparams x)) ts
      ++ (let top := Z.of_nat (length ts) in
          if ((top =? 0) && sz_positive lo hi) || ((0 <? top) && (lo =? top) && (hi =? top)) then []
          else size_params lo hi)
  | TVariant ts => sort_dedup (map (fun x => k_type (tname x) (tparams x)) ts)  (* varianttype.go:118 *)
  | TUn u x =>                                                     (* optionaltype.go:111 notundeftype.go:111 typetype.go:124 ... *)
      if is_any x then []
      else match u, x with
           | UOptional, TStringVal ((_ :: _) as s) => [k_str s]
           | UNotUndef, TStringVal ((_ :: _) as s) => [k_str s]
           | _, _ => [k_type (tname x) (tparams x)]
           end
  end.

(* appendKey of a type *)
Definition tkey (t : ty) : list N := k_type (tname t) (tparams t).

Definition nullary_eqb (a b : nullary) : bool :=
  match a, b with
  | NAny, NAny | NUnit, NUnit | NUndef, NUndef | NDefault, NDefault | NNumeric, NNumeric
  | NScalar, NScalar | NScalarData, NScalarData | NBinary, NBinary | NString, NString => true
  | _, _ => false
  end.
Definition unary_eqb (a b : unary) : bool :=
  match a, b with
  | UOptional, UOptional | UNotUndef, UNotUndef | UType, UType | USensitive, USensitive | UIterable, UIterable => true
  | _, _ => false
  end.

(* utils/strings.go:34 ContainsAllStrings(strings, other) *)
Definition contains_all (strings other : list str) : bool :=
  forallb (fun s => existsb (fun v => str_eqb v s) strings) other.
(* px/equality.go:69 IncludesAll(a, b) on strings (RegexpType.Equals compares the pattern text) *)
Definition includes_all_str (a b : list str) : bool :=
  forallb (fun v => existsb (fun ov => str_eqb ov v) b) a.

(* ty_eqb a b = a.Equals(b);  ty_eqb_flip a b = b.Equals(a).  Two functions because
   VariantType.Equals (varianttype.go:78) calls Equals with a member of the *other* operand as the
   receiver (px.IncludesAll: Equals(ov, v)), and the recursion is structural in the first argument. *)
Fixpoint ty_eqb (a b : ty) {struct a} : bool :=
  match a with
  | TNullary n => match b with TNullary m => nullary_eqb n m | _ => false end
  | TBoolean v => match b with TBoolean w => option_eqb Bool.eqb v w | _ => false end
  | TInteger lo hi => match b with TInteger lo' hi' => (lo =? lo') && (hi =? hi') | _ => false end
  | TFloat lo hi => match b with TFloat lo' hi' => feq lo lo' && feq hi hi' | _ => false end
  | TStringSz lo hi => match b with TStringSz lo' hi' => (lo =? lo') && (hi =? hi') | _ => false end
  | TStringVal s => match b with TStringVal s' => str_eqb s s' | _ => false end
  | TEnum ci vs => match b with
                   | TEnum ci' vs' => Bool.eqb ci ci' && contains_all vs vs' && contains_all vs' vs
                   | _ => false end
  | TPattern rxs => match b with
                    | TPattern rxs' => includes_all_str rxs rxs' && includes_all_str rxs' rxs
                    | _ => false end
  | TRegexp s => match b with TRegexp s' => str_eqb s s' | _ => false end
  | TCollection lo hi => match b with TCollection lo' hi' => (lo =? lo') && (hi =? hi') | _ => false end
  | TArray e lo hi => match b with
                      | TArray e' lo' hi' => (lo =? lo') && (hi =? hi') && ty_eqb e e'
                      | _ => false end
  | THash k v lo hi => match b with
                       | THash k' v' lo' hi' => (lo =? lo') && (hi =? hi') && ty_eqb k k' && ty_eqb v v'
                       | _ => false end
  | TTuple ts lo hi =>
      match b with
      | TTuple ts' lo' hi' =>
          Nat.eqb (length ts) (length ts') && ((lo =? lo') && (hi =? hi')) &&
          (fix go (xs ys : list ty) : bool :=
             match xs, ys with
             | [], _ => true
             | x :: xs', y :: ys' => ty_eqb x y && go xs' ys'
             | _ :: _, [] => false
             end) ts ts'
      | _ => false end
  | TVariant ts =>
      match b with
      | TVariant ts' =>
          forallb (fun v => existsb (fun ov => ty_eqb_flip v ov) ts') ts      (* IncludesAll(t.types, ot.types) *)
          && forallb (fun v => existsb (fun ov => ty_eqb ov v) ts) ts'        (* IncludesAll(ot.types, t.types) *)
      | _ => false end
  | TUn u x => match b with TUn u' x' => unary_eqb u u' && ty_eqb x x' | _ => false end
  end
with ty_eqb_flip (a b : ty) {struct a} : bool :=
  match a with
  | TNullary n => match b with TNullary m => nullary_eqb m n | _ => false end
  | TBoolean v => match b with TBoolean w => option_eqb Bool.eqb w v | _ => false end
  | TInteger lo hi => match b with TInteger lo' hi' => (lo' =? lo) && (hi' =? hi) | _ => false end
  | TFloat lo hi => match b with TFloat lo' hi' => feq lo' lo && feq hi' hi | _ => false end
  | TStringSz lo hi => match b with TStringSz lo' hi' => (lo' =? lo) && (hi' =? hi) | _ => false end
  | TStringVal s => match b with TStringVal s' => str_eqb s' s | _ => false end
  | TEnum ci vs => match b with
                   | TEnum ci' vs' => Bool.eqb ci' ci && contains_all vs' vs && contains_all vs vs'
                   | _ => false end
  | TPattern rxs => match b with
                    | TPattern rxs' => includes_all_str rxs' rxs && includes_all_str rxs rxs'
                    | _ => false end
  | TRegexp s => match b with TRegexp s' => str_eqb s' s | _ => false end
  | TCollection lo hi => match b with TCollection lo' hi' => (lo' =? lo) && (hi' =? hi) | _ => false end
  | TArray e lo hi => match b with
                      | TArray e' lo' hi' => (lo' =? lo) && (hi' =? hi) && ty_eqb_flip e e'
                      | _ => false end
  | THash k v lo hi => match b with
                       | THash k' v' lo' hi' => (lo' =? lo) && (hi' =? hi) && ty_eqb_flip k k' && ty_eqb_flip v v'
                       | _ => false end
  | TTuple ts lo hi =>
      match b with
      | TTuple ts' lo' hi' =>
          Nat.eqb (length ts') (length ts) && ((lo' =? lo) && (hi' =? hi)) &&
          (fix go (xs ys : list ty) : bool :=
             match xs, ys with
             | [], _ => true
             | x :: xs', y :: ys' => ty_eqb_flip x y && go xs' ys'
             | _ :: _, [] => false
             end) ts ts'
      | _ => false end
  | TVariant ts =>
      match b with
      | TVariant ts' =>
          forallb (fun v => existsb (fun ov => ty_eqb ov v) ts) ts'           (* IncludesAll(b.types, a.types) *)
          && forallb (fun v => existsb (fun ov => ty_eqb_flip v ov) ts') ts   (* IncludesAll(a.types, b.types) *)
      | _ => false end
  | TUn u x => match b with TUn u' x' => unary_eqb u' u && ty_eqb_flip x x' | _ => false end
  end.

(* ------------------------------------------------------------------------------------------ *)
(* values *)

Inductive value :=
 | VUndef | VDefault
 | VBool (b : bool) | VInt (z : Z) | VFloat (bits : N) | VStr (s : str) | VRegexp (s : str) | VBinary (s : str)
 | VTimespan (z : Z) | VTimestamp (s ns : Z)
 | VArr (vs : list value) | VHash (es : list (value * value)) | VEntry (k v : value)
 | VSensitive (v : value) | VType (t : ty).

(* The bytes that appendKey writes.  A Sensitive has no key (appendKey panics with InvalidHashKey,
   types.go:599): see `keyable`/`to_key`; `vkey` is [] there. *)
Fixpoint vkey (x : value) : list N :=
  match x with
  | VUndef => k_undef
  | VDefault => k_default
  | VBool b => k_bool b
  | VInt z => k_int z
  | VFloat b => k_float b
  | VStr s => k_str s
  | VRegexp s => k_regexp s
  | VBinary s => k_binary s
  | VTimespan z => k_timespan z
  | VTimestamp s ns => k_timestamp s ns
  | VArr vs => k_seq 65 (map vkey vs)
  | VEntry k v => k_seq 65 [vkey k; vkey v]
  | VHash es => k_seq 72 (sort_strs (map (fun e => match e with (k, v) => k_seq 65 [vkey k; vkey v] end) es))
  | VSensitive _ => []
  | VType t => tkey t
  end.

Fixpoint keyable (x : value) : bool :=
  match x with
  | VSensitive _ => false
  | VArr vs => forallb keyable vs
  | VEntry k v => keyable k && keyable v
  | VHash es => forallb (fun e => match e with (k, v) => keyable k && keyable v end) es
  | _ => true
  end.

(* px.ToKey: None = the panic InvalidHashKey *)
Definition to_key (x : value) : option (list N) := if keyable x then Some (vkey x) else None.

(* hashtype.go:1419 valueIndex + :1101 get: the position of a key in the index is that of the last
   entry with that key *)
Fixpoint find_last (key : list N) (es : list (value * value)) : option (value * value) :=
  match es with
  | [] => None
  | e :: es' => match find_last key es' with
                | Some r => Some r
                | None => if str_eqb (vkey (fst e)) key then Some e else None
                end
  end.

(* veq x y = x.Equals(y, nil) *)
Fixpoint veq (x y : value) {struct x} : bool :=
  match x with
  | VUndef => match y with VUndef => true | _ => false end
  | VDefault => match y with VDefault => true | _ => false end
  | VBool b => match y with VBool c => Bool.eqb b c | _ => false end
  | VInt z => match y with VInt w => z =? w | _ => false end
  | VFloat b => match y with VFloat c => feq b c | _ => false end
  | VStr s => match y with VStr s' => str_eqb s s' | _ => false end
  | VRegexp s => match y with VRegexp s' => str_eqb s s' | _ => false end
  | VBinary s => match y with VBinary s' => str_eqb s s' | _ => false end
  | VTimespan z => match y with VTimespan w => tspan_secs z =? tspan_secs w | _ => false end  (* timespantype.go:424 *)
  | VTimestamp s ns => match y with VTimestamp s' ns' => (s =? s') && (ns =? ns') | _ => false end
  | VArr vs =>                                                     (* arraytype.go:455 *)
      match y with
      | VArr ws =>
          Nat.eqb (length vs) (length ws) &&
          (fix go (a b : list value) : bool :=
             match a, b with
             | [], _ => true
             | p :: a', q :: b' => veq p q && go a' b'
             | _ :: _, [] => false
             end) vs ws
      | VEntry k v => match vs with [p; q] => veq p k && veq q v | _ => false end
      | _ => false
      end
  | VEntry k v =>                                                  (* hashtype.go:462 *)
      match y with
      | VEntry k' v' => veq k k' && veq v v'
      | VArr [p; q] => veq k p && veq v q
      | _ => false
      end
  | VHash es =>                                                    (* hashtype.go:1041 *)
      match y with
      | VHash fs =>
          Nat.eqb (length es) (length fs) &&
          (fix go (a : list (value * value)) : bool :=
             match a with
             | [] => true
             | (k, v) :: a' =>
                 (* the index of the receiver holds the last entry of every key *)
                 (if existsb (fun e => str_eqb (vkey (fst e)) (vkey k)) a' then true
                  else match find_last (vkey k) fs with
                       | Some (k', v') => veq k k' && veq v v'
                       | None => false
                       end) && go a'
             end) es
      | _ => false
      end
  | VSensitive _ => false                                          (* sensitivetype.go:159 *)
  | VType t => match y with VType t' => ty_eqb t t' | _ => false end
  end.

(* ------------------------------------------------------------------------------------------ *)
(* representation invariants and the exceptions named by the property *)

Definition lenok (s : str) : bool := (N.of_nat (length s) <? 0x10000000000000000)%N.
Definition bits64 (b : N) : bool := (b <? 0x10000000000000000)%N.

(* What the Go representation guarantees: int64 fields, float64 bits, string lengths; a String[size]
   type is neither String[0, max] nor String[min, max] (NewStringType returns String). *)
Fixpoint wf_ty (t : ty) : bool :=
  match t with
  | TNullary _ | TBoolean _ => true
  | TInteger lo hi => in_int64 lo && in_int64 hi
  | TFloat lo hi => bits64 lo && bits64 hi
  | TStringSz lo hi => in_int64 lo && in_int64 hi && negb ((hi =? max_int64) && ((lo =? 0) || (lo =? min_int64)))
  | TStringVal s => lenok s
  | TEnum _ vs => forallb lenok vs
  | TPattern rxs => forallb lenok rxs
  | TRegexp s => lenok s
  | TCollection lo hi => in_int64 lo && in_int64 hi
  | TArray e lo hi => in_int64 lo && in_int64 hi && wf_ty e
  | THash k v lo hi => in_int64 lo && in_int64 hi && wf_ty k && wf_ty v
  | TTuple ts lo hi => in_int64 lo && in_int64 hi && forallb wf_ty ts
  | TVariant ts => forallb wf_ty ts
  | TUn _ x => wf_ty x
  end.

(* no NaN bound in a Float type (FloatType.Equals compares with ==) *)
Fixpoint clean_ty (t : ty) : bool :=
  match t with
  | TFloat lo hi => negb (f_is_nan lo) && negb (f_is_nan hi)
  | TArray e _ _ => clean_ty e
  | THash k v _ _ => clean_ty k && clean_ty v
  | TTuple ts _ _ => forallb clean_ty ts
  | TVariant ts => forallb clean_ty ts
  | TUn _ x => clean_ty x
  | _ => true
  end.

Fixpoint nodupb (l : list str) : bool :=
  match l with
  | [] => true
  | x :: l' => negb (existsb (str_eqb x) l') && nodupb l'
  end.

(* int64 / float64 / string fields in range; the keys of a Hash have hash keys (the index can be
   built) and are pairwise different (the invariant of Hash: an entry per key) *)
Fixpoint wf_value (x : value) : bool :=
  match x with
  | VUndef | VDefault | VBool _ => true
  | VInt z => in_int64 z
  | VFloat b => bits64 b
  | VStr s | VRegexp s | VBinary s => lenok s
  | VTimespan z => in_int64 z
  | VTimestamp s ns => in_int64 s && (0 <=? ns) && (ns <? 1000000000)
  | VArr vs => forallb wf_value vs
  | VEntry k v => wf_value k && wf_value v
  | VHash es =>
      forallb (fun e => match e with (k, v) => wf_value k && wf_value v && keyable k end) es
      && nodupb (map (fun e => vkey (fst e)) es)
  | VSensitive v => wf_value v
  | VType t => wf_ty t
  end.

(* the property's exceptions: no NaN (Float value, Float type bound) and no Sensitive anywhere *)
Fixpoint clean (x : value) : bool :=
  match x with
  | VFloat b => negb (f_is_nan b)
  | VSensitive _ => false
  | VArr vs => forallb clean vs
  | VEntry k v => clean k && clean v
  | VHash es => forallb (fun e => match e with (k, v) => clean k && clean v end) es
  | VType t => clean_ty t
  | _ => true
  end.

(* ------------------------------------------------------------------------------------------ *)
(* Hash lookup and Unique *)

(* hashtype.go:1061 Hash.Get *)
Definition hash_get (es : list (value * value)) (q : value) : option value :=
  match find_last (vkey q) es with
  | Some (_, v) => Some v
  | None => None
  end.
(* hashtype.go:1122 Hash.IncludesKey *)
Definition hash_includes_key (es : list (value * value)) (q : value) : bool :=
  match find_last (vkey q) es with Some _ => true | None => false end.

(* types.go:172 UniqueValues, :141 UniqueTypes, arraytype.go:718 Array.Unique: keep the first value of
   every key; `seen` is the map `exists` *)
Fixpoint uniq (seen : list (list N)) (vs : list value) : list value :=
  match vs with
  | [] => []
  | v :: vs' => if existsb (str_eqb (vkey v)) seen then uniq seen vs' else v :: uniq (vkey v :: seen) vs'
  end.
Definition unique (vs : list value) : list value := uniq [] vs.

(* ------------------------------------------------------------------------------------------ *)
(* Open finding object-type-key-by-identity (known_findings/C07.json): Object types are outside the
   universe above; this is the fragment of types/objecttype.go that the finding is about.
   objecttype.go:151  hashKey = "\x00tObject" + decimal text of a counter incremented per created type;
   objecttype.go:239  Equals compares name, parent, attributes, ... structurally (here: name and the
   attribute names and types). *)
Record objty := { ot_counter : str; ot_name : str; ot_attrs : list (str * ty) }.
Definition objty_key (t : objty) : list N := (0 :: 116 :: bytes_of "Object" ++ ot_counter t)%N.
Definition objty_eqb (a b : objty) : bool :=
  str_eqb (ot_name a) (ot_name b)
  && list_eqb (fun x y => str_eqb (fst x) (fst y) && ty_eqb (snd x) (snd y)) (ot_attrs a) (ot_attrs b).
