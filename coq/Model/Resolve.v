(* Resolve.v — model of two pieces of the resolve stage of Context.ParseType (internal/context.go:157: Parse, then
   DeferredType.Resolve, types/deferredtype.go:55, which walks the parameters with resolveValue and hands them to
   the positional creator of the named type, types/resolver.go:18), as the code is after the fixes 0047197 and
   cb8ce83:

     - the positional creator of Enum, newEnumType3 + NewEnumType (types/enumtype.go:38-105): it sizes a Go slice
       from the argument count, rewrites the argument list (the array form followed by more arguments is
       flattened), and then writes the slice by argument index and truncates it at the flag;
     - the name test of deferred.Resolve (types/deferred.go:113-131): variable ('$' + name, looked up in the scope)
       or function call.

   Definitions only.  One Gallina function per Go function, same order of tests, Go file:line in the comments.
   Every implicit fault site is an explicit branch: enums[idx] = .. with idx >= len(enums) and enums[:idx] with
   idx > cap(enums) (EFault); fn[0] / fn[1:] on a name that is too short (DFault).

   Argument values are the parser's values `pv` (Model/Parser.v).  resolveValue (deferredtype.go:80-96) maps a value
   that contains no parameterized *DeferredType, no *deferred and no *HashEntry to an equal value, except that a
   bare type name becomes the type it names (Resolve, resolver.go:10: a core type, a loaded type or a type reference,
   never an error), which `PType name None` stands for here as well; Array.Map / Hash.MapEntries rebuild the
   containers element by element.  On `plain` values the creator receives what the parser built.
   Oracle (argument): lower = strings.ToLower. *)
From Coq Require Import ZArith NArith Bool List.
From PcoreV Require Import Model.Base Model.Parser.
Import ListNotations.
Open Scope Z_scope.

(* ---- values on which resolveValue is the identity --------------------------------------------------- *)

Fixpoint plain (v : pv) : bool :=
  let fix all_plain (l : list pv) : bool :=
    match l with [] => true | x :: t => plain x && all_plain t end in
  let fix all_plain_e (l : list (pv * pv)) : bool :=
    match l with [] => true | (k, x) :: t => plain k && plain x && all_plain_e t end in
  match v with
  | PUndef | PDefault | PBool _ | PInt _ | PFloat _ | PStr _ | PRegexp _ | PType _ None => true
  | PArr l => all_plain l
  | PHash es => all_plain_e es
  | PNil | PType _ (Some _) | PCall _ _ | PEntry _ _ | PNamed _ _ => false
  end.

Definition all_plain (l : list pv) : bool := forallb plain l.

(* ---- Enum --------------------------------------------------------------------------------------------- *)

(* what the creator does: an Enum type with these values and this flag | panic(illegalArgumentType(`Enum[]`, idx, ..))
   | a Go runtime fault | the depth fuel of the model ran out *)
Inductive eres :=
  | EOk (values : list str) (ci : bool)
  | EErr (idx : Z)
  | EFault
  | EOutOfFuel.

(* NewEnumType, enumtype.go:38-50 *)
Definition new_enum_type (lower : str -> str) (enums : list str) (ci : bool) : eres :=
  if ci then
    if (0 <? Z.of_nat (length enums)) then EOk (map lower enums) ci       (* :41-46 *)
    else EOk enums ci
  else EOk enums ci.

(* a Go slice of strings: the elements up to len, and the capacity *)
Record sslice := mkSlice { sl_elems : list str; sl_cap : nat }.

(* make([]string, top), enumtype.go:89 *)
Definition make_strings (top : nat) : sslice := mkSlice (repeat [] top) top.

(* enums[idx] = s, enumtype.go:101: index out of range unless 0 <= idx < len(enums) *)
Fixpoint set_nth (l : list str) (i : nat) (s : str) : list str :=
  match l, i with
  | [], _ => []
  | _ :: t, O => s :: t
  | h :: t, S j => h :: set_nth t j s
  end.
Definition slice_set (sl : sslice) (idx : Z) (s : str) : option sslice :=
  if (0 <=? idx) && (idx <? Z.of_nat (length (sl_elems sl)))
  then Some (mkSlice (set_nth (sl_elems sl) (Z.to_nat idx) s) (sl_cap sl)) else None.

(* enums[:idx], enumtype.go:96: slice bounds out of range unless 0 <= idx <= cap(enums); up to the capacity the
   slice may grow again (the elements beyond len are the zero value here: nothing was ever written beyond len) *)
Definition slice_to (sl : sslice) (idx : Z) : option sslice :=
  if (0 <=? idx) && (idx <=? Z.of_nat (sl_cap sl))
  then Some (mkSlice (firstn (Z.to_nat idx) (sl_elems sl ++ repeat [] (sl_cap sl - length (sl_elems sl)))) (sl_cap sl))
  else None.

(* the body of args.EachWithIndex, enumtype.go:90-102, over the remaining arguments *)
Fixpoint enum_loop (top : Z) (args : list pv) (idx : Z) (enums : sslice) (ci : bool) : eres + (sslice * bool) :=
  match args with
  | [] => inr (enums, ci)
  | arg :: rest =>
    match arg with
    | PStr s =>                                                     (* :91 *)
      match slice_set enums idx s with                              (* :101 *)
      | Some enums' => enum_loop top rest (idx + 1) enums' ci
      | None => inl EFault
      end
    | PBool b =>
      if idx =? top - 1 then                                        (* :93 *)
        match slice_to enums idx with                               (* :96 *)
        | Some enums' => enum_loop top rest (idx + 1) enums' b      (* :94, :97 return from the closure *)
        | None => inl EFault
        end
      else inl (EErr idx)                                           (* :99 *)
    | _ => inl (EErr idx)                                           (* :99 *)
    end
  end.

(* newEnumType3, enumtype.go:56-105; depth: fuel for the recursion of :69 into the single array argument *)
Fixpoint new_enum_type3 (lower : str -> str) (depth : nat) (args : list pv) : eres :=
  match depth with
  | O => EOutOfFuel
  | S depth' =>
    match args with
    | [] => EOk [] false                                            (* :57-59 DefaultEnumType() *)
    | [first] =>                                                    (* :64 top == 1 *)
      match first with
      | PStr s => new_enum_type lower [s] false                     (* :67, :104 *)
      | PArr l => new_enum_type3 lower depth' l                     (* :69 *)
      | PBool b => new_enum_type lower [] b                         (* :72 *)
      | _ => EErr 0                                                 (* :74 *)
      end
    | first :: others =>
      let args' :=
        match first with
        | PArr l => l ++ others                                     (* :77-81 *)
        | _ => args
        end in
      match first, args' with
      | PArr _, [] => EOk [] false                                  (* :82-84 *)
      | _, _ =>
        let top := Z.of_nat (length args') in                       (* :61 / :86 *)
        match enum_loop top args' 0 (make_strings (length args')) false with    (* :89-102 *)
        | inl r => r
        | inr (enums, ci) => new_enum_type lower (sl_elems enums) ci            (* :104 *)
        end
      end
    end
  end.

(* nesting depth of the leading single-array arguments: the recursion of :69 *)
Fixpoint pv_depth (v : pv) : nat :=
  let fix l_depth (l : list pv) : nat :=
    match l with [] => O | x :: t => Nat.max (pv_depth x) (l_depth t) end in
  match v with
  | PArr l => S (l_depth l)
  | _ => O
  end.
Definition args_depth (args : list pv) : nat := fold_right (fun x n => Nat.max (pv_depth x) n) O args.

Definition enum_create (lower : str -> str) (args : list pv) : eres :=
  new_enum_type3 lower (S (args_depth args)) args.

(* the index-free reading of an argument list: strings, then possibly the flag as the very last argument; the
   position of the first argument that is neither otherwise *)
Fixpoint strings_then_flag (args : list pv) (idx : Z) : (list str * bool) + Z :=
  match args with
  | [] => inl ([], false)
  | PStr s :: rest =>
    match strings_then_flag rest (idx + 1) with
    | inl (vs, ci) => inl (s :: vs, ci)
    | inr i => inr i
    end
  | [PBool b] => inl ([], b)
  | _ :: _ => inr idx
  end.

Definition of_reading (lower : str -> str) (r : (list str * bool) + Z) : eres :=
  match r with
  | inl (vs, ci) => EOk (if ci then map lower vs else vs) ci
  | inr i => EErr i
  end.

(* specification of the creator without slices and indices *)
Fixpoint enum_spec (lower : str -> str) (depth : nat) (args : list pv) : eres :=
  match depth with
  | O => EOutOfFuel
  | S depth' =>
    match args with
    | [] => EOk [] false
    | [PArr l] => enum_spec lower depth' l
    | [PStr _] | [PBool _] => of_reading lower (strings_then_flag args 0)
    | [_] => EErr 0
    | PArr l :: others => of_reading lower (strings_then_flag (l ++ others) 0)
    | _ => of_reading lower (strings_then_flag args 0)
    end
  end.

(* ---- deferred.Resolve: variable or function ---------------------------------------------------------- *)

Inductive dres :=
  | DVar (name : str)          (* scope.Get(name): with the empty scope of resolveValue, UnknownVariable *)
  | DFunc (name : str)         (* px.Call(c, name, args, nil) *)
  | DFault.

(* deferred.go:119-120: `if len(fn) > 0 && fn[0] == '$' { vn := fn[1:]` *)
Definition deferred_target (fn : str) : dres :=
  if (0 <? Z.of_nat (length fn)) then
    match nth_error fn 0 with                       (* fn[0] *)
    | None => DFault
    | Some c =>
      if N.eqb c 36 then
        if (1 <=? Z.of_nat (length fn)) then DVar (skipn 1 fn)     (* fn[1:] *)
        else DFault
      else DFunc fn
    end
  else DFunc fn.
