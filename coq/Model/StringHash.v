(* StringHash.v — executable model of hash/stringhash.go (the mutable, insertion ordered,
   string keyed hash used for type members).  One definition per Go method, same order of tests.
   The Go `index map[string]int` is modelled explicitly (as an association list with first-match
   lookup), positions are Z so that a wrong position is a *Fault* (Go: index out of range) and not
   a clipped nat.  State = a heap (list) of hash objects, because Copy/Merge create new objects.
   `cap` is the capacity of the backing array of `entries`: it decides whether an append (Put / ComputeIfAbsent of a
   new key) writes into the array a running iteration reads or moves the entries to a new one - the only thing a
   callback that re-enters the hash can observe of it (see `iterate` below). *)
From Coq Require Import ZArith NArith Bool List.
From PcoreV Require Import Model.Base.
Import ListNotations.
Open Scope Z_scope.

(* A value of the hash is a Go interface{}: the nil interface - `Put(k, nil)`, "declared, no value" - or a value proper
   (the harness uses int64).  A key associated with nil is PRESENT: Get answers (nil, true), Includes true, Len counts
   it, ComputeIfAbsent does not compute, GetOrDefault answers nil and not its default.  px.Equals (px/equality.go:48,
   used by Equals below): nil equals nil only, int64 by ==. *)
Inductive val := VNil | VInt (z : Z).
Coercion VInt : Z >-> val.
Definition val_eqb (a b : val) : bool :=
  match a, b with VNil, VNil => true | VInt x, VInt y => Z.eqb x y | _, _ => false end.

Record sh := mkSh { entries : list (str * val); index : list (str * Z); frozen : bool; cap : nat }.

(* map[string]int *)
Fixpoint alookup (idx : list (str * Z)) (k : str) : option Z :=
  match idx with
  | [] => None
  | (k', p) :: r => if str_eqb k k' then Some p else alookup r k
  end.
Definition aset (idx : list (str * Z)) (k : str) (p : Z) := (k, p) :: idx.
Definition adel (idx : list (str * Z)) (k : str) :=
  filter (fun kp => negb (str_eqb k (fst kp))) idx.

(* entries[p] : None = index out of range *)
Definition eget {A} (es : list A) (p : Z) : option A :=
  if p <? 0 then None else nth_error es (Z.to_nat p).

Fixpoint eset (es : list (str * val)) (p : nat) (v : val) : list (str * val) :=
  match es, p with
  | [], _ => []
  | (k, _) :: r, O => (k, v) :: r
  | e :: r, S p' => e :: eset r p' v
  end.

Fixpoint eremove {A} (es : list A) (p : nat) : list A :=
  match es, p with
  | [], _ => []
  | _ :: r, O => r
  | e :: r, S p' => e :: eremove r p'
  end.

(* runtime.growslice for `append(h.entries, e)` when len = cap (stringhash.go:138, :265), one more element: 1 for an
   empty array, otherwise twice the capacity (below 256 elements), rounded up to an allocation size class.  An entry
   is 32 bytes (a string and an interface) and 64*c bytes is a size class for every c <= 12, so the rounding is the
   identity there; the capacity is only observable through the values a running iteration shows (below) and is
   tied to the real code on hashes of that size. *)
Definition grow_cap (c : nat) : nat := if Nat.eqb c 0 then 1%nat else (2 * c)%nat.

(* `h.entries = append(h.entries, stringEntry{k, v})` with its index entry written first *)
Definition append_entry (h : sh) (k : str) (v : val) : sh :=
  mkSh (entries h ++ [(k, v)]) (aset (index h) k (Z.of_nat (length (entries h)))) false
       (if Nat.ltb (length (entries h)) (cap h) then cap h else grow_cap (cap h)).

Inductive out :=
| RUnit
| RObj (n : nat)                      (* a new object was created; its heap index *)
| RVal (o : option val)               (* Get / Delete / ComputeIfAbsent / GetOrDefault *)
| RPut (o : option val) (replaced : bool)
| RBool (b : bool)
| RInt (z : Z)
| RKeys (ks : list str)
| RVals (vs : list val)
| RPairs (ps : list (str * val))
| RFrozen                             (* panic(frozenError) *)
| RFault                              (* Go runtime fault: index out of range *)
| RBadObj                             (* harness error: no such object; never generated *)
| RPanic                              (* the mapping function handed to ComputeIfAbsent panicked (the caller recovers) *)
| RIter (ks : list str) (vs : list val) (b : bool).
                                      (* an iteration: the keys and the values handed to the callback, in order
                                         (EachKey shows no values, EachValue no keys); the result of AllPair / AnyPair *)

(* stringhash.go:129 ComputeIfAbsent *)
Definition compute_if_absent (h : sh) (k : str) (v : val) : sh * out :=
  match alookup (index h) k with
  | Some p => match eget (entries h) p with
              | Some e => (h, RVal (Some (snd e)))
              | None => (h, RFault)
              end
  | None =>
    if frozen h then (h, RFrozen)
    else (append_entry h k v, RVal (Some v))
  end.

(* ComputeIfAbsent whose mapping function panics: stringhash.go:136 `value := dflt()` is left by the panic before
   anything is written (the index entry is made on the line AFTER it) *)
Definition compute_panic (h : sh) (k : str) : sh * out :=
  match alookup (index h) k with
  | Some p => match eget (entries h) p with
              | Some e => (h, RVal (Some (snd e)))
              | None => (h, RFault)
              end
  | None => if frozen h then (h, RFrozen) else (h, RPanic)
  end.

(* stringhash.go:255 Put (also used below) *)
Definition put (h : sh) (k : str) (v : val) : sh * out :=
  if frozen h then (h, RFrozen)
  else match alookup (index h) k with
       | Some p => match eget (entries h) p with
                   | Some e => (mkSh (eset (entries h) (Z.to_nat p) v) (index h) false (cap h),
                                RPut (Some (snd e)) true)
                   | None => (h, RFault)
                   end
       | None => (append_entry h k v, RPut None false)
       end.

(* ComputeIfAbsent whose mapping function re-enters the hash: it puts k2 => v2 into the same hash and returns v.
   stringhash.go:136-138: the position of the new entry is the length AFTER dflt() has run.  When k2 is k itself
   the hash ends up with two entries for k (open finding compute-producer-puts-same-key); the model follows. *)
Definition compute_put (h : sh) (k : str) (v : val) (k2 : str) (v2 : val) : sh * out :=
  match alookup (index h) k with
  | Some p => match eget (entries h) p with
              | Some e => (h, RVal (Some (snd e)))
              | None => (h, RFault)
              end
  | None =>
    if frozen h then (h, RFrozen)
    else match put h k2 v2 with
         | (h1, RPut _ _) =>
             (append_entry h1 k v, RVal (Some v))
         | (h1, o) => (h1, o)
         end
  end.

(* stringhash.go:142 Copy *)
(* `make([]stringEntry, len(h.entries))`: the copy's array is exactly as long as its entries *)
Definition copy (h : sh) : sh := mkSh (entries h) (index h) false (length (entries h)).

(* stringhash.go:152 Delete.  The re-numbering loop is `PARAM_renumber`: the pinned tree wrote
   `index[k] = p - 1`; after the fix it is `v - 1`. *)
Definition delete (h : sh) (k : str) : sh * out :=
  if frozen h then (h, RFrozen)
  else match alookup (index h) k with
       | None => (h, RVal None)
       | Some p =>
         match eget (entries h) p with
         | None => (h, RFault)
         | Some e =>
           let idx := adel (index h) k in
           let idx := map (fun kv => if snd kv >? p then (fst kv, snd kv - 1) else kv) idx in
           (* stringhash.go:166 `ne := make([]stringEntry, len(h.entries)-1)`: always a NEW array, the old one is
              left as it was *)
           (mkSh (eremove (entries h) (Z.to_nat p)) idx false (length (entries h) - 1)%nat, RVal (Some (snd e)))
         end
       end.

(* stringhash.go:221 Get / GetOrDefault / Includes *)
Definition get (h : sh) (k : str) : out :=
  match alookup (index h) k with
  | Some p => match eget (entries h) p with Some e => RVal (Some (snd e)) | None => RFault end
  | None => RVal None
  end.
Definition get_or_default (h : sh) (k : str) (d : val) : out :=
  match alookup (index h) k with
  | Some p => match eget (entries h) p with Some e => RVal (Some (snd e)) | None => RFault end
  | None => RVal (Some d)
  end.
Definition includes (h : sh) (k : str) : bool :=
  match alookup (index h) k with Some _ => true | None => false end.

(* stringhash.go:272 PutAll: Put for each entry of other, stops at the first panic *)
Fixpoint put_all (h : sh) (es : list (str * val)) : sh * out :=
  match es with
  | [] => (h, RUnit)
  | (k, v) :: r =>
    match put h k v with
    | (h', RPut _ _) => put_all h' r
    | (h', o) => (h', o)
    end
  end.

(* stringhash.go:202 Equals *)
Fixpoint equals_loop (es : list (str * val)) (o : sh) : out :=
  match es with
  | [] => RBool true
  | (k, v) :: r =>
    match alookup (index o) k with
    | None => RBool false
    | Some p => match eget (entries o) p with
                | None => RFault
                | Some e => if val_eqb v (snd e) then equals_loop r o else RBool false
                end
    end
  end.
Definition equals (h o : sh) : out :=
  if negb (Nat.eqb (length (entries h)) (length (entries o))) then RBool false
  else equals_loop (entries h) o.


(* ------------------------------------------------------------------------------------------ *)
(* Iteration with a callback that RE-ENTERS the hash it is called from (stringhash.go:113 AllPair, :122 AnyPair,
   :179 EachKey, :185 EachPair, :191 EachValue).  Every one of them is `for _, e := range h.entries { f(e...) }`:
   Go evaluates `h.entries` ONCE - array pointer and length - and reads element i of THAT array when it gets there.
   The callback is given as data: what it does to the hash at its i-th call and whether it asks AllPair / AnyPair
   to stop there. *)
Inductive act :=
| ANone
| ADel (k : str)                        (* h.Delete(k) *)
| APut (k : str) (v : val)              (* h.Put(k, v) *)
| ACompute (k : str) (v : val).         (* h.ComputeIfAbsent(k, func() { return v }) *)

Inductive iter_kind := IEachKey | IEachPair | IEachValue | IAllPair | IAnyPair.

Definition act_step (h : sh) (a : act) : sh * out :=
  match a with
  | ANone => (h, RUnit)
  | ADel k => delete h k
  | APut k v => put h k v
  | ACompute k v => compute_if_absent h k v
  end.

(* Is `h'.entries` still the array `h.entries` was (h' = h after one act_step)?  Delete allocates an array of
   len-1 < len <= cap elements, an append that does not fit one of more than cap elements, everything else (replace
   a value in place, append within the capacity, nothing) keeps array and capacity: the array is the same exactly
   when the capacity is. *)
Definition same_array (h h' : sh) : bool := Nat.eqb (cap h) (cap h').

(* What the running `range` sees (`snap`: the elements of the array it holds, al: that array is still h.entries)
   after the callback did `a` on h: stringhash.go:261 `e := &h.entries[p]; e.value = value` writes into the
   iterated array when it is still the hash's; nothing else writes below the length the range started with
   (appends write at or above it, Delete writes to its new array). *)
Definition snap_after (h : sh) (a : act) (al : bool) (snap : list (str * val)) : list (str * val) :=
  match a with
  | APut k v => if al then match alookup (index h) k with
                           | Some p => eset snap (Z.to_nat p) v
                           | None => snap
                           end
                else snap
  | _ => snap
  end.

(* AllPair stops at the first `false`, AnyPair at the first `true`; `stop` = the callback returns that *)
Definition stops (kind : iter_kind) (stop : bool) : bool :=
  match kind with IAllPair | IAnyPair => stop | _ => false end.

Definition iter_out (kind : iter_kind) (acc : list (str * val)) (stopped : bool) : out :=
  RIter (match kind with IEachValue => [] | _ => map fst acc end)
        (match kind with IEachKey => [] | _ => map snd acc end)
        (match kind with IAllPair => negb stopped | IAnyPair => stopped | _ => true end).

Definition next_act (acts : list (act * bool)) : act * bool :=
  match acts with [] => (ANone, false) | a :: _ => a end.

(* n = elements still to visit, i = position of the next one.  A panic of the callback (mutation of a frozen hash)
   leaves the iteration; the caller recovers. *)
Fixpoint iter_loop (kind : iter_kind) (h : sh) (snap : list (str * val)) (al : bool) (i n : nat)
         (acts : list (act * bool)) (acc : list (str * val)) : sh * out :=
  match n with
  | O => (h, iter_out kind acc false)
  | S n' =>
    match nth_error snap i with
    | None => (h, RFault)
    | Some e =>
      let (a, stop) := next_act acts in
      match act_step h a with
      | (h', RFrozen) => (h', RFrozen)
      | (h', RFault) => (h', RFault)
      | (h', _) =>
        if stops kind stop then (h', iter_out kind (acc ++ [e]) true)
        else iter_loop kind h' (snap_after h a al snap) (al && same_array h h') (S i) n' (tl acts) (acc ++ [e])
      end
    end
  end.

Definition iterate (kind : iter_kind) (h : sh) (acts : list (act * bool)) : sh * out :=
  iter_loop kind h (entries h) true 0 (length (entries h)) acts [].

Inductive op :=
| ONew
| OPut (h : nat) (k : str) (v : val)
| ODelete (h : nat) (k : str)
| OGet (h : nat) (k : str)
| OGetOrDefault (h : nat) (k : str) (d : val)
| OIncludes (h : nat) (k : str)
| OCompute (h : nat) (k : str) (v : val)
| OCopy (h : nat)
| OMerge (h o : nat)
| OPutAll (h o : nat)
| OFreeze (h : nat)
| OKeys (h : nat)
| OValues (h : nat)
| OPairs (h : nat)
| OLen (h : nat)
| OEmpty (h : nat)
| OIsFrozen (h : nat)
| OEquals (h o : nat)
| OComputePanic (h : nat) (k : str)                              (* ComputeIfAbsent(k, func() { panic }) + recover *)
| OComputePut (h : nat) (k : str) (v : val) (k2 : str) (v2 : val) (* ComputeIfAbsent(k, func() { h.Put(k2, v2); return v }) *)
| ONewCap (c : nat)                                              (* NewStringHash(c); ONew is NewStringHash(2) *)
| OIter (h : nat) (kind : iter_kind) (acts : list (act * bool)). (* h.EachKey/EachPair/EachValue/AllPair/AnyPair(callback) *)

Definition heap := list sh.

Fixpoint hset (hp : heap) (i : nat) (h : sh) : heap :=
  match hp, i with
  | [], _ => []
  | _ :: r, O => h :: r
  | x :: r, S i' => x :: hset r i' h
  end.

Definition with_obj (hp : heap) (i : nat) (f : sh -> heap * out) : heap * out :=
  match nth_error hp i with Some h => f h | None => (hp, RBadObj) end.

Definition upd (hp : heap) (i : nat) (r : sh * out) : heap * out := (hset hp i (fst r), snd r).

Definition step (hp : heap) (o : op) : heap * out :=
  match o with
  | ONew => (hp ++ [mkSh [] [] false 2], RObj (length hp))
  | OPut i k v => with_obj hp i (fun h => upd hp i (put h k v))
  | ODelete i k => with_obj hp i (fun h => upd hp i (delete h k))
  | OGet i k => with_obj hp i (fun h => (hp, get h k))
  | OGetOrDefault i k d => with_obj hp i (fun h => (hp, get_or_default h k d))
  | OIncludes i k => with_obj hp i (fun h => (hp, RBool (includes h k)))
  | OCompute i k v => with_obj hp i (fun h => upd hp i (compute_if_absent h k v))
  | OCopy i => with_obj hp i (fun h => (hp ++ [copy h], RObj (length hp)))
  | OMerge i j => with_obj hp i (fun h => with_obj hp j (fun o =>
      match put_all (copy h) (entries o) with
      | (m, RUnit) => (hp ++ [m], RObj (length hp))
      | (_, r) => (hp, r)
      end))
  | OPutAll i j => with_obj hp i (fun h => with_obj hp j (fun o => upd hp i (put_all h (entries o))))
  | OFreeze i => with_obj hp i (fun h => (hset hp i (mkSh (entries h) (index h) true (cap h)), RUnit))
  | OKeys i => with_obj hp i (fun h => (hp, RKeys (map fst (entries h))))
  | OValues i => with_obj hp i (fun h => (hp, RVals (map snd (entries h))))
  | OPairs i => with_obj hp i (fun h => (hp, RPairs (entries h)))
  | OLen i => with_obj hp i (fun h => (hp, RInt (Z.of_nat (length (entries h)))))
  | OEmpty i => with_obj hp i (fun h => (hp, RBool (Nat.eqb (length (entries h)) 0)))
  | OIsFrozen i => with_obj hp i (fun h => (hp, RBool (frozen h)))
  | OEquals i j => with_obj hp i (fun h => with_obj hp j (fun o => (hp, equals h o)))
  | OComputePanic i k => with_obj hp i (fun h => upd hp i (compute_panic h k))
  | OComputePut i k v k2 v2 => with_obj hp i (fun h => upd hp i (compute_put h k v k2 v2))
  | ONewCap c => (hp ++ [mkSh [] [] false c], RObj (length hp))
  | OIter i kind acts => with_obj hp i (fun h => upd hp i (iterate kind h acts))
  end.

Fixpoint run (hp : heap) (ops : list op) : heap * list out :=
  match ops with
  | [] => (hp, [])
  | o :: r => let (hp', x) := step hp o in let (hp'', xs) := run hp' r in (hp'', x :: xs)
  end.

(* ------------------------------------------------------------------------------------------ *)
(* The abstract specification: an insertion-ordered association list with unique keys and a
   frozen flag.  Written from the interface documentation (stringhash.go:10-83), not from the
   implementation: no index, no positions. *)

Record ssh := mkS { sents : list (str * val); sfrozen : bool }.

Fixpoint s_lookup (es : list (str * val)) (k : str) : option val :=
  match es with
  | [] => None
  | (k', v) :: r => if str_eqb k k' then Some v else s_lookup r k
  end.
Fixpoint s_replace (es : list (str * val)) (k : str) (v : val) : list (str * val) :=
  match es with
  | [] => []
  | (k', v') :: r => if str_eqb k k' then (k', v) :: r else (k', v') :: s_replace r k v
  end.
Fixpoint s_remove (es : list (str * val)) (k : str) : list (str * val) :=
  match es with
  | [] => []
  | (k', v') :: r => if str_eqb k k' then r else (k', v') :: s_remove r k
  end.

Definition s_put (h : ssh) (k : str) (v : val) : ssh * out :=
  if sfrozen h then (h, RFrozen)
  else match s_lookup (sents h) k with
       | Some old => (mkS (s_replace (sents h) k v) false, RPut (Some old) true)
       | None => (mkS (sents h ++ [(k, v)]) false, RPut None false)
       end.
Definition s_delete (h : ssh) (k : str) : ssh * out :=
  if sfrozen h then (h, RFrozen)
  else match s_lookup (sents h) k with
       | Some old => (mkS (s_remove (sents h) k) false, RVal (Some old))
       | None => (h, RVal None)
       end.
Definition s_compute (h : ssh) (k : str) (v : val) : ssh * out :=
  match s_lookup (sents h) k with
  | Some x => (h, RVal (Some x))
  | None => if sfrozen h then (h, RFrozen) else (mkS (sents h ++ [(k, v)]) false, RVal (Some v))
  end.
(* the mapping function panics: nothing happens *)
Definition s_compute_panic (h : ssh) (k : str) : ssh * out :=
  match s_lookup (sents h) k with
  | Some x => (h, RVal (Some x))
  | None => if sfrozen h then (h, RFrozen) else (h, RPanic)
  end.
(* the mapping function puts ANOTHER key first: that key is put, then the computed key is appended *)
Definition s_compute_put (h : ssh) (k : str) (v : val) (k2 : str) (v2 : val) : ssh * out :=
  match s_lookup (sents h) k with
  | Some x => (h, RVal (Some x))
  | None => if sfrozen h then (h, RFrozen)
            else match s_put h k2 v2 with
                 | (h1, RPut _ _) => (mkS (sents h1 ++ [(k, v)]) false, RVal (Some v))
                 | (h1, o) => (h1, o)
                 end
  end.
Fixpoint s_put_all (h : ssh) (es : list (str * val)) : ssh * out :=
  match es with
  | [] => (h, RUnit)
  | (k, v) :: r => match s_put h k v with
                   | (h', RPut _ _) => s_put_all h' r
                   | (h', o) => (h', o)
                   end
  end.
(* equal = same length and every binding of the first is a binding of the second *)
Definition s_equals (h o : ssh) : bool :=
  Nat.eqb (length (sents h)) (length (sents o)) &&
  forallb (fun kv => match s_lookup (sents o) (fst kv) with
                     | Some v => val_eqb (snd kv) v | None => false end) (sents h).


(* Iteration of the abstract map: the callback is called once for every entry the map held WHEN THE ITERATION
   STARTED, in order, whatever it does to the map meanwhile (entries it deletes before their turn included, entries
   it adds not); what it does takes effect on the map at once.  No array, no capacity. *)
Definition s_act_step (h : ssh) (a : act) : ssh * out :=
  match a with
  | ANone => (h, RUnit)
  | ADel k => s_delete h k
  | APut k v => s_put h k v
  | ACompute k v => s_compute h k v
  end.

Fixpoint s_iter_loop (kind : iter_kind) (h : ssh) (pend : list (str * val)) (acts : list (act * bool))
         (acc : list (str * val)) : ssh * out :=
  match pend with
  | [] => (h, iter_out kind acc false)
  | e :: r =>
    let (a, stop) := next_act acts in
    match s_act_step h a with
    | (h', RFrozen) => (h', RFrozen)
    | (h', RFault) => (h', RFault)
    | (h', _) =>
      if stops kind stop then (h', iter_out kind (acc ++ [e]) true)
      else s_iter_loop kind h' r (tl acts) (acc ++ [e])
    end
  end.

Definition s_iterate (kind : iter_kind) (h : ssh) (acts : list (act * bool)) : ssh * out :=
  s_iter_loop kind h (sents h) acts [].

Definition sheap := list ssh.
Fixpoint shset (hp : sheap) (i : nat) (h : ssh) : sheap :=
  match hp, i with
  | [], _ => []
  | _ :: r, O => h :: r
  | x :: r, S i' => x :: shset r i' h
  end.
Definition s_with (hp : sheap) (i : nat) (f : ssh -> sheap * out) : sheap * out :=
  match nth_error hp i with Some h => f h | None => (hp, RBadObj) end.
Definition s_upd (hp : sheap) (i : nat) (r : ssh * out) : sheap * out := (shset hp i (fst r), snd r).

Definition s_step (hp : sheap) (o : op) : sheap * out :=
  match o with
  | ONew => (hp ++ [mkS [] false], RObj (length hp))
  | OPut i k v => s_with hp i (fun h => s_upd hp i (s_put h k v))
  | ODelete i k => s_with hp i (fun h => s_upd hp i (s_delete h k))
  | OGet i k => s_with hp i (fun h => (hp, RVal (s_lookup (sents h) k)))
  | OGetOrDefault i k d => s_with hp i (fun h =>
      (hp, RVal (Some match s_lookup (sents h) k with Some v => v | None => d end)))
  | OIncludes i k => s_with hp i (fun h =>
      (hp, RBool match s_lookup (sents h) k with Some _ => true | None => false end))
  | OCompute i k v => s_with hp i (fun h => s_upd hp i (s_compute h k v))
  | OCopy i => s_with hp i (fun h => (hp ++ [mkS (sents h) false], RObj (length hp)))
  | OMerge i j => s_with hp i (fun h => s_with hp j (fun o =>
      match s_put_all (mkS (sents h) false) (sents o) with
      | (m, RUnit) => (hp ++ [m], RObj (length hp))
      | (_, r) => (hp, r)
      end))
  | OPutAll i j => s_with hp i (fun h => s_with hp j (fun o => s_upd hp i (s_put_all h (sents o))))
  | OFreeze i => s_with hp i (fun h => (shset hp i (mkS (sents h) true), RUnit))
  | OKeys i => s_with hp i (fun h => (hp, RKeys (map fst (sents h))))
  | OValues i => s_with hp i (fun h => (hp, RVals (map snd (sents h))))
  | OPairs i => s_with hp i (fun h => (hp, RPairs (sents h)))
  | OLen i => s_with hp i (fun h => (hp, RInt (Z.of_nat (length (sents h)))))
  | OEmpty i => s_with hp i (fun h => (hp, RBool (Nat.eqb (length (sents h)) 0)))
  | OIsFrozen i => s_with hp i (fun h => (hp, RBool (sfrozen h)))
  | OEquals i j => s_with hp i (fun h => s_with hp j (fun o => (hp, RBool (s_equals h o))))
  | OComputePanic i k => s_with hp i (fun h => s_upd hp i (s_compute_panic h k))
  | OComputePut i k v k2 v2 => s_with hp i (fun h => s_upd hp i (s_compute_put h k v k2 v2))
  | ONewCap _ => (hp ++ [mkS [] false], RObj (length hp))
  | OIter i kind acts => s_with hp i (fun h => s_upd hp i (s_iterate kind h acts))
  end.

(* the histories of the refinement theorem: a re-entrant mapping function puts a key OTHER than the computed one *)
Definition op_ok (o : op) : bool :=
  match o with OComputePut _ k _ k2 _ => negb (str_eqb k k2) | _ => true end.
Definition ops_ok (ops : list op) : bool := forallb op_ok ops.


(* Which histories the two refinement theorems talk about.  A callback that PUTS a key the iteration has not reached
   yet may or may not be handed the new value when it gets there - it depends on whether the entries still live in
   the array the iteration started on (capacity, an earlier Delete) - so the abstract map, which has no arrays, says
   nothing about the VALUES such an iteration shows: `erase_values` forgets them (their number stays).  Histories
   whose callbacks do not put (they delete, compute, or do nothing: ops_plain) are compared exactly. *)
Definition act_plain (a : act) : bool := match a with APut _ _ => false | _ => true end.
Definition acts_plain (acts : list (act * bool)) : bool := forallb (fun a => act_plain (fst a)) acts.
Definition op_plain (o : op) : bool := match o with OIter _ _ acts => acts_plain acts | _ => true end.
Definition ops_plain (ops : list op) : bool := forallb op_plain ops.
Definition erase_values (o : out) : out :=
  match o with RIter ks vs b => RIter ks (map (fun _ => VNil) vs) b | _ => o end.

Fixpoint s_run (hp : sheap) (ops : list op) : sheap * list out :=
  match ops with
  | [] => (hp, [])
  | o :: r => let (hp', x) := s_step hp o in let (hp'', xs) := s_run hp' r in (hp'', x :: xs)
  end.

(* executable equality on outputs, for the correspondence files *)
Definition oval_eqb := option_eqb val_eqb.
Definition pair_eqb (a b : str * val) := str_eqb (fst a) (fst b) && val_eqb (snd a) (snd b).
Definition out_eqb (a b : out) : bool :=
  match a, b with
  | RUnit, RUnit | RFrozen, RFrozen | RFault, RFault | RBadObj, RBadObj | RPanic, RPanic => true
  | RObj n, RObj m => Nat.eqb n m
  | RVal x, RVal y => oval_eqb x y
  | RPut x b1, RPut y b2 => oval_eqb x y && Bool.eqb b1 b2
  | RBool x, RBool y => Bool.eqb x y
  | RInt x, RInt y => Z.eqb x y
  | RKeys x, RKeys y => list_eqb str_eqb x y
  | RVals x, RVals y => list_eqb val_eqb x y
  | RPairs x, RPairs y => list_eqb pair_eqb x y
  | RIter k1 v1 b1, RIter k2 v2 b2 => list_eqb str_eqb k1 k2 && list_eqb val_eqb v1 v2 && Bool.eqb b1 b2
  | _, _ => false
  end.

(* What a Go caller can tell from a result.  Get and Put return a presence flag next to the value (RVal / RPut with
   an option); Delete, GetOrDefault and ComputeIfAbsent return a bare interface{}: for them "the value nil of a
   present key" and "nothing" (Delete of an absent key) look alike.  `go_view` is that projection; the correspondence
   compares the model's result with the observed one through it. *)
Definition bare_result (o : op) : bool :=
  match o with
  | ODelete _ _ | OGetOrDefault _ _ _ | OCompute _ _ _ | OComputePanic _ _ | OComputePut _ _ _ _ _ => true
  | _ => false
  end.
Definition go_view (o : op) (r : out) : out :=
  if bare_result o then match r with RVal (Some VNil) => RVal None | _ => r end else r.
Fixpoint go_views (ops : list op) (rs : list out) : list out :=
  match ops, rs with
  | o :: ops', r :: rs' => go_view o r :: go_views ops' rs'
  | _, _ => rs
  end.
