(* StringHash.v — executable model of hash/stringhash.go (the mutable, insertion ordered,
   string keyed hash used for type members).  One definition per Go method, same order of tests.
   The Go `index map[string]int` is modelled explicitly (as an association list with first-match
   lookup), positions are Z so that a wrong position is a *Fault* (Go: index out of range) and not
   a clipped nat.  State = a heap (list) of hash objects, because Copy/Merge create new objects. *)
From Coq Require Import ZArith NArith Bool List.
From PcoreV Require Import Model.Base.
Import ListNotations.
Open Scope Z_scope.

Definition val := Z.

Record sh := mkSh { entries : list (str * val); index : list (str * Z); frozen : bool }.

(* map[string]int *)
Fixpoint alookup (idx : list (str * Z)) (k : str) : option Z :=
  match idx with
  | [] => None
  | (k', p) :: r => if str_eqb k k' then Some p else alookup r k
  end.
Definition aset (idx : list (str * Z)) (k : str) (p : Z) := (k, p) :: idx.
Definition adel (idx : list (str * Z)) (k : str) :=
  filter (fun kp => negb (str_eqb k (fst kp))) idx.

(* entries[p] : None = index out of range *)
Definition eget {A} (es : list A) (p : Z) : option A :=
  if p <? 0 then None else nth_error es (Z.to_nat p).

Fixpoint eset (es : list (str * val)) (p : nat) (v : val) : list (str * val) :=
  match es, p with
  | [], _ => []
  | (k, _) :: r, O => (k, v) :: r
  | e :: r, S p' => e :: eset r p' v
  end.

Fixpoint eremove {A} (es : list A) (p : nat) : list A :=
  match es, p with
  | [], _ => []
  | _ :: r, O => r
  | e :: r, S p' => e :: eremove r p'
  end.

Inductive out :=
| RUnit
| RObj (n : nat)                      (* a new object was created; its heap index *)
| RVal (o : option val)               (* Get / Delete / ComputeIfAbsent / GetOrDefault *)
| RPut (o : option val) (replaced : bool)
| RBool (b : bool)
| RInt (z : Z)
| RKeys (ks : list str)
| RVals (vs : list val)
| RPairs (ps : list (str * val))
| RFrozen                             (* panic(frozenError) *)
| RFault                              (* Go runtime fault: index out of range *)
| RBadObj                             (* harness error: no such object; never generated *)
| RPanic.                             (* the mapping function handed to ComputeIfAbsent panicked (the caller recovers) *)

(* stringhash.go:129 ComputeIfAbsent *)
Definition compute_if_absent (h : sh) (k : str) (v : val) : sh * out :=
  match alookup (index h) k with
  | Some p => match eget (entries h) p with
              | Some e => (h, RVal (Some (snd e)))
              | None => (h, RFault)
              end
  | None =>
    if frozen h then (h, RFrozen)
    else (mkSh (entries h ++ [(k, v)]) (aset (index h) k (Z.of_nat (length (entries h)))) false,
          RVal (Some v))
  end.

(* ComputeIfAbsent whose mapping function panics: stringhash.go:136 `value := dflt()` is left by the panic before
   anything is written (the index entry is made on the line AFTER it) *)
Definition compute_panic (h : sh) (k : str) : sh * out :=
  match alookup (index h) k with
  | Some p => match eget (entries h) p with
              | Some e => (h, RVal (Some (snd e)))
              | None => (h, RFault)
              end
  | None => if frozen h then (h, RFrozen) else (h, RPanic)
  end.

(* stringhash.go:255 Put (also used below) *)
Definition put (h : sh) (k : str) (v : val) : sh * out :=
  if frozen h then (h, RFrozen)
  else match alookup (index h) k with
       | Some p => match eget (entries h) p with
                   | Some e => (mkSh (eset (entries h) (Z.to_nat p) v) (index h) false,
                                RPut (Some (snd e)) true)
                   | None => (h, RFault)
                   end
       | None => (mkSh (entries h ++ [(k, v)]) (aset (index h) k (Z.of_nat (length (entries h)))) false,
                  RPut None false)
       end.

(* ComputeIfAbsent whose mapping function re-enters the hash: it puts k2 => v2 into the same hash and returns v.
   stringhash.go:136-138: the position of the new entry is the length AFTER dflt() has run.  When k2 is k itself
   the hash ends up with two entries for k (open finding compute-producer-puts-same-key); the model follows. *)
Definition compute_put (h : sh) (k : str) (v : val) (k2 : str) (v2 : val) : sh * out :=
  match alookup (index h) k with
  | Some p => match eget (entries h) p with
              | Some e => (h, RVal (Some (snd e)))
              | None => (h, RFault)
              end
  | None =>
    if frozen h then (h, RFrozen)
    else match put h k2 v2 with
         | (h1, RPut _ _) =>
             (mkSh (entries h1 ++ [(k, v)]) (aset (index h1) k (Z.of_nat (length (entries h1)))) false,
              RVal (Some v))
         | (h1, o) => (h1, o)
         end
  end.

(* stringhash.go:142 Copy *)
Definition copy (h : sh) : sh := mkSh (entries h) (index h) false.

(* stringhash.go:152 Delete.  The re-numbering loop is `PARAM_renumber`: the pinned tree wrote
   `index[k] = p - 1`; after the fix it is `v - 1`. *)
Definition delete (h : sh) (k : str) : sh * out :=
  if frozen h then (h, RFrozen)
  else match alookup (index h) k with
       | None => (h, RVal None)
       | Some p =>
         match eget (entries h) p with
         | None => (h, RFault)
         | Some e =>
           let idx := adel (index h) k in
           let idx := map (fun kv => if snd kv >? p then (fst kv, snd kv - 1) else kv) idx in
           (mkSh (eremove (entries h) (Z.to_nat p)) idx false, RVal (Some (snd e)))
         end
       end.

(* stringhash.go:221 Get / GetOrDefault / Includes *)
Definition get (h : sh) (k : str) : out :=
  match alookup (index h) k with
  | Some p => match eget (entries h) p with Some e => RVal (Some (snd e)) | None => RFault end
  | None => RVal None
  end.
Definition get_or_default (h : sh) (k : str) (d : val) : out :=
  match alookup (index h) k with
  | Some p => match eget (entries h) p with Some e => RVal (Some (snd e)) | None => RFault end
  | None => RVal (Some d)
  end.
Definition includes (h : sh) (k : str) : bool :=
  match alookup (index h) k with Some _ => true | None => false end.

(* stringhash.go:272 PutAll: Put for each entry of other, stops at the first panic *)
Fixpoint put_all (h : sh) (es : list (str * val)) : sh * out :=
  match es with
  | [] => (h, RUnit)
  | (k, v) :: r =>
    match put h k v with
    | (h', RPut _ _) => put_all h' r
    | (h', o) => (h', o)
    end
  end.

(* stringhash.go:202 Equals *)
Fixpoint equals_loop (es : list (str * val)) (o : sh) : out :=
  match es with
  | [] => RBool true
  | (k, v) :: r =>
    match alookup (index o) k with
    | None => RBool false
    | Some p => match eget (entries o) p with
                | None => RFault
                | Some e => if Z.eqb v (snd e) then equals_loop r o else RBool false
                end
    end
  end.
Definition equals (h o : sh) : out :=
  if negb (Nat.eqb (length (entries h)) (length (entries o))) then RBool false
  else equals_loop (entries h) o.

Inductive op :=
| ONew
| OPut (h : nat) (k : str) (v : val)
| ODelete (h : nat) (k : str)
| OGet (h : nat) (k : str)
| OGetOrDefault (h : nat) (k : str) (d : val)
| OIncludes (h : nat) (k : str)
| OCompute (h : nat) (k : str) (v : val)
| OCopy (h : nat)
| OMerge (h o : nat)
| OPutAll (h o : nat)
| OFreeze (h : nat)
| OKeys (h : nat)
| OValues (h : nat)
| OPairs (h : nat)
| OLen (h : nat)
| OEmpty (h : nat)
| OIsFrozen (h : nat)
| OEquals (h o : nat)
| OComputePanic (h : nat) (k : str)                              (* ComputeIfAbsent(k, func() { panic }) + recover *)
| OComputePut (h : nat) (k : str) (v : val) (k2 : str) (v2 : val). (* ComputeIfAbsent(k, func() { h.Put(k2, v2); return v }) *)

Definition heap := list sh.

Fixpoint hset (hp : heap) (i : nat) (h : sh) : heap :=
  match hp, i with
  | [], _ => []
  | _ :: r, O => h :: r
  | x :: r, S i' => x :: hset r i' h
  end.

Definition with_obj (hp : heap) (i : nat) (f : sh -> heap * out) : heap * out :=
  match nth_error hp i with Some h => f h | None => (hp, RBadObj) end.

Definition upd (hp : heap) (i : nat) (r : sh * out) : heap * out := (hset hp i (fst r), snd r).

Definition step (hp : heap) (o : op) : heap * out :=
  match o with
  | ONew => (hp ++ [mkSh [] [] false], RObj (length hp))
  | OPut i k v => with_obj hp i (fun h => upd hp i (put h k v))
  | ODelete i k => with_obj hp i (fun h => upd hp i (delete h k))
  | OGet i k => with_obj hp i (fun h => (hp, get h k))
  | OGetOrDefault i k d => with_obj hp i (fun h => (hp, get_or_default h k d))
  | OIncludes i k => with_obj hp i (fun h => (hp, RBool (includes h k)))
  | OCompute i k v => with_obj hp i (fun h => upd hp i (compute_if_absent h k v))
  | OCopy i => with_obj hp i (fun h => (hp ++ [copy h], RObj (length hp)))
  | OMerge i j => with_obj hp i (fun h => with_obj hp j (fun o =>
      match put_all (copy h) (entries o) with
      | (m, RUnit) => (hp ++ [m], RObj (length hp))
      | (_, r) => (hp, r)
      end))
  | OPutAll i j => with_obj hp i (fun h => with_obj hp j (fun o => upd hp i (put_all h (entries o))))
  | OFreeze i => with_obj hp i (fun h => (hset hp i (mkSh (entries h) (index h) true), RUnit))
  | OKeys i => with_obj hp i (fun h => (hp, RKeys (map fst (entries h))))
  | OValues i => with_obj hp i (fun h => (hp, RVals (map snd (entries h))))
  | OPairs i => with_obj hp i (fun h => (hp, RPairs (entries h)))
  | OLen i => with_obj hp i (fun h => (hp, RInt (Z.of_nat (length (entries h)))))
  | OEmpty i => with_obj hp i (fun h => (hp, RBool (Nat.eqb (length (entries h)) 0)))
  | OIsFrozen i => with_obj hp i (fun h => (hp, RBool (frozen h)))
  | OEquals i j => with_obj hp i (fun h => with_obj hp j (fun o => (hp, equals h o)))
  | OComputePanic i k => with_obj hp i (fun h => upd hp i (compute_panic h k))
  | OComputePut i k v k2 v2 => with_obj hp i (fun h => upd hp i (compute_put h k v k2 v2))
  end.

Fixpoint run (hp : heap) (ops : list op) : heap * list out :=
  match ops with
  | [] => (hp, [])
  | o :: r => let (hp', x) := step hp o in let (hp'', xs) := run hp' r in (hp'', x :: xs)
  end.

(* ------------------------------------------------------------------------------------------ *)
(* The abstract specification: an insertion-ordered association list with unique keys and a
   frozen flag.  Written from the interface documentation (stringhash.go:10-83), not from the
   implementation: no index, no positions. *)

Record ssh := mkS { sents : list (str * val); sfrozen : bool }.

Fixpoint s_lookup (es : list (str * val)) (k : str) : option val :=
  match es with
  | [] => None
  | (k', v) :: r => if str_eqb k k' then Some v else s_lookup r k
  end.
Fixpoint s_replace (es : list (str * val)) (k : str) (v : val) : list (str * val) :=
  match es with
  | [] => []
  | (k', v') :: r => if str_eqb k k' then (k', v) :: r else (k', v') :: s_replace r k v
  end.
Fixpoint s_remove (es : list (str * val)) (k : str) : list (str * val) :=
  match es with
  | [] => []
  | (k', v') :: r => if str_eqb k k' then r else (k', v') :: s_remove r k
  end.

Definition s_put (h : ssh) (k : str) (v : val) : ssh * out :=
  if sfrozen h then (h, RFrozen)
  else match s_lookup (sents h) k with
       | Some old => (mkS (s_replace (sents h) k v) false, RPut (Some old) true)
       | None => (mkS (sents h ++ [(k, v)]) false, RPut None false)
       end.
Definition s_delete (h : ssh) (k : str) : ssh * out :=
  if sfrozen h then (h, RFrozen)
  else match s_lookup (sents h) k with
       | Some old => (mkS (s_remove (sents h) k) false, RVal (Some old))
       | None => (h, RVal None)
       end.
Definition s_compute (h : ssh) (k : str) (v : val) : ssh * out :=
  match s_lookup (sents h) k with
  | Some x => (h, RVal (Some x))
  | None => if sfrozen h then (h, RFrozen) else (mkS (sents h ++ [(k, v)]) false, RVal (Some v))
  end.
(* the mapping function panics: nothing happens *)
Definition s_compute_panic (h : ssh) (k : str) : ssh * out :=
  match s_lookup (sents h) k with
  | Some x => (h, RVal (Some x))
  | None => if sfrozen h then (h, RFrozen) else (h, RPanic)
  end.
(* the mapping function puts ANOTHER key first: that key is put, then the computed key is appended *)
Definition s_compute_put (h : ssh) (k : str) (v : val) (k2 : str) (v2 : val) : ssh * out :=
  match s_lookup (sents h) k with
  | Some x => (h, RVal (Some x))
  | None => if sfrozen h then (h, RFrozen)
            else match s_put h k2 v2 with
                 | (h1, RPut _ _) => (mkS (sents h1 ++ [(k, v)]) false, RVal (Some v))
                 | (h1, o) => (h1, o)
                 end
  end.
Fixpoint s_put_all (h : ssh) (es : list (str * val)) : ssh * out :=
  match es with
  | [] => (h, RUnit)
  | (k, v) :: r => match s_put h k v with
                   | (h', RPut _ _) => s_put_all h' r
                   | (h', o) => (h', o)
                   end
  end.
(* equal = same length and every binding of the first is a binding of the second *)
Definition s_equals (h o : ssh) : bool :=
  Nat.eqb (length (sents h)) (length (sents o)) &&
  forallb (fun kv => match s_lookup (sents o) (fst kv) with
                     | Some v => Z.eqb (snd kv) v | None => false end) (sents h).

Definition sheap := list ssh.
Fixpoint shset (hp : sheap) (i : nat) (h : ssh) : sheap :=
  match hp, i with
  | [], _ => []
  | _ :: r, O => h :: r
  | x :: r, S i' => x :: shset r i' h
  end.
Definition s_with (hp : sheap) (i : nat) (f : ssh -> sheap * out) : sheap * out :=
  match nth_error hp i with Some h => f h | None => (hp, RBadObj) end.
Definition s_upd (hp : sheap) (i : nat) (r : ssh * out) : sheap * out := (shset hp i (fst r), snd r).

Definition s_step (hp : sheap) (o : op) : sheap * out :=
  match o with
  | ONew => (hp ++ [mkS [] false], RObj (length hp))
  | OPut i k v => s_with hp i (fun h => s_upd hp i (s_put h k v))
  | ODelete i k => s_with hp i (fun h => s_upd hp i (s_delete h k))
  | OGet i k => s_with hp i (fun h => (hp, RVal (s_lookup (sents h) k)))
  | OGetOrDefault i k d => s_with hp i (fun h =>
      (hp, RVal (Some match s_lookup (sents h) k with Some v => v | None => d end)))
  | OIncludes i k => s_with hp i (fun h =>
      (hp, RBool match s_lookup (sents h) k with Some _ => true | None => false end))
  | OCompute i k v => s_with hp i (fun h => s_upd hp i (s_compute h k v))
  | OCopy i => s_with hp i (fun h => (hp ++ [mkS (sents h) false], RObj (length hp)))
  | OMerge i j => s_with hp i (fun h => s_with hp j (fun o =>
      match s_put_all (mkS (sents h) false) (sents o) with
      | (m, RUnit) => (hp ++ [m], RObj (length hp))
      | (_, r) => (hp, r)
      end))
  | OPutAll i j => s_with hp i (fun h => s_with hp j (fun o => s_upd hp i (s_put_all h (sents o))))
  | OFreeze i => s_with hp i (fun h => (shset hp i (mkS (sents h) true), RUnit))
  | OKeys i => s_with hp i (fun h => (hp, RKeys (map fst (sents h))))
  | OValues i => s_with hp i (fun h => (hp, RVals (map snd (sents h))))
  | OPairs i => s_with hp i (fun h => (hp, RPairs (sents h)))
  | OLen i => s_with hp i (fun h => (hp, RInt (Z.of_nat (length (sents h)))))
  | OEmpty i => s_with hp i (fun h => (hp, RBool (Nat.eqb (length (sents h)) 0)))
  | OIsFrozen i => s_with hp i (fun h => (hp, RBool (sfrozen h)))
  | OEquals i j => s_with hp i (fun h => s_with hp j (fun o => (hp, RBool (s_equals h o))))
  | OComputePanic i k => s_with hp i (fun h => s_upd hp i (s_compute_panic h k))
  | OComputePut i k v k2 v2 => s_with hp i (fun h => s_upd hp i (s_compute_put h k v k2 v2))
  end.

(* the histories of the refinement theorem: a re-entrant mapping function puts a key OTHER than the computed one *)
Definition op_ok (o : op) : bool :=
  match o with OComputePut _ k _ k2 _ => negb (str_eqb k k2) | _ => true end.
Definition ops_ok (ops : list op) : bool := forallb op_ok ops.

Fixpoint s_run (hp : sheap) (ops : list op) : sheap * list out :=
  match ops with
  | [] => (hp, [])
  | o :: r => let (hp', x) := s_step hp o in let (hp'', xs) := s_run hp' r in (hp'', x :: xs)
  end.

(* executable equality on outputs, for the correspondence files *)
Definition oval_eqb := option_eqb Z.eqb.
Definition pair_eqb (a b : str * val) := str_eqb (fst a) (fst b) && Z.eqb (snd a) (snd b).
Definition out_eqb (a b : out) : bool :=
  match a, b with
  | RUnit, RUnit | RFrozen, RFrozen | RFault, RFault | RBadObj, RBadObj | RPanic, RPanic => true
  | RObj n, RObj m => Nat.eqb n m
  | RVal x, RVal y => oval_eqb x y
  | RPut x b1, RPut y b2 => oval_eqb x y && Bool.eqb b1 b2
  | RBool x, RBool y => Bool.eqb x y
  | RInt x, RInt y => Z.eqb x y
  | RKeys x, RKeys y => list_eqb str_eqb x y
  | RVals x, RVals y => list_eqb Z.eqb x y
  | RPairs x, RPairs y => list_eqb pair_eqb x y
  | _, _ => false
  end.
