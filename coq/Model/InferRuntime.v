(* Runtime types (types/runtimetype.go) - leaf types with a SECOND IDENTITY behind their printed form.

   A Runtime type of the 'go' runtime (NewGoRuntimeType :99, the type WrapRuntime :260 gives a Go value) carries a
   reflect.Type next to its name, and the name is reflect.Type.String(), which is NOT unique among Go types
   (core/v1.Event and events/v1.Event are both "v1.Event").  The lattice model (Model/Lattice.v) has the Runtime types as
   the opaque `TOther "Runtime"`; this file models them on their own: the four fields, IsAssignable between two Runtime
   types, IsInstance of a Runtime value, the type of a wrapped Go value, commonType of two Runtime types and the fold of
   commonType that infers the element type of an array of Runtime values.

   reflect is an oracle: `gasg x y` = (reflect.Type x).AssignableTo(reflect.Type y), `tname x` = (reflect.Type x).String()
   (also what fmt's %T prints), Go types are numbered.  The code after fix 2ee6afd (pattern before empty name). *)
From Coq Require Import NArith Bool List.
From PcoreV Require Import Model.Base.
Import ListNotations.

(* runtimetype.go:14 RuntimeType{name, runtime, pattern, goType}; the pattern by its source text *)
Record rty := mkR { r_runtime : str; r_name : str; r_pat : option str; r_go : option N }.

Definition s_go : str := [103; 111]%N.   (* "go" *)

Definition opt_str_eqb (a b : option str) : bool :=
  match a, b with
  | Some x, Some y => str_eqb x y
  | None, None => true
  | _, _ => false
  end.

Definition rty_eqb (a b : rty) : bool :=
  str_eqb (r_runtime a) (r_runtime b) && str_eqb (r_name a) (r_name b) && opt_str_eqb (r_pat a) (r_pat b) &&
  match r_go a, r_go b with Some x, Some y => N.eqb x y | None, None => true | _, _ => false end.

Definition rt_default : rty := mkR [] [] None None.                 (* runtimeTypeDefault :26 *)

(* NewRuntimeType :51 for a runtime alone (what commonType builds): the default type when the runtime is empty *)
Definition rt_of_runtime (r : str) : rty := mkR r [] None None.

Section Runtime.
  Variable gasg : N -> N -> bool.    (* reflect: x.AssignableTo(y) *)
  Variable tname : N -> str.         (* reflect: x.String() *)

  (* RuntimeType.IsAssignable :164, o a *RuntimeType (any other o: false) *)
  Definition rt_asg (t o : rty) : bool :=
    match r_go t, r_go o with
    | Some g, Some h => gasg h g                                         (* :166 both have a reflect.Type *)
    | _, _ =>
      if str_eqb (r_runtime t) [] then true                              (* :169 *)
      else if negb (str_eqb (r_runtime t) (r_runtime o)) then false      (* :172 *)
      else match r_pat t with
           | Some p =>                                                    (* :175 the pattern first (fix 2ee6afd) *)
             str_eqb (r_name t) (r_name o) && match r_pat o with Some q => str_eqb p q | None => false end
           | None =>
             if str_eqb (r_name t) [] then true                          (* :179 *)
             else str_eqb (r_name t) (r_name o)                          (* :182 *)
           end
    end.

  (* RuntimeType.IsInstance :189, o a *RuntimeValue wrapping a Go value of type v (any other o: false) *)
  Definition rt_inst (t : rty) (v : N) : bool :=
    match r_go t with
    | Some g => gasg v g                                                  (* :194 *)
    | None =>
      if str_eqb (r_runtime t) [] then true                               (* :197 *)
      else if negb (str_eqb (r_runtime t) s_go) || (match r_pat t with Some _ => true | None => false end) then false  (* :200 *)
      else if str_eqb (r_name t) [] then true                             (* :203 *)
      else str_eqb (r_name t) (tname v)                                   (* :206 %T *)
    end.

  (* WrapRuntime :260: the type of a wrapped Go value (its PType and its detailed type) *)
  Definition rt_of (v : N) : rty := mkR s_go (tname v) None (Some v).

  (* commonType, commonality.go:19-24 and the *RuntimeType arm :117 *)
  Definition rt_common (a b : rty) : rty :=
    if rt_asg a b then a
    else if rt_asg b a then b
    else if str_eqb (r_runtime a) (r_runtime b) then rt_of_runtime (r_runtime a)
    else rt_default.

  (* Array.privateReducedType arraytype.go:800: the element type of [v; vs...] *)
  Definition rt_fold (t : rty) (vs : list N) : rty := fold_left (fun t v => rt_common t (rt_of v)) vs t.

  Definition rt_elem (vs : list N) : option rty :=
    match vs with
    | [] => None                                                           (* EmptyArrayType: Unit *)
    | v :: vs' => Some (rt_fold (rt_of v) vs')
    end.

  (* what the constructors guarantee: a type with a reflect.Type is of the 'go' runtime, named by the reflect.Type,
     without pattern (NewGoRuntimeType, WrapRuntime; reflect prints no type as the empty string); a type of the 'go' runtime without reflect.Type has no name
     (NewRuntimeType :55 reports GoRuntimeTypeWithoutGoType) *)
  Definition rwf (t : rty) : bool :=
    match r_go t with
    | Some g => str_eqb (r_runtime t) s_go && str_eqb (r_name t) (tname g) && match r_pat t with None => true | Some _ => false end &&
                negb (str_eqb (tname g) [])
    | None => negb (str_eqb (r_runtime t) s_go) || str_eqb (r_name t) []
    end.
End Runtime.
