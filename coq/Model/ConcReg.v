(* C13 - the lists of pending declarations and pcore.Do / RootContext.

   Go code mirrored (tree after fix c862d91):
     types/types.go       registerResolvableType :551, registerMapping :557, registerGoConstructor :537,
                          PopDeclaredTypes :507, PopDeclaredMappings :517, PopDeclaredConstructors :527
                          (one critical section of resolvableTypesLock each: the list is handed out and REPLACED BY A
                          NEW EMPTY ONE, so that what was handed out is private to the caller)
     internal/context.go  px.RegisterGoFunction :42, popDeclaredGoFunctions (resolvableFunctionsLock),
                          resolveResolvables :174 (under resolveLock, released by a deferred Unlock)
     internal/runtime.go  Do / DoWithParent :240-258 (ResolveResolvables, then the function)

   Threads are lists of operations: declare an item, or pcore.Do(f) where f looks at every item that the thread has
   declared before.  A Do is cut at the yield points verifhook.Point("resolve.*") of resolveResolvables; a
   declaration is one step (the two appends of px.NewGoObjectType have no yield point between them). *)
From Coq Require Import NArith Arith Bool List.
From PcoreV Require Import Model.Conc.
Import ListNotations.

(* what is declared:
     KT px.NewObjectType                  KP px.RegisterResolvableType (a type whose Resolve succeeds)
     KX px.RegisterResolvableType of a type whose Resolve panics
     KG px.NewGoObjectType (a type and a mapping to a reflect.Type)
     KC px.NewGoConstructor               KF px.NewGoFunction *)
Inductive kind := KT | KP | KX | KG | KC | KF.
Definition item := (kind * nat)%type.

Definition kind_eqb (a b : kind) : bool :=
  match a, b with
  | KT, KT | KP, KP | KX, KX | KG, KG | KC, KC | KF, KF => true
  | _, _ => false
  end.
Definition item_eqb (a b : item) : bool := kind_eqb (fst a) (fst b) && Nat.eqb (snd a) (snd b).

Definition mem (x : item) (l : list item) : bool := existsb (item_eqb x) l.

(* the four lists: 0 resolvableTypes, 1 resolvableMappings, 2 constructorsDecls, 3 resolvableFunctions *)
Definition goes_to (x : item) (l : nat) : bool :=
  match fst x, l with
  | (KT | KP | KX | KG), 0 => true
  | KG, 1 => true
  | KC, 2 => true
  | KF, 3 => true
  | _, _ => false
  end.
(* the list whose processing makes the item usable *)
Definition home (x : item) : nat :=
  match fst x with KC => 2 | KF => 3 | _ => 0 end.

Inductive rop := RDecl (x : item) | RDo.

Inductive rres :=
| RRDeclared
| RRDone (obs : list (item * bool))   (* the function of the Do ran: per item declared before by this thread, is it usable? *)
| RRPanic.                            (* the Do escaped with the panic of a Resolve *)

Inductive rev :=
| EvR (t : tid) (o : rop) (r : rres)
| EvProc (t : tid) (l : nat) (x : item).   (* thread t took x from list l and processed it (resolved the type, registered
                                              the mapping, bound the constructor / function) *)

Record rshared := mkRS {
  pend : nat -> list item;      (* the four pending lists *)
  r_lock : option tid;          (* resolveLock *)
  r_bound : list item;          (* types bound in the shared loader (context.go:177), resolved or not *)
  r_done : list item            (* resolved types, bound constructors, bound functions *)
}.

Definition rinit_shared : rshared := mkRS (fun _ => []) None [] [].

Definition append_item (f : nat -> list item) (x : item) : nat -> list item :=
  fun l => if goes_to x l then f l ++ [x] else f l.
Definition clear (f : nat -> list item) (l : nat) : nat -> list item :=
  fun l' => if Nat.eqb l' l then [] else f l'.

(* where the thread is parked inside resolveResolvables; mine: the mappings registered in the context of this Do *)
Inductive rpc :=
| QIdle
| QBeforeLock                                              (* "resolve.before-lock" *)
| QTypes (ts : list item)                                  (* "resolve.popped-types" *)
| QMapping (ts ms mine : list item)                        (* "resolve.mapping": about to register the head of ms *)
| QBound (ts mine : list item)                             (* "resolve.bound": about to resolve ts *)
| QCtors (cs mine : list item)                             (* "resolve.popped-constructors" *)
| QFuns (fs mine : list item).                             (* "resolve.popped-functions" *)

Record rthread := mkRT { q_pc : rpc; q_todo : list rop; q_own : list item }.

(* resolveTypes context.go:242: the types are resolved in order; the first one that cannot be resolved ends it *)
Fixpoint resolve_prefix (ts : list item) : list item * bool :=
  match ts with
  | [] => ([], false)
  | x :: ts' =>
      match fst x with
      | KX => ([x], true)                      (* its Resolve is called, and panics *)
      | _ => let '(r, failed) := resolve_prefix ts' in (x :: r, failed)
      end
  end.

(* what the function of a Do sees of an item that its thread declared *)
Definition look (sh : rshared) (mine : list item) (x : item) : bool :=
  match fst x with
  | KX => false
  | KG => mem x (r_done sh) && mem x mine
  | _ => mem x (r_done sh)
  end.

Definition procs (t : tid) (l : nat) (xs : list item) : list rev := map (EvProc t l) xs.

Definition after_maps (ts ms mine : list item) : rpc :=
  match ms with [] => QBound ts mine | _ => QMapping ts ms mine end.

(* the segment that starts at q; None: blocked *)
Definition rseg (sh : rshared) (t : tid) (own : list item) (q : rpc) : option (rshared * (rpc * list rev)) :=
  match q with
  | QIdle => None
  | QBeforeLock =>                                          (* Lock :175, PopDeclaredTypes :179 *)
      match r_lock sh with
      | Some _ => None
      | None => Some (mkRS (clear (pend sh) 0) (Some t) (r_bound sh) (r_done sh), (QTypes (pend sh 0), []))
      end
  | QTypes ts =>                                            (* SetEntry loop :181, PopDeclaredMappings :185 *)
      Some (mkRS (clear (pend sh) 1) (r_lock sh) (r_bound sh ++ ts) (r_done sh), (after_maps ts (pend sh 1) [], []))
  | QMapping ts ms mine =>                                  (* RegisterType :187 *)
      match ms with
      | [] => Some (sh, (QBound ts mine, []))
      | m :: ms' => Some (sh, (after_maps ts ms' (m :: mine), [EvProc t 1 m]))
      end
  | QBound ts mine =>                                       (* resolveTypes :191, PopDeclaredConstructors :193 *)
      let '(res, failed) := resolve_prefix ts in
      if failed
      then (* the panic leaves through the deferred Unlock :176 and through Do *)
           Some (mkRS (pend sh) None (r_bound sh) (r_done sh ++ res), (QIdle, procs t 0 res ++ [EvR t RDo RRPanic]))
      else Some (mkRS (clear (pend sh) 2) (r_lock sh) (r_bound sh) (r_done sh ++ res), (QCtors (pend sh 2) mine, procs t 0 res))
  | QCtors cs mine =>                                       (* :195-198, popDeclaredGoFunctions :200 *)
      Some (mkRS (clear (pend sh) 3) (r_lock sh) (r_bound sh) (r_done sh ++ cs), (QFuns (pend sh 3) mine, procs t 2 cs))
  | QFuns fs mine =>                                        (* :202-204, Unlock, then the function of the Do *)
      let sh' := mkRS (pend sh) None (r_bound sh) (r_done sh ++ fs) in
      Some (sh', (QIdle, procs t 3 fs ++ [EvR t RDo (RRDone (map (fun x => (x, look sh' mine x)) own))]))
  end.

Record rstate := mkRSt { rs_sh : rshared; rs_thr : tid -> rthread; rs_log : list rev }.

Definition rprog := list (list rop).

Definition rinit (p : rprog) : rstate :=
  mkRSt rinit_shared (fun t => mkRT QIdle (nth t p []) []) [].

Definition rstep (st : rstate) (t : tid) : rstate :=
  let th := rs_thr st t in
  let sh := rs_sh st in
  match q_pc th with
  | QIdle =>
      match q_todo th with
      | [] => st
      | RDecl x :: todo =>
          mkRSt (mkRS (append_item (pend sh) x) (r_lock sh) (r_bound sh) (r_done sh))
                (upd1 (rs_thr st) t (mkRT QIdle todo (q_own th ++ [x])))
                (rs_log st ++ [EvR t (RDecl x) RRDeclared])
      | RDo :: todo =>
          mkRSt sh (upd1 (rs_thr st) t (mkRT QBeforeLock todo (q_own th))) (rs_log st)
      end
  | q =>
      match rseg sh t (q_own th) q with
      | None => st
      | Some (sh', (q', evs)) => mkRSt sh' (upd1 (rs_thr st) t (mkRT q' (q_todo th) (q_own th))) (rs_log st ++ evs)
      end
  end.

Definition rexec (p : rprog) (s : sched) : rstate := fold_left rstep s (rinit p).
Definition rtrace (p : rprog) (s : sched) : list rev := rs_log (rexec p s).

(* ---- observables ------------------------------------------------------------------------------------------- *)

Fixpoint rresults_of (t : tid) (log : list rev) : list rres :=
  match log with
  | [] => []
  | EvR t' _ r :: log' => if Nat.eqb t' t then r :: rresults_of t log' else rresults_of t log'
  | _ :: log' => rresults_of t log'
  end.

(* how often item x was taken from list l and processed *)
Fixpoint nproc (l : nat) (x : item) (log : list rev) : nat :=
  match log with
  | [] => 0
  | EvProc _ l' x' :: log' => (if Nat.eqb l' l && item_eqb x' x then 1 else 0) + nproc l x log'
  | _ :: log' => nproc l x log'
  end.

(* how often item x has been declared *)
Fixpoint ndecl (x : item) (log : list rev) : nat :=
  match log with
  | [] => 0
  | EvR _ (RDecl x') _ :: log' => (if item_eqb x' x then 1 else 0) + ndecl x log'
  | _ :: log' => ndecl x log'
  end.

(* the types that thread t resolved (list 0) *)
Fixpoint resolved_by (t : tid) (log : list rev) : list item :=
  match log with
  | [] => []
  | EvProc t' 0 x :: log' => if Nat.eqb t' t then x :: resolved_by t log' else resolved_by t log'
  | _ :: log' => resolved_by t log'
  end.

Definition renabled (st : rstate) (t : tid) : bool :=
  let th := rs_thr st t in
  match q_pc th with
  | QIdle => match q_todo th with [] => false | _ => true end
  | q => match rseg (rs_sh st) t (q_own th) q with None => false | Some _ => true end
  end.

Fixpoint rall_done (st : rstate) (k : nat) : bool :=
  match k with
  | 0 => true
  | S k' => (match q_pc (rs_thr st k'), q_todo (rs_thr st k') with QIdle, [] => true | _, _ => false end) && rall_done st k'
  end.
