(* Lexer.v — model of utils/reader.go (StringReader) and types/lexer.go (nextToken and the consume* scanners),
   as the code is after the fix: commits 2a1370d, b03068e, a1e6cec, 29fe304.

   Definitions only.  One Gallina function per Go function, same order of tests, Go file:line in the comment.
   Loops are recursion on an explicit fuel with result LOutOfFuel; a panic(error) of the lexer is LErr with the
   reader at the time of the panic (the parse error location is taken from it, parser.go:146); LFault is the
   class "Go runtime fault".  The reader and the lexer contain no unguarded index/slice expression and no type
   assertion (the only index, r.s[r.p], is under `r.p >= len(r.s)`, reader.go:19,46), so no function below has a
   branch that yields LFault: the constructor exists because the parser shares the result shape.

   Oracle: unicode.IsLetter on non-ASCII runes (lexer.go:193) is the argument `ol : N -> bool`. *)
From Coq Require Import ZArith NArith Bool List.
From PcoreV Require Import Model.Base.
Import ListNotations.
Open Scope N_scope.

(* ------------------------------------------------------------------------------------------------ *)
(* unicode/utf8 *)

Definition RuneError : N := 65533.      (* utf8.RuneError = U+FFFD *)

Definition in_rng (lo hi b : N) : bool := (lo <=? b) && (b <=? hi).
Definition is_cont (b : N) : bool := in_rng 128 191 b.      (* locb..hicb *)

(* utf8.DecodeRuneInString: (rune, size).  An invalid or truncated sequence is (RuneError, 1); empty is (RuneError, 0).
   first[] table: 00-7F ASCII; 80-C1, F5-FF invalid; C2-DF two bytes; E0-EF three (E0: second byte A0-BF,
   ED: second byte 80-9F); F0-F4 four (F0: second byte 90-BF, F4: second byte 80-8F). *)
Definition decode_rune (bs : list N) : N * nat :=
  match bs with
  | [] => (RuneError, 0%nat)
  | b0 :: t =>
    if b0 <? 128 then (b0, 1%nat)
    else if (b0 <? 194) || (244 <? b0) then (RuneError, 1%nat)
    else if b0 <? 224 then
      match t with
      | b1 :: _ =>
        if is_cont b1 then ((b0 mod 32) * 64 + b1 mod 64, 2%nat) else (RuneError, 1%nat)
      | _ => (RuneError, 1%nat)
      end
    else if b0 <? 240 then
      match t with
      | b1 :: b2 :: _ =>
        if in_rng (if b0 =? 224 then 160 else 128) (if b0 =? 237 then 159 else 191) b1 then
          if is_cont b2 then ((b0 mod 16) * 4096 + (b1 mod 64) * 64 + b2 mod 64, 3%nat) else (RuneError, 1%nat)
        else (RuneError, 1%nat)
      | _ => (RuneError, 1%nat)
      end
    else
      match t with
      | b1 :: b2 :: b3 :: _ =>
        if in_rng (if b0 =? 240 then 144 else 128) (if b0 =? 244 then 143 else 191) b1 then
          if is_cont b2 then
            if is_cont b3 then ((b0 mod 8) * 262144 + (b1 mod 64) * 4096 + (b2 mod 64) * 64 + b3 mod 64, 4%nat)
            else (RuneError, 1%nat)
          else (RuneError, 1%nat)
        else (RuneError, 1%nat)
      | _ => (RuneError, 1%nat)
      end
  end.

(* utf8.ValidRune *)
Definition valid_rune (r : N) : bool := (r <? 55296) || ((57343 <? r) && (r <=? 1114111)).

(* utf8.EncodeRune / bytes.Buffer.WriteRune: an invalid rune is written as U+FFFD *)
Definition encode_rune (r : N) : list N :=
  if r <? 128 then [r]
  else if r <? 2048 then [192 + r / 64; 128 + r mod 64]
  else if negb (valid_rune r) then [239; 191; 189]
  else if r <? 65536 then [224 + r / 4096; 128 + (r / 64) mod 64; 128 + r mod 64]
  else [240 + r / 262144; 128 + (r / 4096) mod 64; 128 + (r / 64) mod 64; 128 + r mod 64].

(* utf8.RuneCountInString: every invalid byte counts as one rune.  The fuel is the length (each step drops >= 1 byte). *)
Fixpoint rune_count_fuel (n : nat) (bs : list N) : Z :=
  match n with
  | O => 0%Z
  | S n' =>
    match bs with
    | [] => 0%Z
    | _ => (1 + rune_count_fuel n' (skipn (snd (decode_rune bs)) bs))%Z
    end
  end.
Definition rune_count (bs : list N) : Z := rune_count_fuel (length bs) bs.

(* ------------------------------------------------------------------------------------------------ *)
(* utils/reader.go *)

(* StringReader{p,l,c,s} (reader.go:7): r_rest = s[p:] while p <= len(s); r_past: p = len(s)+1 (set by the first
   Next at the end, reader.go:20-23). *)
Record reader := mkReader { r_rest : list N; r_past : bool; r_line : Z; r_col : Z }.

(* NewStringReader, reader.go:14 *)
Definition new_reader (s : str) : reader := mkReader s false 1%Z 0%Z.

(* Next, reader.go:18-43 *)
Definition rd_next (rd : reader) : N * reader :=
  match r_rest rd with
  | [] =>                                                   (* r.p >= len(r.s) *)
    if r_past rd then (0, rd)
    else (0, mkReader [] true (r_line rd) (r_col rd + 1)%Z)   (* r.p == len: p++, c++ *)
  | b :: t =>
    if b <? 128 then                                        (* c < utf8.RuneSelf *)
      if b =? 10 then (b, mkReader t false (r_line rd + 1)%Z 1%Z)        (* l++; c = 0; c++ *)
      else (b, mkReader t false (r_line rd) (r_col rd + 1)%Z)
    else
      let '(c, size) := decode_rune (b :: t) in              (* an invalid byte is (RuneError, 1): stepped over *)
      (c, mkReader (skipn size (b :: t)) false (r_line rd) (r_col rd + 1)%Z)
  end.

(* Peek, reader.go:45-54 *)
Definition rd_peek (rd : reader) : N :=
  match r_rest rd with
  | [] => 0
  | b :: t => if b <? 128 then b else fst (decode_rune (b :: t))
  end.

(* ------------------------------------------------------------------------------------------------ *)
(* types/lexer.go *)

(* tokenType, lexer.go:16-34 *)
Inductive tkind :=
  | TEnd | TName | TIdent | TInteger | TFloat | TRegexp | TString
  | TLBracket | TRBracket | TLBrace | TRBrace | TLParen | TRParen | TComma | TDot | TRocket | TEqual.

Definition tkind_code (k : tkind) : nat :=
  match k with
  | TEnd => 0 | TName => 1 | TIdent => 2 | TInteger => 3 | TFloat => 4 | TRegexp => 5 | TString => 6
  | TLBracket => 7 | TRBracket => 8 | TLBrace => 9 | TRBrace => 10 | TLParen => 11 | TRParen => 12
  | TComma => 13 | TDot => 14 | TRocket => 15 | TEqual => 16
  end%nat.

Definition tkind_eqb (a b : tkind) : bool := Nat.eqb (tkind_code a) (tkind_code b).

(* token{s, i}, lexer.go:78 *)
Record token := mkToken { tk_kind : tkind; tk_text : str }.

Inductive lres (A : Type) :=
  | LOk (a : A) (rd : reader)
  | LErr (rd : reader)          (* panic(error): the reader as it stands when the lexer gives up *)
  | LFault                      (* Go runtime fault: no site in the reader/lexer *)
  | LOutOfFuel.
Arguments LOk {A} a rd.
Arguments LErr {A} rd.
Arguments LFault {A}.
Arguments LOutOfFuel {A}.

Definition is_digit (r : N) : bool := in_rng 48 57 r.                      (* '0'..'9' *)
Definition is_upper (r : N) : bool := in_rng 65 90 r.                      (* 'A'..'Z' *)
Definition is_lower (r : N) : bool := in_rng 97 122 r.                     (* 'a'..'z' *)
Definition is_hex (r : N) : bool := is_digit r || in_rng 65 70 r || in_rng 97 102 r.
Definition is_word (r : N) : bool := (r =? 95) || is_digit r || is_upper r || is_lower r.   (* '_' 0-9 A-Z a-z *)
(* unicode.IsLetter: ASCII decided here, everything else by the oracle *)
Definition is_letter (ol : N -> bool) (r : N) : bool :=
  if r <? 128 then is_upper r || is_lower r else ol r.

Definition hex_val (r : N) : N :=
  if is_digit r then r - 48 else if in_rng 65 70 r then r - 55 else r - 87.

Definition lmap {A B} (f : A -> B) (r : lres A) : lres B :=
  match r with
  | LOk a rd => LOk (f a) rd
  | LErr rd => LErr rd
  | LFault => LFault
  | LOutOfFuel => LOutOfFuel
  end.

(* consumeLineComment, lexer.go:165-174 *)
Fixpoint consume_line_comment (fuel : nat) (rd : reader) : lres unit :=
  match fuel with
  | O => LOutOfFuel
  | S f =>
    let '(r, rd1) := rd_next rd in
    if (r =? 0) || (r =? 10) then LOk tt rd1
    else if r =? RuneError then LErr rd1
    else consume_line_comment f rd1
  end.

(* consumeUnsignedInteger, lexer.go:176-200 *)
Fixpoint consume_unsigned_integer (ol : N -> bool) (fuel : nat) (rd : reader) (buf : str) : lres str :=
  match fuel with
  | O => LOutOfFuel
  | S f =>
    let r := rd_peek rd in
    if r =? RuneError then LErr rd
    else if r =? 0 then LOk buf rd                 (* end of input ends the number *)
    else if r =? 46 then LErr rd                   (* '.' *)
    else if is_digit r then
      let '(_, rd1) := rd_next rd in consume_unsigned_integer ol f rd1 (buf ++ encode_rune r)
    else if is_letter ol r then
      let '(_, rd1) := rd_next rd in LErr rd1
    else LOk buf rd
  end.

(* consumeExponent, lexer.go:202-221 (the `for` never iterates twice) *)
Definition consume_exponent (ol : N -> bool) (fuel : nat) (rd : reader) (buf : str) : lres str :=
  let '(r, rd1) := rd_next rd in
  if r =? 0 then LErr rd1
  else if (r =? 43) || (r =? 45) then              (* '+', '-' *)
    let buf1 := buf ++ encode_rune r in
    let '(r2, rd2) := rd_next rd1 in
    if is_digit r2 then consume_unsigned_integer ol fuel rd2 (buf1 ++ encode_rune r2)
    else LErr rd2
  else if is_digit r then consume_unsigned_integer ol fuel rd1 (buf ++ encode_rune r)
  else LErr rd1.

(* consumeHexInteger, lexer.go:223-238 *)
Fixpoint consume_hex_integer (fuel : nat) (rd : reader) (buf : str) : lres str :=
  match fuel with
  | O => LOutOfFuel
  | S f =>
    let r := rd_peek rd in
    if r =? 0 then LOk buf rd
    else if is_hex r then
      let '(_, rd1) := rd_next rd in consume_hex_integer f rd1 (buf ++ encode_rune r)
    else LOk buf rd
  end.

(* the `for` of consumeNumber, lexer.go:243-288; the recursive call of line 277 (after digits, a dot and a digit) is the same
   loop with t = float, firstZero = false and the digit written *)
Fixpoint consume_number_loop (ol : N -> bool) (fuel : nat) (rd : reader) (buf : str) (t : tkind) (first_zero : bool)
  : lres (str * tkind) :=
  match fuel with
  | O => LOutOfFuel
  | S f =>
    let r := rd_peek rd in
    if r =? 0 then LOk (buf, t) rd
    else if r =? 48 then                                             (* '0' *)
      let '(_, rd1) := rd_next rd in consume_number_loop ol f rd1 (buf ++ encode_rune r) t first_zero
    else if (r =? 101) || (r =? 69) then                             (* 'e', 'E' *)
      let '(_, rd1) := rd_next rd in
      lmap (fun b => (b, TFloat)) (consume_exponent ol f rd1 (buf ++ encode_rune r))
    else if (r =? 120) || (r =? 88) then                             (* 'x', 'X' *)
      if first_zero then
        let '(_, rd1) := rd_next rd in
        let buf1 := buf ++ encode_rune r in
        let '(r2, rd2) := rd_next rd1 in
        if is_hex r2 then
          lmap (fun b => (b, t)) (consume_hex_integer f rd2 (buf1 ++ encode_rune r2))
        else LErr rd2
      else LErr rd
    else if r =? 46 then                                             (* '.' *)
      if tkind_eqb t TFloat then LErr rd
      else
        let '(_, rd1) := rd_next rd in
        let buf1 := buf ++ encode_rune r in
        let '(r2, rd2) := rd_next rd1 in
        if is_digit r2 then consume_number_loop ol f rd2 (buf1 ++ encode_rune r2) TFloat false
        else LErr rd2
    else if is_digit r then
      let '(_, rd1) := rd_next rd in consume_number_loop ol f rd1 (buf ++ encode_rune r) t first_zero
    else LOk (buf, t) rd
  end.

(* consumeNumber, lexer.go:240-242 *)
Definition consume_number (ol : N -> bool) (fuel : nat) (rd : reader) (start : N) (buf : str) (t : tkind)
  : lres (str * tkind) :=
  consume_number_loop ol fuel rd (buf ++ encode_rune start) t (negb (tkind_eqb t TFloat) && (start =? 48)).

(* consumeRegexp, lexer.go:291-319 *)
Fixpoint consume_regexp (fuel : nat) (rd : reader) (buf : str) : lres str :=
  match fuel with
  | O => LOutOfFuel
  | S f =>
    let '(r, rd1) := rd_next rd in
    if r =? RuneError then LErr rd1
    else if r =? 47 then LOk buf rd1                                 (* '/' *)
    else if r =? 92 then                                             (* '\\' *)
      let '(r2, rd2) := rd_next rd1 in
      if (r2 =? 0) || (r2 =? 10) then LErr rd2
      else if r2 =? RuneError then LErr rd2
      else if r2 =? 47 then consume_regexp f rd2 (buf ++ encode_rune r2)          (* the escape is removed *)
      else consume_regexp f rd2 ((buf ++ [92]) ++ encode_rune r2)
    else if (r =? 0) || (r =? 10) then LErr rd1
    else consume_regexp f rd1 (buf ++ encode_rune r)
  end.

(* the digit loop of consumeUnicodeEscape, lexer.go:372-377; digits is the list of digit characters read *)
Fixpoint unicode_digits (fuel : nat) (rd : reader) (digits : list N) : lres (list N) :=
  match fuel with
  | O => LOutOfFuel
  | S f =>
    let '(r, rd1) := rd_next rd in
    if r =? 125 then LOk digits rd1                                  (* '}' *)
    else if negb (is_hex r) || Nat.eqb (length digits) 6 then LErr rd1
    else unicode_digits f rd1 (digits ++ [r])
  end.

(* consumeUnicodeEscape, lexer.go:366-383.  strconv.ParseUint(digits, 16, 32) fails exactly on the empty string
   here (at most six hexadecimal digits). *)
Definition consume_unicode_escape (fuel : nat) (rd : reader) : lres N :=
  let '(r, rd1) := rd_next rd in
  if negb (r =? 123) then LErr rd1                                   (* '{' *)
  else
    match unicode_digits fuel rd1 [] with
    | LOk digits rd2 =>
      match digits with
      | [] => LErr rd2
      | _ =>
        let v := fold_left (fun acc d => acc * 16 + hex_val d) digits 0 in
        if valid_rune v then LOk v rd2 else LErr rd2
      end
    | LErr rd2 => LErr rd2
    | LFault => LFault
    | LOutOfFuel => LOutOfFuel
    end.

(* consumeString, lexer.go:321-362 *)
Fixpoint consume_string (fuel : nat) (rd : reader) (end_ : N) (buf : str) : lres str :=
  match fuel with
  | O => LOutOfFuel
  | S f =>
    let '(r, rd1) := rd_next rd in
    if r =? end_ then LOk buf rd1
    else if r =? 0 then LErr rd1
    else if r =? RuneError then LErr rd1
    else if r =? 92 then                                             (* '\\' *)
      let '(r2, rd2) := rd_next rd1 in
      if r2 =? 0 then LErr rd2
      else if r2 =? RuneError then LErr rd2
      else if r2 =? 110 then consume_string f rd2 end_ (buf ++ encode_rune 10)    (* \n *)
      else if r2 =? 114 then consume_string f rd2 end_ (buf ++ encode_rune 13)    (* \r *)
      else if r2 =? 116 then consume_string f rd2 end_ (buf ++ encode_rune 9)     (* \t *)
      else if r2 =? 117 then                                                      (* \u{X} *)
        match consume_unicode_escape f rd2 with
        | LOk v rd3 => consume_string f rd3 end_ (buf ++ encode_rune v)
        | LErr rd3 => LErr rd3
        | LFault => LFault
        | LOutOfFuel => LOutOfFuel
        end
      else if (r2 =? 92) || (r2 =? 36) then consume_string f rd2 end_ (buf ++ encode_rune r2)   (* \\ \$ *)
      else if negb (r2 =? end_) then LErr rd2
      else consume_string f rd2 end_ (buf ++ encode_rune r2)
    else if r =? 10 then LErr rd1
    else consume_string f rd1 end_ (buf ++ encode_rune r)
  end.

(* the shared loop of consumeIdentifier (lexer.go:385-414, upper = false: after `::` a lower case letter or '_')
   and consumeTypeName (lexer.go:416-445, upper = true: after `::` an upper case letter) *)
Fixpoint consume_word_loop (upper : bool) (fuel : nat) (rd : reader) (buf : str) : lres str :=
  match fuel with
  | O => LOutOfFuel
  | S f =>
    let r := rd_peek rd in
    if r =? 0 then LOk buf rd
    else if r =? 58 then                                             (* ':' *)
      let '(_, rd1) := rd_next rd in
      let buf1 := buf ++ encode_rune r in
      let '(r2, rd2) := rd_next rd1 in
      if r2 =? 58 then
        let buf2 := buf1 ++ encode_rune r2 in
        let '(r3, rd3) := rd_next rd2 in
        if (if upper then is_upper r3 else is_lower r3 || (r3 =? 95)) then
          consume_word_loop upper f rd3 (buf2 ++ encode_rune r3)
        else LErr rd3
      else LErr rd2
    else if is_word r then
      let '(_, rd1) := rd_next rd in consume_word_loop upper f rd1 (buf ++ encode_rune r)
    else LOk buf rd
  end.

Definition consume_identifier (fuel : nat) (rd : reader) (start : N) (buf : str) : lres str :=
  consume_word_loop false fuel rd (buf ++ encode_rune start).
Definition consume_type_name (fuel : nat) (rd : reader) (start : N) (buf : str) : lres str :=
  consume_word_loop true fuel rd (buf ++ encode_rune start).

(* nextToken, lexer.go:91-163 *)
Fixpoint next_token (ol : N -> bool) (fuel : nat) (rd : reader) : lres token :=
  match fuel with
  | O => LOutOfFuel
  | S f =>
    let '(r, rd1) := rd_next rd in
    if r =? RuneError then LErr rd1
    else if r =? 0 then LOk (mkToken TEnd []) rd1
    else if (r =? 32) || (r =? 9) || (r =? 10) then next_token ol f rd1            (* ' ', '\t', '\n' *)
    else if r =? 35 then                                                           (* '#' *)
      match consume_line_comment f rd1 with
      | LOk _ rd2 => next_token ol f rd2
      | LErr rd2 => LErr rd2
      | LFault => LFault
      | LOutOfFuel => LOutOfFuel
      end
    else if (r =? 39) || (r =? 34) then                                            (* single quote, double quote *)
      lmap (mkToken TString) (consume_string f rd1 r [])
    else if r =? 47 then lmap (mkToken TRegexp) (consume_regexp f rd1 [])          (* '/' *)
    else if r =? 123 then LOk (mkToken TLBrace [123]) rd1
    else if r =? 125 then LOk (mkToken TRBrace [125]) rd1
    else if r =? 91 then LOk (mkToken TLBracket [91]) rd1
    else if r =? 93 then LOk (mkToken TRBracket [93]) rd1
    else if r =? 40 then LOk (mkToken TLParen [40]) rd1
    else if r =? 41 then LOk (mkToken TRParen [41]) rd1
    else if r =? 44 then LOk (mkToken TComma [44]) rd1
    else if r =? 46 then LOk (mkToken TDot [46]) rd1
    else if r =? 61 then                                                           (* '=' *)
      if rd_peek rd1 =? 62 then let '(_, rd2) := rd_next rd1 in LOk (mkToken TRocket [61; 62]) rd2
      else LOk (mkToken TEqual [61]) rd1
    else if (r =? 45) || (r =? 43) then                                            (* '-', '+' *)
      let '(n, rd2) := rd_next rd1 in
      if (n <? 48) || (57 <? n) then LErr rd2
      else lmap (fun bt => mkToken (snd bt) (fst bt)) (consume_number ol f rd2 n (encode_rune r) TInteger)
    else if is_digit r then
      lmap (fun bt => mkToken (snd bt) (fst bt)) (consume_number ol f rd1 r [] TInteger)
    else if is_upper r then lmap (mkToken TName) (consume_type_name f rd1 r [])
    else if is_lower r then lmap (mkToken TIdent) (consume_identifier f rd1 r [])
    else LErr rd1
  end.

(* ------------------------------------------------------------------------------------------------ *)
(* The token stream of a whole input: what the parser reads through parser.nextToken (parser.go:154), up to and
   including the first end token, or up to the point where the lexer gives up.  Every token carries the reader's
   line and column right after it (the parser computes error locations from them, parser.go:146-152). *)

Record ptok := mkPtok { pt_kind : tkind; pt_text : str; pt_line : Z; pt_col : Z }.

Inductive lex_end :=
  | EEnd                                  (* the stream ends with an end token *)
  | ELexErr (line col : Z)                (* the lexer panicked with an error, reader at (line, col) *)
  | ELexFault
  | ELexOutOfFuel.

Fixpoint lex_all (ol : N -> bool) (fuel : nat) (rd : reader) : list ptok * lex_end :=
  match fuel with
  | O => ([], ELexOutOfFuel)
  | S f =>
    match next_token ol (S f) rd with
    | LOk t rd1 =>
      let p := mkPtok (tk_kind t) (tk_text t) (r_line rd1) (r_col rd1) in
      match tk_kind t with
      | TEnd => ([p], EEnd)
      | _ => let '(ps, e) := lex_all ol f rd1 in (p :: ps, e)
      end
    | LErr rd1 => ([], ELexErr (r_line rd1) (r_col rd1))
    | LFault => ([], ELexFault)
    | LOutOfFuel => ([], ELexOutOfFuel)
    end
  end.

(* the fuel that suffices for every input (Proofs/LexerProofs.v: lex_terminates) *)
Definition lex_fuel (s : str) : nat := (length s + 2)%nat.

Definition lex (ol : N -> bool) (s : str) : list ptok * lex_end := lex_all ol (lex_fuel s) (new_reader s).

(* ------------------------------------------------------------------------------------------------ *)
(* "line and column lie within the input" (property C06), stated independently of the reader:
   lines count from 1 and there are 1 + (number of line feeds) of them; the column counts the characters read on
   the line, where on every line after the first the line feed that ended the previous line counts as one column
   (reader.go:29-33) and reading the end of the input counts as one more (reader.go:20-23): at most the length of
   the line + 1 on the first line, + 2 on the others. *)

Fixpoint count_nl (s : str) : Z :=
  match s with
  | [] => 0%Z
  | b :: t => ((if N.eqb b 10 then 1 else 0) + count_nl t)%Z
  end.

(* the number of bytes of line l (from 1) of s, without its line feed; 0 when there is no such line *)
Fixpoint line_len (s : str) (l : Z) : Z :=
  match s with
  | [] => 0%Z
  | b :: t =>
    if b =? 10 then (if (l =? 1)%Z then 0%Z else line_len t (l - 1)%Z)
    else (if (l =? 1)%Z then (1 + line_len t 1)%Z else line_len t l)
  end.

Definition pos_within (s : str) (line col : Z) : Prop :=
  (1 <= line <= 1 + count_nl s)%Z /\ (0 <= col <= line_len s line + 1 + (if (1 <? line)%Z then 1 else 0))%Z.
