(* Model of the sprintf style entry points of the formatter: types.PuppetSprintf / types.PuppetFprintf
   (types/format.go:736-746), both of which are `fprintf` (types/format.go:748-851) over the
   `stringReader` (types/format.go:710-732).

   fprintf walks the format text rune by rune with a one rune look-ahead (c, ok).  The model is the
   same walk written as a state machine that takes one rune per step: the mode says which loop of the
   Go function the walk is in.  The format text is first cut into runes (`runes`); a rune is carried as
   its UTF-8 bytes (utils.WriteRune / bytes.Buffer.WriteRune write those bytes back).  The reader's
   explicit panic on utf8.RuneError (format.go:727-728: an invalid or truncated sequence, and the
   encoding EF BF BD of U+FFFD itself) ends the rune list with `None`.

   Every directive met is rendered with a context of its own: px.NewFormatContext3(value, directive)
   and px.ToString4 (format.go:766-770) - `sp_apply`, built from the very `context_of` and `render` that
   make up `format_value` (Model/Format.v).  The oracle tables depend on the top value of a rendering,
   so a call carries one table per directive, in the order of application. *)
From Coq Require Import ZArith NArith Bool Lia List.
From PcoreV Require Import Model.Base Model.Format.
Import ListNotations.
Open Scope Z_scope.

Inductive sp_err :=
| SpFormat (e : err)        (* a panic of ToString4 passes through (the unsupported-format issue, ...) *)
| SpIllegalArgument         (* illegalArgument(callerName, 1, ..): no context for the directive (format.go:768), key not found (:845) *)
| SpIllegalArguments        (* illegalArguments(callerName, ..): mixed forms (:806, :817), unbalanced (:809), no hash (:825), unterminated (:849) *)
| SpBadRune                 (* panic(`invalid unicode character`), stringReader.Next (:728) *)
| SpFuel                    (* mergeFormats / render out of fuel (never: format_total) *)
| SpOracle.                 (* fewer oracle tables than directives (never observed) *)

Inductive sp_res := SpText (s : str) | SpErr (e : sp_err).

Definition rune := str.

(* stringReader.Next over the whole text: the runes in order; `skip` = bytes of the current rune still to pass *)
Fixpoint runes (skip : nat) (s : str) : list (option rune) :=
  match s with
  | [] => []
  | b :: r =>
    match skip with
    | S k => runes k r
    | O =>
      if N.ltb b 128 then Some [b] :: runes 0 r                          (* format.go:722 *)
      else match rune_width s with                                        (* utf8.DecodeRuneInString :726 *)
           | S (S k) => let ru := firstn (S (S k)) s in
                        if str_eqb ru [239; 191; 189]%N then [None]       (* U+FFFD == utf8.RuneError :727 *)
                        else Some ru :: runes (S k) r
           | _ => [None]                                                  (* invalid encoding: RuneError, width 1 *)
           end
    end
  end.

(* px.NewFormatContext3(v, spec) + px.ToString4(v, ctx, buf) (format.go:766-770); FDefault = the context
   types.None of the %{key} form (format.go:839, :169) *)
Definition sp_apply (o : oracle) (v : value) (spec : fspec) : sp_res :=
  match context_of spec with
  | None => SpErr SpFuel
  | Some (RErr _) => SpErr SpIllegalArgument
  | Some (ROk m) =>
    match render (S (vdepth v)) o default_indentation m false v with
    | None => SpErr SpFuel
    | Some (RErr e) => SpErr (SpFormat e)
    | Some (ROk t) => SpText t
    end
  end.

(* one directive applied: takes the next oracle table, appends the text *)
Definition sp_directive (os : list oracle) (v : value) (spec : fspec) (out : str) : sp_err + (list oracle * str) :=
  match os with
  | [] => inl SpOracle
  | o :: os' => match sp_apply o v spec with
                | SpText t => inr (os', out ++ t)
                | SpErr e => inl e
                end
  end.

Inductive sp_mode :=
| MText                              (* the main loop at `for ok` (format.go:779) *)
| MPercent                           (* '%' was read (format.go:786) *)
| MPattern (v : value) (acc : str)   (* inside consumeAndApplyPattern(v), `acc` = f so far (format.go:756-765) *)
| MKey (b : N) (acc : str).          (* scanning the key after %< or %{ (format.go:829-848) *)

Definition is_pct (r : rune) : bool := str_eqb r [37%N].
Definition rune_letter (r : rune) : bool := match r with [c] => is_letter c | _ => false end.
Definition key_open (r : rune) : option N :=
  if str_eqb r [123%N] then Some 125%N else if str_eqb r [60%N] then Some 62%N else None.

(* hashArg = args[0] asserted to be a Hash when len(args) == 1 (format.go:821-823) *)
Definition hash_arg (args : list value) : option (list (value * value)) :=
  match args with [VHash es] => Some es | _ => None end.

(* the look-ahead read that precedes the application of a directive (format.go:761, :837) *)
Definition next_bad (rs : list (option rune)) : bool :=
  match rs with None :: _ => true | _ => false end.

Fixpoint sp_run (rs : list (option rune)) (args : list value) (md : sp_mode) (pos : nat) (keyed : bool)
         (os : list oracle) (out : str) {struct rs} : sp_res :=
  match rs with
  | [] =>                                                  (* ok == false *)
    match md with
    | MText => SpText out
    | MPercent =>                                          (* c == 0, e == 0: positional, the pattern is "%" *)
      if keyed then SpErr SpIllegalArguments
      else match nth_error args pos with
           | None => SpErr SpIllegalArguments
           | Some v => match sp_directive os v (FStr [37%N]) out with
                       | inl e => SpErr e
                       | inr (_, out') => SpText out'
                       end
           end
    | MPattern v acc => match sp_directive os v (FStr acc) out with
                        | inl e => SpErr e
                        | inr (_, out') => SpText out'
                        end
    | MKey _ _ => SpErr SpIllegalArguments                 (* unterminated %< / %{ (:849) *)
    end
  | None :: _ => SpErr SpBadRune
  | Some c :: rs' =>
    (* one round of the loop of consumeAndApplyPattern(v) with f = acc and the rune c (format.go:758-770) *)
    let pattern := fun (v : value) (acc : str) (pos' : nat) =>
      let acc' := acc ++ c in
      if rune_letter c then
        if next_bad rs' then SpErr SpBadRune
        else match sp_directive os v (FStr acc') out with
             | inl e => SpErr e
             | inr (os', out') => sp_run rs' args MText pos' keyed os' out'
             end
      else sp_run rs' args (MPattern v acc') pos' keyed os out in
    match md with
    | MText =>
      if is_pct c then sp_run rs' args MPercent pos keyed os out         (* :780, :786 *)
      else sp_run rs' args MText pos keyed os (out ++ c)                  (* :781 *)
    | MPercent =>
      if is_pct c then sp_run rs' args MText pos keyed os (out ++ c)      (* %% :787 *)
      else match key_open c with
           | None =>                                                      (* positional :802 *)
             if keyed then SpErr SpIllegalArguments                       (* :805 *)
             else match nth_error args pos with
                  | None => SpErr SpIllegalArguments                      (* :808 *)
                  | Some v => pattern v [37%N] (S pos)                    (* :811-812 *)
                  end
           | Some _ =>
             if (0 <? pos)%nat then SpErr SpIllegalArguments              (* :816 *)
             else if keyed then sp_run rs' args (MKey (hd 0%N c) []) pos true os out
             else match hash_arg args with                                (* :820-826 *)
                  | None => SpErr SpIllegalArguments
                  | Some _ => sp_run rs' args (MKey (hd 0%N c) []) pos true os out
                  end
           end
    | MPattern v acc => pattern v acc pos
    | MKey b acc =>
      let e := if N.eqb b 123 then 125%N else 62%N in
      if str_eqb c [e] then                                               (* :833 *)
        match hash_arg args with
        | None => SpErr SpIllegalArguments                                (* unreachable: keyed implies a hash *)
        | Some es =>
          match assoc value_eqb (VStr acc) es with                        (* hashArg.Get(key) :836 *)
          | None => SpErr SpIllegalArgument                               (* :845 *)
          | Some v =>
            if next_bad rs' then SpErr SpBadRune                          (* :837 *)
            else if N.eqb b 123 then
              match sp_directive os v FDefault out with                   (* :839 *)
              | inl e' => SpErr e'
              | inr (os', out') => sp_run rs' args MText pos keyed os' out'
              end
            else sp_run rs' args (MPattern v [37%N]) pos keyed os out     (* :841 *)
          end
        end
      else sp_run rs' args (MKey b (acc ++ c)) pos keyed os out           (* :847 *)
    end
  end.

(* types.PuppetSprintf(s, args...) / types.PuppetFprintf(buf, s, args...): the text written, or the panic *)
Definition sprintf (os : list oracle) (s : str) (args : list value) : sp_res :=
  sp_run (runes 0 s) args MText 0 false os [].
