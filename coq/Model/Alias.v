(* Alias.v — type aliases as a resolved indirection (C02).

   `ty` (Model/Ty.v) has no aliases.  `aty` adds the node  AAlias name body  (typealiastype.go: name,
   resolvedType) anywhere in member position: element / key / value / slot / member value / alternative /
   wrapped type.  `AT t` is a type without aliases inside.  Non-recursive aliases only (the body is a sub-term):
   for them the guard of TypeAliasType.IsInstance (typealiastype.go:139 g.Seen(t, o)) never fires, because
   Done (:143) removes the pair before the same alias can meet the same value again.

   instA mirrors, arm by arm, the IsInstance methods that can hold an alias in a parameter (same tests, same
   order as Lattice.inst) plus
       TypeAliasType.IsInstance (typealiastype.go:135)  =  GuardedIsInstance(t.ResolvedType(), o, g).
   Not covered: Type[Alias] (assignability of aliases is C01's business), aliases as Struct keys (impossible:
   structtype.go:53), recursive aliases. *)
From Coq Require Import ZArith NArith Bool List.
From PcoreV Require Import Model.Base Model.Ty Model.Lattice Model.Spec.
Import ListNotations.
Open Scope Z_scope.

Inductive aty :=
| AT (t : ty)
| AAlias (name : str) (body : aty)
| AArray (e : aty) (lo hi : Z)
| AHash (k v : aty) (lo hi : Z)
| ATuple (ts : list aty) (given : bool) (lo hi : Z)
| AStruct (ms : list (str * (ty * aty)))
| AVariant (ts : list aty)
| AOptional (t : aty) | ANotUndef (t : aty) | ASensitive (t : aty).

(* what the alias stands for: every alias replaced by its body *)
Fixpoint resolve (a : aty) : ty :=
  match a with
  | AT t => t
  | AAlias _ b => resolve b
  | AArray e lo hi => TArray (resolve e) lo hi
  | AHash k v lo hi => THash (resolve k) (resolve v) lo hi
  | ATuple ts g lo hi => TTuple (map resolve ts) g lo hi
  | AStruct ms => TStruct (map (fun m => (fst m, (fst (snd m), resolve (snd (snd m))))) ms)
  | AVariant ts => TVariant (map resolve ts)
  | AOptional t => TOptional (resolve t)
  | ANotUndef t => TNotUndef (resolve t)
  | ASensitive t => TSensitive (resolve t)
  end.

(* `t.typ == anyTypeDefault` (arraytype.go:221): pointer equality with the Any singleton — an alias of Any is not it *)
Definition is_anyA (a : aty) : bool := match a with AT TAny => true | _ => false end.

Section AliasInst.
  Variable rx : str -> str -> bool.

  Fixpoint instA (a : aty) (v : value) {struct a} : bool :=
    match a with
    | AT t => inst rx true t v
    | AAlias _ b => instA b v                                       (* typealiastype.go:142 *)
    | AArray e lo hi =>                                             (* arraytype.go:210 *)
        match v with
        | VArr vs => in_size lo hi (zlen vs) && (is_anyA e || forallb (instA e) vs)
        | _ => false
        end
    | AHash k x lo hi =>                                            (* hashtype.go IsInstance *)
        match v with
        | VHash es => in_size lo hi (zlen es) && forallb (fun e => instA k (fst e) && instA x (snd e)) es
        | _ => false
        end
    | ATuple ts _ lo hi =>                                          (* tupletype.go IsInstance *)
        match v with
        | VArr vs =>
            in_size lo hi (zlen vs) &&
            (fix walk (ts : list aty) (vs : list value) {struct ts} : bool :=
               match ts, vs with
               | [], _ => true
               | _, [] => true
               | [t], v :: vs' => instA t v && forallb (instA t) vs'
               | t :: ts', v :: vs' => instA t v && walk ts' vs'
               end) ts vs
        | _ => false
        end
    | AStruct ms =>                                                 (* structtype.go:297 *)
        match v with
        | VHash es =>
            forallb (fun m => match hash_get (is_vstr (fst m)) es with
                              | None => key_optional (fst (snd m))
                              | Some x => instA (snd (snd m)) x
                              end) ms &&
            Z.eqb (zlen (filter (fun m => match hash_get (is_vstr (fst m)) es with Some _ => true | None => false end) ms))
                  (zlen es)
        | _ => false
        end
    | AVariant ts => existsb (fun t => instA t v) ts
    | AOptional t => match v with VUndef => true | _ => instA t v end
    | ANotUndef t => match v with VUndef => false | _ => instA t v end
    | ASensitive t => match v with VSensitive x => instA t x | _ => false end
    end.

  (* the set of a type with aliases: the set of the type its aliases stand for *)
  Definition denA (a : aty) (v : value) : Prop := den rx (asg rx true) (resolve a) v.
End AliasInst.

(* ---- induction principle for the nested occurrences ---- *)
Section ATyInd.
  Variable P : aty -> Prop.
  Hypothesis HT : forall t, P (AT t).
  Hypothesis HAlias : forall n b, P b -> P (AAlias n b).
  Hypothesis HArray : forall e lo hi, P e -> P (AArray e lo hi).
  Hypothesis HHash : forall k v lo hi, P k -> P v -> P (AHash k v lo hi).
  Hypothesis HTuple : forall ts g lo hi, Forall P ts -> P (ATuple ts g lo hi).
  Hypothesis HStruct : forall ms, Forall (fun m => P (snd (snd m))) ms -> P (AStruct ms).
  Hypothesis HVariant : forall ts, Forall P ts -> P (AVariant ts).
  Hypothesis HOptional : forall t, P t -> P (AOptional t).
  Hypothesis HNotUndef : forall t, P t -> P (ANotUndef t).
  Hypothesis HSensitive : forall t, P t -> P (ASensitive t).

  Fixpoint aty_ind' (a : aty) : P a :=
    match a with
    | AT t => HT t
    | AAlias n b => HAlias n b (aty_ind' b)
    | AArray e lo hi => HArray e lo hi (aty_ind' e)
    | AHash k v lo hi => HHash k v lo hi (aty_ind' k) (aty_ind' v)
    | ATuple ts g lo hi =>
        HTuple ts g lo hi ((fix go (l : list aty) : Forall P l :=
                              match l with [] => Forall_nil _ | x :: r => Forall_cons _ (aty_ind' x) (go r) end) ts)
    | AStruct ms =>
        HStruct ms ((fix go (l : list (str * (ty * aty))) : Forall (fun m => P (snd (snd m))) l :=
                       match l with
                       | [] => Forall_nil _
                       | (n, (k, x)) :: r => @Forall_cons _ (fun m => P (snd (snd m))) (n, (k, x)) r (aty_ind' x) (go r)
                       end) ms)
    | AVariant ts =>
        HVariant ts ((fix go (l : list aty) : Forall P l :=
                        match l with [] => Forall_nil _ | x :: r => Forall_cons _ (aty_ind' x) (go r) end) ts)
    | AOptional t => HOptional t (aty_ind' t)
    | ANotUndef t => HNotUndef t (aty_ind' t)
    | ASensitive t => HSensitive t (aty_ind' t)
    end.
End ATyInd.
