(* FormatClosed.v — property C20, two closed forms written as specifications (Proofs/FormatClosed.v proves that the
   method-by-method model IS them; Corr/CorrC20.v evaluates both on every case of a run):
   A. floatGFormat (types/floattype.go:330, the verbs g G): the text is layout(sign, body), the body an explicit
      function of the digit string strconv gives for %g, or the %e shape;
   B. Array.ToString2 (types/arraytype.go:631) in the alternate ('#') layout with container children and line
      breaks for size: delimiter, cells joined by the separator, delimiter - no step rule. *)
From Coq Require Import ZArith NArith Bool List.
From PcoreV Require Import Model.Base Model.Format Model.FormatFloatShape.
Import ListNotations.
Open Scope Z_scope.

(* ------------------------------------------------------------------------------------------ *)
(* A. g G *)

(* the exponent letter floatGFormat looks for, and the verb it renders anew with: 'E' under G, 'e' under g *)
Definition g_exp_char (c : N) : N := if N.eqb c 71 then 69%N else 101%N.

(* the number of significant digits asked for: 6 unless a precision or '#' is given (floattype.go:346) *)
Definition g_prec (f : format) : Z := if (f_prec f <? 0) && negb (f_alt f) then 6 else f_prec f.

(* what is appended to a %g text without exponent: a '.' when there is none, the zeros missing to g_prec digits
   ("1" -> "1.0" when nothing is missing) *)
Definition g_fill (dot : bool) (missing : Z) : str :=
  (if dot then [] else 46%N :: (if missing =? 0 then [48%N] else [])) ++ zeros missing.

Definition g_missing (f : format) (r : str) : Z :=
  if 0 <=? g_prec f then (if mem 46 r then g_prec f - (len r - 1) else g_prec f - len r) else 0.

(* the body laid out, from the text r (sign taken off) of fmt's %g rendering: r itself when it carries an exponent
   or the number is Inf / NaN (keep), else r completed by g_fill; None = an integral text of exactly g_prec digits:
   the number is rendered anew under %e with precision g_prec - 1 (floattype.go:359-366) *)
Definition g_body (f : format) (keep : bool) (r : str) : option str :=
  if keep then Some r
  else if (0 <=? g_prec f) && negb (mem 46 r) && (g_missing f r =? 0) then None
  else Some (r ++ g_fill (mem 46 r) (g_missing f r)).

Definition sign_char_b (c : N) : bool := N.eqb c 45 || N.eqb c 43 || N.eqb c 32.

(* the digit string (after the '+' of strconv is taken off) does not begin with a sign character or a space:
   strconv's never do (the table carries |x|) *)
Definition fl_unsigned (ds : str) : bool := match ds with c :: _ => negb (sign_char_b c) | [] => true end.
Definition fdig_unsigned (o : oracle) : bool := forallb (fun e => fl_unsigned (fl_strip_plus (snd e))) (o_fdig o).

Section Digits.
  Variable dig : Z -> N -> Z -> option str.

  (* floatGFormat as ONE shape.  fmt's %g text under the format without width (and without '#', '-', '0':
     without_width clears them) is sign ++ digit string; padFloat takes a leading sign character off again
     (fl_split_sign: for an unsigned digit string that is exactly the sign fmt wrote, float_g_spec_unsigned). *)
  Definition float_g_spec (f : format) (bits : Z) : obs :=
    let c := f_char f in
    match dig bits c (fl_prec (f_prec f) c) with
    | None => OErr EOracle
    | Some ds0 =>
      let ds := fl_strip_plus ds0 in
      match ds with
      | [] => OErr EFault
      | _ :: _ =>
        let neg := negb (f_is_nan bits) && f_signbit bits in
        let '(sg, r) := fl_split_sign (fl_sign ds neg (N.eqb (f_plus f) 43) (N.eqb (f_plus f) 32) ++ ds) in
        match g_body f (mem (g_exp_char c) r || f_is_nan bits || f_is_inf bits) r with
        | Some body => OText (fl_layout (f_left f) (f_zero f && negb (mem 73 r || mem 78 r)) (f_width f) sg body)
        | None => go_fmt_float_spec dig (with_prec (replace_char f (g_exp_char c)) (g_prec f - 1)) (g_exp_char c) bits
        end
      end
    end.

  (* the same with sign and body named directly (equal to float_g_spec when the digit string is unsigned) *)
  Definition float_g_spec_unsigned (f : format) (bits : Z) : obs :=
    let c := f_char f in
    match dig bits c (fl_prec (f_prec f) c) with
    | None => OErr EOracle
    | Some ds0 =>
      let ds := fl_strip_plus ds0 in
      match ds with
      | [] => OErr EFault
      | _ :: _ =>
        let neg := negb (f_is_nan bits) && f_signbit bits in
        match g_body f (mem (g_exp_char c) ds || f_is_nan bits || f_is_inf bits) ds with
        | Some body => OText (fl_layout (f_left f) (f_zero f && negb (mem 73 ds || mem 78 ds)) (f_width f)
                                        (fl_sign ds neg (N.eqb (f_plus f) 43) (N.eqb (f_plus f) 32)) body)
        | None => go_fmt_float_spec dig (with_prec (replace_char f (g_exp_char c)) (g_prec f - 1)) (g_exp_char c) bits
        end
      end
    end.
End Digits.

(* the correspondence obligation for g G (Corr/CorrC20.v, every case): a Boolean / Integer / Float under g G,
   whatever the specification: the observed text IS float_g_spec around the observed digit strings, and the digit
   strings of the table are unsigned *)
Definition float_g_check (o : oracle) (v : value) (spec : fspec) (observed : obs) : bool :=
  match scalar_format o v spec, float_bits_of o v with
  | Some f, Some bits =>
    if mem (f_char f) l_gG then str_obs_eqb (float_g_spec (dig_of o) f bits) observed else true
  | _, _ => true
  end.

(* ------------------------------------------------------------------------------------------ *)
(* B. the alternate Array layout *)

(* the total text length of every maximal run of consecutive scalar elements (a container child ends a run) *)
Fixpoint run_totals (items : list (bool * str)) (acc : Z) : list Z :=
  match items with
  | [] => [acc]
  | (ah, s) :: r => if ah then acc :: run_totals r 0 else run_totals r (acc + len s)
  end.

(* lines are broken for size iff some run of consecutive scalars is longer than the width *)
Definition sz_break_closed (w : Z) (items : list (bool * str)) : bool := existsb (fun t => w <? t) (run_totals items 0).

(* what stands in front of an element that is not the first, after the separator: nothing before a container child
   (it breaks the line itself), a line break + the children's padding before a scalar that follows a container or when
   lines are broken for size, else one space *)
Definition arr_gap (szb : bool) (pad : str) (prev ah : bool) : str :=
  if ah then [] else if szb || prev then 10%N :: pad else [32%N].

(* the cells: every element's text with what stands in front of it (the first scalar gets one space when lines are
   broken for size); `combine (map fst items) rest` pairs every later element with its predecessor's kind *)
Definition arr_cells (szb : bool) (pad : str) (items : list (bool * str)) : list str :=
  match items with
  | [] => []
  | (ah0, s0) :: rest =>
    ((if szb && negb ah0 then [32%N] else []) ++ s0)
      :: List.map (fun p => arr_gap szb pad (fst p) (fst (snd p)) ++ snd (snd p)) (combine (List.map fst items) rest)
  end.

Definition arr_layout_alt_closed (f : format) (ind : indentation) (delim : N) (items : list (bool * str)) : str :=
  let own := i_set_indenting ind true in
  let szb := (0 <=? f_width f) && sz_break_closed (f_width f) items in
  (if i_breaks own then 10%N :: i_padding own else []) ++
  opt_byte (fst (delim_pair (if N.eqb (f_delim f) 0 then delim else f_delim f))) ++
  join (sep_or (f_sep f) s_comma) (arr_cells szb (i_padding (i_increase own true)) items) ++
  opt_byte (snd (delim_pair (if N.eqb (f_delim f) 0 then delim else f_delim f))).

(* not alternate: one line, whatever the children are *)
Definition arr_layout_flat_closed (f : format) (ind : indentation) (delim : N) (items : list (bool * str)) : str :=
  let own := i_set_indenting ind (i_indenting ind) in
  (if i_breaks own then 10%N :: i_padding own else []) ++
  opt_byte (fst (delim_pair (if N.eqb (f_delim f) 0 then delim else f_delim f))) ++
  join (sep_or (f_sep f) s_comma ++ [32%N]) (List.map snd items) ++
  opt_byte (snd (delim_pair (if N.eqb (f_delim f) 0 then delim else f_delim f))).

Definition arr_layout_closed (f : format) (ind : indentation) (delim : N) (items : list (bool * str)) : str :=
  if f_alt f then arr_layout_alt_closed f ind delim items else arr_layout_flat_closed f ind delim items.

(* the correspondence obligation for B (Corr/CorrC20.v, every case whose value is an Array): the children rendered
   by the model, laid out by the CLOSED formula, is the observed text *)
Definition arr_closed_check (o : oracle) (v : value) (spec : fspec) (observed : obs) : bool :=
  match v, context_of spec with
  | VArr es, Some (ROk m) =>
    match get_format o m v with
    | ROk f =>
      if mem (f_char f) set_array then
        let ind := default_indentation in
        let cind := i_subsequent (i_increase (i_set_indenting ind (f_alt f || i_indenting ind)) (f_alt f)) in
        match map_m (fun e => obind (render (vdepth v) o cind (if is_container e then m else cf_or_default f) false e)
                                    (fun s => Some (ROk (is_container e, s)))) es with
        | Some (ROk items) => str_obs_eqb (OText (arr_layout_closed f ind 91 items)) observed
        | _ => true
        end
      else true
    | RErr _ => true
    end
  | _, _ => true
  end.
