(* KeysUri.v — C07: the URI type, whose one parameter has three internal representations (types/uritype.go,
   after the fix dd5c5d2).  Definitions only; the lemmas are in Proofs/KeysUriProofs.v.

   UriType{parameters interface{}} holds undef (no parameter), a *url.URL (URI['text'], URI[URI('text')],
   NewUriType, and the type of every URI value: UriValue embeds UriType) or a *Hash (URI[{...}]; the empty Hash
   gives the default type, newUriType3 :160).  Parameters() :328, the text and the hash key show the URL as the
   Hash of its parts (urlToHash :375); Equals :247 has a branch per representation of the receiver and looks at the
   representation of the argument: the branches are explicit here.  The parameter Hash is a VHash of Keys.v, so that
   Hash.Equals is veq and its key is vkey. *)
From Coq Require Import ZArith NArith Bool String List.
From PcoreV Require Import Model.Base Model.Keys Model.KeysNames.
Import ListNotations.
Open Scope Z_scope.

(* the fields of a url.URL that the code reads, and three that it does not read (what url.Parse keeps besides the
   parts: '?' without a query, the escaped forms of path and fragment) *)
Record url := mkUrl {
  u_scheme : str;
  u_user : option str;        (* uri.User != nil: uri.User.String() *)
  u_host : str;
  u_port : option Z;          (* strconv.Atoi(uri.Port()) when it succeeds (trusted: Port() and Atoi are not modelled) *)
  u_path : str;
  u_raw_query : str;
  u_fragment : str;
  u_opaque : str;
  u_force_query : bool;
  u_raw_path : str;
  u_raw_fragment : str
}.

Definition nonempty (s : str) : bool := match s with [] => false | _ => true end.

(* strings.IndexByte *)
Fixpoint index_byte (b : N) (s : str) : option nat :=
  match s with
  | [] => None
  | c :: r => if N.eqb c b then Some O else match index_byte b r with Some i => Some (S i) | None => None end
  end.

Definition ent (k : string) (v : value) : value * value := (VStr (bytes_of k), v).

(* uritype.go:375 urlToHash: the entries in this order, a part that is empty is left out *)
Definition url_to_hash (u : url) : list (value * value) :=
  (if nonempty (u_scheme u) then [ent "scheme" (VStr (to_lower (u_scheme u)))] else []) ++
  (match u_user u with Some s => [ent "userinfo" (VStr s)] | None => [] end) ++
  (if nonempty (u_host u) then
     match index_byte 58 (u_host u) with
     | Some colon =>
         ent "host" (VStr (to_lower (firstn colon (u_host u)))) ::
         match u_port u with Some p => [ent "port" (VInt p)] | None => [] end
     | None => [ent "host" (VStr (to_lower (u_host u)))]
     end
   else []) ++
  (if nonempty (u_path u) then [ent "path" (VStr (u_path u))] else []) ++
  (if nonempty (u_raw_query u) then [ent "query" (VStr (u_raw_query u))] else []) ++
  (if nonempty (u_fragment u) then [ent "fragment" (VStr (u_fragment u))] else []) ++
  (if nonempty (u_opaque u) then [ent "opaque" (VStr (u_opaque u))] else []).

(* UriType.parameters *)
Inductive uparams :=
 | UNone                                   (* undef *)
 | UUrl (u : url)                          (* *url.URL *)
 | UHash (es : list (value * value)).      (* *Hash, never empty (newUriType3) *)

Definition is_none (t : uparams) : bool := match t with UNone => true | _ => false end.

(* uritype.go:362 paramsAsHash *)
Definition params_as_hash (t : uparams) : list (value * value) :=
  match t with
  | UNone => []
  | UUrl u => url_to_hash u
  | UHash es => es
  end.

(* uritype.go:247 (t *UriType) Equals(other) for another URI type:
     both URLs (fix dd5c5d2)            -> urlToHash(tu).Equals(urlToHash(ou))
     switch t.parameters
       undef                            -> undef.Equals(ot.parameters)
       *Hash                            -> t.parameters.Equals(ot.paramsAsHash())
       default (a URL)                  -> false when ot.parameters is undef; [the URL / URL comparison with
                                           reflect.DeepEqual that follows in the code is not reached any more];
                                           t.paramsAsHash().Equals(ot.paramsAsHash())                        *)
Definition uri_equals (t ot : uparams) : bool :=
  match t, ot with
  | UUrl tu, UUrl ou => veq (VHash (url_to_hash tu)) (VHash (url_to_hash ou))
  | UNone, _ => is_none ot
  | UHash es, _ => veq (VHash es) (VHash (params_as_hash ot))
  | UUrl tu, _ => if is_none ot then false else veq (VHash (url_to_hash tu)) (VHash (params_as_hash ot))
  end.

(* types.go:594 appendKey for a type: 1 't' name, the keys of Parameters() (for a URI type: the key of the parameter
   Hash, fix 3e488d4), 4.  Parameters() :328 is empty for undef and the one Hash otherwise. *)
Definition uri_params (t : uparams) : list value :=
  match t with
  | UNone => []
  | _ => [VHash (params_as_hash t)]
  end.

Definition uri_key (t : uparams) : list N := k_type (bytes_of "URI") (map vkey (uri_params t)).

(* what the Go representation guarantees, and the property's exception: the parameter Hash is a well formed Hash
   without NaN / Sensitive (a URL gives strings and an integer; the values of a Hash parameter may be types and
   regexps); a Hash parameter is not empty *)
Definition uri_wf (t : uparams) : bool :=
  wf_value (VHash (params_as_hash t)) && clean (VHash (params_as_hash t)) &&
  match t with UHash [] => false | _ => true end.

(* the same URL with other content in the fields that are no parts *)
Definition with_hidden (u : url) (fq : bool) (rp rf : str) : url :=
  mkUrl (u_scheme u) (u_user u) (u_host u) (u_port u) (u_path u) (u_raw_query u) (u_fragment u) (u_opaque u) fq rp rf.
