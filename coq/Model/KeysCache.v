(* KeysCache.v — C07: the hidden state "lazily cached inferred types" of Array and Hash values.
   Definitions only; the lemmas are in Proofs/KeysCacheProofs.v.

   Model/Keys.v models an Array as the list of its elements and a Hash as the list of its entries.  The code
   keeps two more fields in each (types/arraytype.go:23 `Array{reducedType, detailedType, elements}`,
   types/hashtype.go:32 `Hash{reducedType, detailedType, entries, index}`):
     - reducedType is nil until PType is asked (arraytype.go:794, hashtype.go:1413 privateReducedType), which
       also asks PType of every element / key / value, i.e. fills the caches of the parts;
     - detailedType is nil until px.DetailedValueType is asked (arraytype.go:777, hashtype.go:1378).
   They are filled as a side effect of read-only questions about the value or about a value that holds it, and
   the type inferred for a Hash depends on the insertion order of the entries (commonType is folded over them),
   which equality and the hash key disregard: two equal hashes can hold different cached types.
   Here the two fields are explicit state of every Array and Hash node of a value (`cval`), and Equals / ToKey
   are modelled on these nodes method by method (`cveq`, `ckey`): they read the elements / entries and never the
   caches.  The content of a cache is any type at all (the theorems quantify over it), not only the one that the
   inference would put there.  The key index of a Hash is the subject of Model/KeysIndex.v and is left out here. *)
From Coq Require Import ZArith NArith Bool List.
From PcoreV Require Import Model.Base Model.Keys.
Import ListNotations.

(* the content of a cache field: nil, a type of the modelled universe, or a type outside it (Struct, Timespan,
   Timestamp, Object, ... types: the detailed type of a Hash with String keys is a Struct) *)
Inductive cache := CNil | CType (t : ty) | COpaque.

(* a value as the Go object graph has it.  CScalar: the kinds without such caches (everything but Array, Hash,
   HashEntry, Sensitive: `scalar_value`) *)
Inductive cval :=
 | CScalar (v : value)
 | CArr (reduced detailed : cache) (es : list cval)               (* arraytype.go:23 *)
 | CHash (reduced detailed : cache) (es : list (cval * cval))     (* hashtype.go:32, entries as (key, value) *)
 | CEntry (k v : cval)                                            (* hashtype.go:27 *)
 | CSensitive (v : cval).                                         (* sensitivetype.go *)

(* the value that the object denotes: the caches forgotten *)
Fixpoint erase (x : cval) : value :=
  match x with
  | CScalar v => v
  | CArr _ _ es => VArr (map erase es)
  | CHash _ _ es => VHash (map (fun e => (erase (fst e), erase (snd e))) es)
  | CEntry k v => VEntry (erase k) (erase v)
  | CSensitive v => VSensitive (erase v)
  end.

Definition scalar_value (v : value) : bool :=
  match v with
  | VArr _ | VHash _ | VEntry _ _ | VSensitive _ => false
  | _ => true
  end.

(* the representation invariant of a cval: CScalar holds a scalar *)
Fixpoint cwf (x : cval) : bool :=
  match x with
  | CScalar v => scalar_value v
  | CArr _ _ es => forallb cwf es
  | CHash _ _ es => forallb (fun e => cwf (fst e) && cwf (snd e)) es
  | CEntry k v => cwf k && cwf v
  | CSensitive v => cwf v
  end.

(* px.ToKey / appendKey on the object graph: Array.ToKey arraytype.go:606, HashEntry.ToKey hashtype.go:577,
   Hash.ToKey hashtype.go:1240 (entry keys sorted) read elements / entries only *)
Fixpoint ckey (x : cval) : list N :=
  match x with
  | CScalar v => vkey v
  | CArr _ _ es => k_seq 65 (map ckey es)
  | CEntry k v => k_seq 65 [ckey k; ckey v]
  | CHash _ _ es => k_seq 72 (sort_strs (map (fun e => k_seq 65 [ckey (fst e); ckey (snd e)]) es))
  | CSensitive _ => []
  end.

(* valueIndex + get on the object graph (compare find_last of Keys.v) *)
Fixpoint cfind_last (key : list N) (es : list (cval * cval)) : option (cval * cval) :=
  match es with
  | [] => None
  | e :: es' => match cfind_last key es' with
                | Some r => Some r
                | None => if str_eqb (ckey (fst e)) key then Some e else None
                end
  end.

(* x.Equals(y, nil) on the object graph: Array.Equals arraytype.go:469, HashEntry.Equals hashtype.go:462,
   Hash.Equals hashtype.go:1067 (length, then every binding of the receiver's index against the argument's),
   Sensitive.Equals sensitivetype.go:159.  No branch reads `reduced` or `detailed`. *)
Fixpoint cveq (x y : cval) {struct x} : bool :=
  match x with
  | CScalar a => match y with CScalar b => veq a b | _ => false end
  | CArr _ _ vs =>
      match y with
      | CArr _ _ ws =>
          Nat.eqb (length vs) (length ws) &&
          (fix go (a b : list cval) : bool :=
             match a, b with
             | [], _ => true
             | p :: a', q :: b' => cveq p q && go a' b'
             | _ :: _, [] => false
             end) vs ws
      | CEntry k v => match vs with [p; q] => cveq p k && cveq q v | _ => false end
      | _ => false
      end
  | CEntry k v =>
      match y with
      | CEntry k' v' => cveq k k' && cveq v v'
      | CArr _ _ [p; q] => cveq k p && cveq v q
      | _ => false
      end
  | CHash _ _ es =>
      match y with
      | CHash _ _ fs =>
          Nat.eqb (length es) (length fs) &&
          (fix go (a : list (cval * cval)) : bool :=
             match a with
             | [] => true
             | (k, v) :: a' =>
                 (if existsb (fun e => str_eqb (ckey (fst e)) (ckey k)) a' then true
                  else match cfind_last (ckey k) fs with
                       | Some (k', v') => cveq k k' && cveq v v'
                       | None => false
                       end) && go a'
             end) es
      | _ => false
      end
  | CSensitive _ => false
  end.

(* the same object with other cache contents: f decides the new content of the two fields of every node from
   the old content and the denoted value (PType / DetailedValueType and every other filler is an instance) *)
Fixpoint refill (f : cache -> value -> cache) (g : cache -> value -> cache) (x : cval) : cval :=
  match x with
  | CScalar v => CScalar v
  | CArr r d es => CArr (f r (erase x)) (g d (erase x)) (map (refill f g) es)
  | CHash r d es => CHash (f r (erase x)) (g d (erase x)) (map (fun e => (refill f g (fst e), refill f g (snd e))) es)
  | CEntry k v => CEntry (refill f g k) (refill f g v)
  | CSensitive v => CSensitive (refill f g v)
  end.

(* a freshly built object: all caches nil *)
Fixpoint fresh (x : value) : cval :=
  match x with
  | VArr vs => CArr CNil CNil (map fresh vs)
  | VHash es => CHash CNil CNil (map (fun e => (fresh (fst e), fresh (snd e))) es)
  | VEntry k v => CEntry (fresh k) (fresh v)
  | VSensitive v => CSensitive (fresh v)
  | _ => CScalar x
  end.
