(* LoaderSpecNs.v — notions for the NAMESPACE clause of property C12 (Properties/C12.v, the C12_namespace theorems):
   the namespace a typed name is filed under, the bindings of one namespace in a state of the specification
   (Model/LoaderSpec.v), and the history with every operation on names of other namespaces erased.
   Definitions only; the proofs are in Proofs/LoaderNamespace.v. *)
From Coq Require Import NArith Bool List.
From PcoreV Require Import Model.Base Model.Loader Model.LoaderSpec.
Import ListNotations.

(* the namespace a typed name is filed under: TypedName.MapKey (typedname.go:232) folds the letter case of the whole
   key, the namespace included (every px.Namespace constant of the library is lower case) *)
Definition ns_of (n : tname) : str := to_lower (tn_ns n).

(* the map key k carries the namespace ns (typedNameFromMapKey, typedname.go:127) *)
Definition in_ns (ns : str) (k : str) : bool :=
  match tn_of_key k with Some tn => str_eqb (tn_ns tn) ns | None => false end.

(* the state with the bindings of every other namespace forgotten *)
Definition restrict_node (ns : str) (nd : anode) : anode :=
  mkA (akind nd) (filter (fun kv => in_ns ns (fst kv)) (abind nd)).
Definition ns_restrict (ns : str) (a : astate) : astate := map (restrict_node ns) a.

(* the (normalised) typed name an operation is about *)
Definition op_name (o : op) : option tname :=
  match o with
  | ODefine _ n _ | OLoad _ n | OLoadEntry _ n | OGetEntry _ n | OHas _ n => Some (norm n)
  | _ => None
  end.

(* an operation (definition or lookup) on a name of another namespace *)
Definition foreign (ns : str) (o : op) : bool :=
  match op_name o with Some n => negb (str_eqb (ns_of n) ns) | None => false end.

(* the history without the operations on names of other namespaces (loaders keep their indices: constructions stay) *)
Definition erase_foreign (ns : str) (ops : list op) : list op := filter (fun o => negb (foreign ns o)) ops.

(* a definition or lookup of a name of the namespace ns *)
Definition ns_query (ns : str) (q : op) : bool :=
  match op_name q with Some n => str_eqb (ns_of n) ns | None => false end.
