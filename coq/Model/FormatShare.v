(* Property C20, container identities: the recursion guard (px.RDetect) of Array.ToString2 and
   Hash.ToString2.

   Model/Format.v renders `value`s, which are trees.  The implementation's values are graphs of
   objects: one *Array / *Hash instance may occur at several positions of a value (px.EmptyArray, a
   sub-hash put under two keys), and ToString2 carries a map `g` of the instances whose rendering is
   in progress: an instance found in `g` is printed as "<recursive reference>", an instance is added
   on entry and deleted on exit (arraytype.go:632-638, :720; hashtype.go:1261-1267, :1351).

   `lvalue` is a value whose containers carry their instance identity; `render_g` follows the two
   ToString2 methods with the guard map threaded as state, exactly as the Go code mutates it.
   Proofs/FormatShare.v shows that for every value without a cycle the guard is invisible
   (render_g = render of the erased tree, guard map returned unchanged).  After fix ee5842a the 'a'
   case of Hash.ToString2 also deletes its entry (it returned without: the second occurrence of a
   hash rendered under %a printed "<recursive reference>"). *)
From Coq Require Import String.
From Coq Require Import ZArith NArith Bool List.
From PcoreV Require Import Model.Base Model.Format.
Import ListNotations.
Open Scope Z_scope.

(* id = Some i: the instance i (a pointer); None: an instance that occurs at this position only
   (freshly allocated, e.g. WrapArray3(hv) of hashtype.go:1271 and the [key, value] array of
   HashEntry.ToString, hashtype.go:593: never found in g, and its own entry in g is never looked up).
   LTree v: a subtree all of whose instances occur nowhere else (scalars in particular). *)
Inductive lvalue :=
| LTree (v : value)
| LArr (id : option N) (es : list lvalue)
| LHash (id : option N) (es : list (lvalue * lvalue)).

Fixpoint erase (lv : lvalue) : value :=
  match lv with
  | LTree v => v
  | LArr _ es => VArr (List.map erase es)
  | LHash _ es => VHash (List.map (fun kv => (erase (fst kv), erase (snd kv))) es)
  end.

(* px.RDetect = map[interface{}]bool, as the list of the keys present *)
Definition rdetect := list N.
Definition g_has (g : rdetect) (id : option N) : bool :=
  match id with Some i => existsb (N.eqb i) g | None => false end.
Definition g_add (g : rdetect) (id : option N) : rdetect :=
  match id with Some i => i :: g | None => g end.
Definition g_del (g : rdetect) (id : option N) : rdetect :=
  match id with Some i => filter (fun j => negb (N.eqb i j)) g | None => g end.

Definition s_recursive : str := Eval vm_compute in lit "<recursive reference>"%string.

(* a loop over children with the guard map as state *)
Fixpoint map_s {A B} (f : rdetect -> A -> option (R (rdetect * B))) (g : rdetect) (l : list A)
  : option (R (rdetect * list B)) :=
  match l with
  | [] => Some (ROk (g, []))
  | x :: r => obind (f g x) (fun gy =>
              obind (map_s f (fst gy) r) (fun gys => Some (ROk (fst gys, snd gy :: snd gys))))
  end.

(* HashEntry.ToString (hashtype.go:593): WrapValues([key, value]).ToString - a fresh array holding
   the very key and value instances *)
Definition lentry_array (kv : lvalue * lvalue) : lvalue := LArr None [fst kv; snd kv].

(* Value.ToString(b, ctx(ind, m), g).  Result: the guard map after the call and the text.
   Array.ToString (arraytype.go:627) selects the format, then ToString2 (:631): guard test, insert,
   format character, children through childToString (:744) with the same g, delete (:720).
   Hash.ToString (hashtype.go:1256) / ToString2 (:1260) likewise; 'a' renders WrapArray3(hv) with
   the same g and then deletes (:1271 and the delete at :1351 after ee5842a).
   An unsupported format character panics after the insert: the error reaches the caller of
   px.ToString2 (nothing recovers on the way), g is dropped with it. *)
Fixpoint render_g (n : nat) (o : oracle) (ind : indentation) (m : fmap) (entries : bool) (g : rdetect)
         (lv : lvalue) {struct n} : option (R (rdetect * str)) :=
  match n with
  | O => None
  | S n' =>
    match lv with
    | LTree v => obind (render n o ind m entries v) (fun s => Some (ROk (g, s)))
    | LArr id es =>
      match get_format o m (erase lv) with
      | RErr e => Some (RErr e)
      | ROk f =>
        if g_has g id then Some (ROk (g, s_recursive))
        else
          let g1 := g_add g id in
          if negb (mem (f_char f) set_array) then Some (RErr (EUnsupported (f_char f) KdArray))
          else
            let indent := i_set_indenting ind (f_alt f || i_indenting ind) in
            let cind := i_subsequent (i_increase indent (f_alt f)) in
            let cf := cf_or_default f in
            obind (map_s (fun g' e =>
                            let ah := negb entries && is_container (erase e) in
                            obind (render_g n' o cind (if ah then m else cf) false g' e)
                                  (fun gs => Some (ROk (fst gs, (ah, snd gs))))) g1 es)
                  (fun gi => Some (ROk (g_del (fst gi) id, arr_layout f ind 91 (snd gi))))
      end
    | LHash id es =>
      match get_format o m (erase lv) with
      | RErr e => Some (RErr e)
      | ROk f =>
        if g_has g id then Some (ROk (g, s_recursive))
        else
          let g1 := g_add g id in
          if N.eqb (f_char f) 97 then
            obind (render_g n' o ind m true g1 (LArr None (List.map lentry_array es)))
                  (fun gs => Some (ROk (g_del (fst gs) id, snd gs)))
          else if negb (mem (f_char f) l_hsp) then Some (RErr (EUnsupported (f_char f) KdHash))
          else
            let indent := i_set_indenting ind (f_alt f || i_indenting ind) in
            let cind := i_increase indent (f_alt f) in
            let cf := cf_or_default f in
            obind (map_s (fun g' kv =>
                            obind (render_g n' o cind (if is_container (erase (fst kv)) then m else cf) false g' (fst kv)) (fun gk =>
                            obind (render_g n' o cind (if is_container (erase (snd kv)) then m else cf) false (fst gk) (snd kv)) (fun gv =>
                            Some (ROk (fst gv, (snd gk, snd gv)))))) g1 es)
                  (fun gi => Some (ROk (g_del (fst gi) id, hash_layout f ind (snd gi))))
      end
    end
  end.

(* px.NewFormatContext3(value, spec) then px.ToString2(value, ctx): g starts as nil (px/values.go:249),
   the first container makes the map *)
Definition format_value_g (o : oracle) (lv : lvalue) (spec : fspec) : option obs :=
  match context_of spec with
  | None => None
  | Some (RErr e) => Some (OErr e)
  | Some (ROk m) =>
    match render_g (S (vdepth (erase lv))) o default_indentation m false [] lv with
    | None => None
    | Some (RErr e) => Some (RErr e)
    | Some (ROk gs) => Some (ROk (snd gs))
    end
  end.

(* no instance is entered while its own rendering is in progress: the value, as a graph of
   instances, has no cycle through the instances of g or its own (every value built from finished
   parts - WrapValues, WrapHash, the constructors - is such) *)
Fixpoint lok (g : rdetect) (lv : lvalue) : bool :=
  match lv with
  | LTree _ => true
  | LArr id es => negb (g_has g id) && forallb (lok (g_add g id)) es
  | LHash id es =>
    negb (g_has g id) && forallb (fun kv => lok (g_add g id) (fst kv) && lok (g_add g id) (snd kv)) es
  end.
