(* ResolveHier.v — model of two more pieces of the resolve stage of Context.ParseType (fifth wave):

     - the `equality` section of objectType.InitFromHash (types/objecttype.go:543-578) for an Object type with a
       chain of ancestors: the member lookup (own attributes, own functions, inherited members), the three errors
       of a name that is no plain attribute, the test against the equality of the parent
       (objectType.EqualityAttributes, objecttype.go:216-237: a walk up the chain) and the walk that WORDS the
       error PCORE_EQUALITY_REDEFINED with the topmost ancestor whose equality includes the attribute
       (objectType.findEqualityDefiner, objecttype.go:1264-1274: a loop over resolvedParent on explicit fuel);
     - the navigation of a Like type (types/liketype.go:116-187: LikeType.Resolve, navigate) through Object types
       (attributes), Structs (keys), Tuples (index: TupleType.At, tupletype.go:175-186 after fix 820b5a6), type
       aliases (resolved or not: TypeAliasType.ResolvedType, typealiastype.go:167-172 raises for an alias that has
       no resolved type yet) and the getters of the meta type of every other type, and what an in-place Object type
       makes of the result as its parent (objectType.resolvedParent, objecttype.go:1337-1362).

   Definitions only.  Every implicit fault site is an explicit branch: the nil *objectType that findEqualityDefiner
   returns when its loop ends (HNil -> QFault when worded), types[len-1] of TupleType.At (TAFault), value.PType() on
   the nil interface in navigate (NFault).  Loops over resolvedParent run on fuel (HOutOfFuel).

   Not modelled: px.IsInstance of an attribute's value against a Like type (the outcome of the case decides),
   strconv.ParseInt (the parts of the navigation carry its result: an oracle observed per case). *)
From Coq Require Import ZArith Arith Bool List.
From PcoreV Require Import Model.Base.
Import ListNotations.

(* ---- Object types with ancestors: the equality section ------------------------------------------------------- *)

Inductive mkind := MkAttr | MkConst | MkFunc.   (* attribute (not constant) | constant | function *)

(* one Object type of the chain: its name (T::A; the empty string when it is written in place), its own members in
   the order of declaration (attributes and constants live in t.attributes, functions in t.functions) and its
   `equality` (None: not given) *)
Record level := mkLevel { lv_name : str; lv_members : list (str * mkind); lv_equality : option (list str) }.

Definition names_includes (l : list str) (n : str) : bool := existsb (str_eqb n) l.

Definition is_func (k : mkind) : bool := match k with MkFunc => true | _ => false end.

(* t.attributes.Get(name) / t.functions.Get(name) *)
Fixpoint find_member (want_func : bool) (ms : list (str * mkind)) (n : str) : option mkind :=
  match ms with
  | [] => None
  | (m, k) :: r => if str_eqb m n && Bool.eqb (is_func k) want_func then Some k else find_member want_func r n
  end.

(* objecttype.go:217-231, one round of the loop: the declared equality, or every attribute that is no constant *)
Definition own_equality (lv : level) : list str :=
  match lv_equality lv with
  | Some l => l
  | None => flat_map (fun p => match snd p with MkAttr => [fst p] | _ => [] end) (lv_members lv)
  end.

(* objectType.EqualityAttributes (objecttype.go:216-237) of the first type of the chain; Includes(name) of the
   resulting hash = the name is in the list *)
Definition equality_attributes (chain : list level) : list str := flat_map own_equality chain.

(* parentMembers = parent.members(true) (objecttype.go:401, collectMembers 1052-1058: the parent's first, then
   PutAll(attributes), PutAll(functions)): the nearest declaration wins, within a type the function *)
Fixpoint parent_member (anc : list level) (n : str) : option mkind :=
  match anc with
  | [] => None
  | lv :: up =>
    match find_member true (lv_members lv) n with
    | Some k => Some k
    | None => match find_member false (lv_members lv) n with
              | Some k => Some k
              | None => parent_member up n
              end
    end
  end.

Inductive hres := HDefiner (k : nat) | HNil | HOutOfFuel.

(* objectType.findEqualityDefiner (objecttype.go:1264-1274):
     tp := t; for tp != nil { p := tp.resolvedParent(); if p == nil || !p.EqualityAttributes().Includes(a) { return tp }; tp = p }; return nil
   cur = the chain from tp upwards, idx = how many levels tp is above t *)
Fixpoint definer_loop (fuel : nat) (cur : list level) (a : str) (idx : nat) : hres :=
  match fuel with
  | O => HOutOfFuel
  | S f =>
    match cur with
    | [] => HNil                                                    (* tp == nil: return nil *)
    | _ :: up =>
      match up with
      | [] => HDefiner idx                                          (* p == nil *)
      | _ :: _ => if names_includes (equality_attributes up) a then definer_loop f up a (S idx) else HDefiner idx
      end
    end
  end.

Definition find_equality_definer (chain : list level) (a : str) : hres := definer_loop (length chain) chain a 0.

(* the loop of seeded change C06-m7:
     tp := t.resolvedParent(); for p := tp.resolvedParent(); p != nil && includes(p); p = t.resolvedParent() { tp = p }; return tp
   anc = the chain from t's parent upwards; tp, pidx = indices; p = the chain from p upwards.  Only for
   ResolveHierProofs.definer_m7_spins. *)
Fixpoint definer_m7_loop (fuel : nat) (anc : list level) (a : str) (tp : nat) (p : list level) (pidx : nat) : hres :=
  match fuel with
  | O => HOutOfFuel
  | S f =>
    match p with
    | [] => HDefiner tp
    | _ :: _ => if names_includes (equality_attributes p) a then definer_m7_loop f anc a pidx anc 1 else HDefiner tp
    end
  end.

Definition definer_m7 (fuel : nat) (anc : list level) (a : str) : hres := definer_m7_loop fuel anc a 1 (tl anc) 2.

Inductive qcode := EqNotFound | EqNotAttribute | EqOnConstant.

Inductive qres :=
  | QOk
  | QErr (c : qcode)
  | QRedefined (definer : str)      (* PCORE_EQUALITY_REDEFINED, including_parent = the type of that name *)
  | QFault
  | QOutOfFuel.

(* objecttype.go:555-578, the loop over the names of `equality` for the type t with the ancestors anc *)
Fixpoint equality_loop (t : level) (anc : list level) (names : list str) : qres :=
  match names with
  | [] => QOk
  | n :: rest =>
    let mbr := match find_member false (lv_members t) n with                (* :556 t.attributes.Get *)
               | Some k => Some k
               | None => match find_member true (lv_members t) n with       (* :558 t.functions.Get *)
                         | Some k => Some k
                         | None => parent_member anc n                      (* :560 parentMembers *)
                         end
               end in
    match mbr with
    | None => QErr EqNotFound                                               (* :567 *)
    | Some MkFunc => QErr EqNotAttribute                                    (* :569 *)
    | Some MkConst => QErr EqOnConstant                                     (* :572 *)
    | Some MkAttr =>
      if match anc with [] => false | _ :: _ => names_includes (equality_attributes anc) n end then   (* :574 *)
        match find_equality_definer (t :: anc) n with                       (* :575 *)
        | HDefiner k => match nth_error (t :: anc) k with
                        | Some lv => QRedefined (lv_name lv)
                        | None => QFault
                        end
        | HNil => QFault                                                    (* a nil *objectType is worded *)
        | HOutOfFuel => QOutOfFuel
        end
      else equality_loop t anc rest
    end
  end.

Definition init_equality (t : level) (anc : list level) : qres :=
  match lv_equality t with
  | None => QOk
  | Some names => equality_loop t anc names
  end.

(* the chain (the type first, then its parent, ...) is initialized from the top: an ancestor's error comes first *)
Fixpoint resolve_chain (chain : list level) : qres :=
  match chain with
  | [] => QOk
  | t :: anc => match resolve_chain anc with
                | QOk => init_equality t anc
                | r => r
                end
  end.

(* the index-free reading of findEqualityDefiner: how many ancestors in a row, from the parent upwards, have an
   equality (their own and their ancestors') that includes the attribute *)
Fixpoint leading_including (anc : list level) (a : str) : nat :=
  match anc with
  | [] => 0
  | _ :: up => if names_includes (equality_attributes anc) a then S (leading_including up a) else 0
  end.

(* ---- Like types ---------------------------------------------------------------------------------------------- *)

Inductive lty :=
  | LObject (ms : list (str * (bool * lty)))   (* member (inherited ones included) -> (a function?, its type) *)
  | LStruct (ms : list (str * lty))            (* key -> value type *)
  | LTuple (ts : list lty) (max : Z)           (* types, givenOrActualSize.max *)
  | LAliasUnresolved                           (* a type alias that has no resolved type yet *)
  | LAlias (r : lty)
  | LMeta (ms : list (str * option lty)).      (* any other type: getter of its meta type -> a type (Some) or a value
                                                  that is no type and whose type has no callable members (None) *)

(* what navigate holds between two steps: a px.Value *)
Inductive lval := VGoNil | VPlain | VTyp (t : lty).

Fixpoint lassoc {A} (l : list (str * A)) (k : str) : option A :=
  match l with
  | [] => None
  | (n, v) :: r => if str_eqb n k then Some v else lassoc r k
  end.

Inductive tares := TAType (t : lty) | TAUndef | TAFault.

(* TupleType.At (tupletype.go:175-186, after fix 820b5a6 `n > 0 &&`) *)
Definition tuple_at (ts : list lty) (max : Z) (i : Z) : tares :=
  if (0 <=? i)%Z then
    if (i <? Z.of_nat (length ts))%Z then
      match nth_error ts (Z.to_nat i) with Some t => TAType t | None => TAFault end       (* t.types[i] *)
    else if negb (Nat.eqb (length ts) 0) && (i <? max)%Z then
      match nth_error ts (length ts - 1) with Some t => TAType t | None => TAFault end    (* t.types[n-1] *)
    else TAUndef
  else TAUndef.

(* the same before the fix: `int64(i) < max` alone guards t.types[len-1]; only for tuple_at_unfixed_faults *)
Definition tuple_at_unfixed (ts : list lty) (max : Z) (i : Z) : tares :=
  if (0 <=? i)%Z then
    if (i <? Z.of_nat (length ts))%Z then
      match nth_error ts (Z.to_nat i) with Some t => TAType t | None => TAFault end
    else if (i <? max)%Z then
      match length ts with
      | O => TAFault                                                                      (* t.types[-1] *)
      | S n => match nth_error ts n with Some t => TAType t | None => TAFault end
      end
    else TAUndef
  else TAUndef.

Inductive nres := NFound (v : lval) | NNotFound | NUnresolvedAlias | NFault.

(* navigate (liketype.go:148-187), the branch `if typ, ok := value.(px.Type); ok`; idx = strconv.ParseInt(member, 0, 64) *)
Fixpoint navigate_type (t : lty) (member : str) (idx : option Z) : nres :=
  match t with
  | LObject ms =>                                               (* :150 px.TypeWithCallableMembers *)
    match lassoc ms member with
    | Some (false, a) => NFound (VTyp a)                        (* :152 a.Type() *)
    | Some (true, _) => NNotFound                               (* a member function is no px.Function: falls through *)
    | None => NNotFound
    end
  | LStruct ms =>                                               (* :158 *)
    match lassoc ms member with Some v => NFound (VTyp v) | None => NNotFound end
  | LTuple ts max =>                                            (* :161-166 *)
    match idx with
    | None => NNotFound
    | Some n => match tuple_at ts max n with
                | TAType e => NFound (VTyp e)
                | TAUndef => NNotFound                          (* undef is no px.Type *)
                | TAFault => NFault
                end
    end
  | LAliasUnresolved => NUnresolvedAlias                        (* :167 ta.ResolvedType() raises PCORE_UNRESOLVED_TYPE *)
  | LAlias r => navigate_type r member idx                      (* :168 *)
  | LMeta ms =>                                                 (* :170-175 *)
    match lassoc ms member with
    | Some (Some v) => NFound (VTyp v)
    | Some None => NFound VPlain
    | None => NNotFound
    end
  end.

Definition navigate (v : lval) (member : str) (idx : option Z) : nres :=
  match v with
  | VTyp t => navigate_type t member idx
  | VPlain => NNotFound                          (* :178 value.PType() is no TypeWithCallableMembers *)
  | VGoNil => NFault                             (* :178 value.PType() on the nil interface *)
  end.

(* the alias branch of seeded change C06-m8: the field ta.resolvedType instead of the accessor *)
Fixpoint navigate_type_m8 (t : lty) (member : str) (idx : option Z) : nres :=
  match t with
  | LAliasUnresolved => navigate VGoNil member idx
  | LAlias r => navigate_type_m8 r member idx
  | _ => navigate_type t member idx
  end.

Inductive rres := RType (t : lty) | RUnresolvedOf | RUnresolvedAlias | RFault.

(* LikeType.Resolve (liketype.go:116-138), the loop over strings.Split(navigation, ".") *)
Fixpoint like_path (v : lval) (parts : list (str * option Z)) : rres :=
  match parts with
  | [] => match v with VTyp t => RType t | _ => RUnresolvedOf end           (* :132-135 *)
  | (m, idx) :: rest =>
    match navigate v m idx with
    | NFound v' => like_path v' rest
    | NNotFound => RUnresolvedOf                                            (* :128 *)
    | NUnresolvedAlias => RUnresolvedAlias
    | NFault => RFault
    end
  end.

Definition like_resolve (base : lty) (parts : list (str * option Z)) : rres := like_path (VTyp base) parts.

Inductive lpres := LPObject | LPUnresolvedOf | LPUnresolvedAlias | LPIllegalParent | LPFault.

(* objectType.resolvedParent (objecttype.go:1337-1362) on what the Like type resolved to; a chain of aliases in the
   model is a tree, so the `seen` list never fires *)
Fixpoint resolved_parent (t : lty) : lpres :=
  match t with
  | LObject _ => LPObject
  | LAlias r => resolved_parent r
  | LAliasUnresolved => LPUnresolvedAlias
  | _ => LPIllegalParent
  end.

(* Object[{parent => Like[base, navigation]}] (objecttype.go:385-386 pt.Resolve(c), :400 t.resolvedParent()) *)
Definition like_parent (base : lty) (parts : list (str * option Z)) : lpres :=
  match like_resolve base parts with
  | RType t => resolved_parent t
  | RUnresolvedOf => LPUnresolvedOf
  | RUnresolvedAlias => LPUnresolvedAlias
  | RFault => LPFault
  end.
