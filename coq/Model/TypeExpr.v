(* TypeExpr.v — property C05: the expression a type prints as (between layers L2 and L3).
   expr_of_ty T = the expression (Model/TokenParse.v pval) whose tokens T.String() consists of: the name of T and,
   when Parameters() is not empty, the parameter values as literals, nested types recursively
   (types.go:206-252 TypeToString / basicTypeToString over Parameters(), Model/TypePrint.v params_gen); the same
   recursion as print_ty with expressions in the place of texts. A float bound is the literal whose text the float
   oracle gives.
   ty_lits_ok: the integer bounds of T are 64 bit integers and its regexps compile (what `printable` asks of the
   literals inside the expression).
   Definitions only. *)
From Coq Require Import ZArith NArith Bool List.
From PcoreV Require Import Model.Base Model.Ty Model.QuoteLex Model.TypePrint Model.TokenParse.
Import ListNotations.
Open Scope Z_scope.

Section Expr.
  Variable float_text : Z -> str.

  Fixpoint expr_of_gpv (p : gpv pval) : pval :=
    match p with
    | GInt z => PVInt z
    | GFloat k => PVFloat (float_text k)
    | GDefault => PVDefault
    | GUndef => PVUndef
    | GBool b => PVBool b
    | GStr s => PVStr s
    | GRegexp s => PVRegexp s
    | GArr es => PVArr (map expr_of_gpv es)
    | GHash kvs => PVHash (map (fun kv => (expr_of_gpv (fst kv), expr_of_gpv (snd kv))) kvs)
    | GTy e => e
    end.

  Variable accepts_undef : ty -> bool.

  (* types.go:223 basicTypeToString: the name, then the parameters when there are any *)
  Definition expr_named (n : tname) (ps : list (gpv pval)) : pval :=
    PVType (name_text n) (match ps with [] => None | _ => Some (map expr_of_gpv ps) end).
  Definition expr_notundef (kexpr : pval) (k : ty) : pval :=
    expr_named NNotUndef (wrapper_params (fun _ => kexpr) k).
  Fixpoint expr_of_ty (t : ty) : pval :=
    expr_named (name_of t) (params_gen expr_of_ty expr_notundef accepts_undef t).
End Expr.

Section LitsOk.
  Variable rx_ok : str -> bool.
  Definition size_ok (lo hi : Z) : bool := in_int64 lo && in_int64 hi.
  Fixpoint ty_lits_ok (t : ty) : bool :=
    match t with
    | TInteger lo hi | TStringSz lo hi | TCollection lo hi => size_ok lo hi
    | TPattern rxs => forallb rx_ok rxs
    | TRegexp p => match p with [] => true | _ => rx_ok p end
    | TArray e lo hi => ty_lits_ok e && size_ok lo hi
    | THash k v lo hi => ty_lits_ok k && ty_lits_ok v && size_ok lo hi
    | TTuple ts _ lo hi => forallb ty_lits_ok ts && size_ok lo hi
    | TStruct ms => forallb (fun m => let '(_, (k, v)) := m in ty_lits_ok k && ty_lits_ok v) ms
    | TVariant ts => forallb ty_lits_ok ts
    | TOptional x | TNotUndef x | TType x | TSensitive x => ty_lits_ok x
    | _ => true
    end.
End LitsOk.
