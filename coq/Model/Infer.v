(* Infer.v — executable model of type inference, the common type and generalisation (C04).

     infer v             v.PType()                               one arm per value kind
     infer_detailed v    px.DetailedValueType(v)                 types/types.go:372, arraytype.go, hashtype.go, sensitivetype.go
     common a b          commonType(a, b)                        types/commonality.go:12, case by case, same order
     generalize t        px.Generalize(t) = generalize(t)        types/types.go:65
     generic t           px.GenericType(t)                       types/types.go:379
     data_asg b          isAssignable(Data, b)                   the alias Data     (types/types.go:324) as receiver
     rich_asg b          isAssignable(RichData, b)               the alias RichData (types/types.go:350) as receiver

   Assignability is `asg rx true` of Model/Lattice.v (the code as it is, the by-specification rule enabled).
   The two aliases that the fallback ladder of commonType returns are not constructors of `ty`; they are
   represented by `TOther "Alias:Data"` / `TOther "Alias:RichData"` (what the harness prints for them) and their
   behaviour as receivers of assignability is modelled by the structural functions data_asg / rich_asg.
   Loops: `infer` folds `common` over the elements (structural in the value); `common` recurses on pairs that
   are not sub-terms (the common element type of a tuple is itself a fold of `common`), hence explicit fuel
   with the out-of-fuel result `TOther "OutOfFuel"`.  The lazily cached reducedType/detailedType fields of
   Array and Hash are pure functions here. *)
From Coq Require Import ZArith NArith Bool List.
From PcoreV Require Import Model.Base Model.Ty Model.Lattice.
Import ListNotations.
Open Scope Z_scope.

Definition MaxI : Z := 9223372036854775807.          (* math.MaxInt64 *)
Definition MinI : Z := -9223372036854775808.         (* math.MinInt64 *)

Definition s_data : str := [65;108;105;97;115;58;68;97;116;97]%N.                    (* "Alias:Data" *)
Definition s_rich : str := [65;108;105;97;115;58;82;105;99;104;68;97;116;97]%N.      (* "Alias:RichData" *)
Definition s_oof : str := [79;117;116;79;102;70;117;101;108]%N.                      (* "OutOfFuel" *)
Definition TData : ty := TOther s_data.
Definition TRich : ty := TOther s_rich.
Definition TOutOfFuel : ty := TOther s_oof.

(* ---- structural equality of types (what the correspondence compares) ---- *)
Fixpoint ty_eqb (a b : ty) {struct a} : bool :=
  match a, b with
  | TAny, TAny | TUnit, TUnit | TUndef, TUndef | TDefault, TDefault => true
  | TBoolean v, TBoolean w => option_eqb Bool.eqb v w
  | TInteger lo hi, TInteger lo' hi' => Z.eqb lo lo' && Z.eqb hi hi'
  | TFloat lo hi, TFloat lo' hi' => Z.eqb lo lo' && Z.eqb hi hi'
  | TNumeric, TNumeric | TScalar, TScalar | TScalarData, TScalarData | TString, TString | TBinary, TBinary => true
  | TStringSz lo hi, TStringSz lo' hi' => Z.eqb lo lo' && Z.eqb hi hi'
  | TStringVal s, TStringVal s' => str_eqb s s'
  | TEnum ci vs, TEnum ci' vs' => Bool.eqb ci ci' && str_eqb_list vs vs'
  | TPattern rxs, TPattern rxs' => str_eqb_list rxs rxs'
  | TRegexp p, TRegexp p' => str_eqb p p'
  | TCollection lo hi, TCollection lo' hi' => Z.eqb lo lo' && Z.eqb hi hi'
  | TArray e lo hi, TArray e' lo' hi' => ty_eqb e e' && Z.eqb lo lo' && Z.eqb hi hi'
  | THash k v lo hi, THash k' v' lo' hi' => ty_eqb k k' && ty_eqb v v' && Z.eqb lo lo' && Z.eqb hi hi'
  | TTuple ts g lo hi, TTuple ts' g' lo' hi' =>
      (fix go (l l' : list ty) {struct l} : bool :=
         match l, l' with
         | [], [] => true
         | x :: r, y :: r' => ty_eqb x y && go r r'
         | _, _ => false
         end) ts ts' && Bool.eqb g g' && Z.eqb lo lo' && Z.eqb hi hi'
  | TStruct ms, TStruct ms' =>
      (fix go (l l' : list (str * (ty * ty))) {struct l} : bool :=
         match l, l' with
         | [], [] => true
         | (n, (k, v)) :: r, (n', (k', v')) :: r' => str_eqb n n' && ty_eqb k k' && ty_eqb v v' && go r r'
         | _, _ => false
         end) ms ms'
  | TVariant ts, TVariant ts' =>
      (fix go (l l' : list ty) {struct l} : bool :=
         match l, l' with
         | [], [] => true
         | x :: r, y :: r' => ty_eqb x y && go r r'
         | _, _ => false
         end) ts ts'
  | TOptional t, TOptional t' | TNotUndef t, TNotUndef t' | TType t, TType t' | TSensitive t, TSensitive t' => ty_eqb t t'
  | TOther n, TOther n' => str_eqb n n'
  | _, _ => false
  end.

(* ---- equality of hash keys of types (types.go:581 appendKey on a type: name + Parameters(), the
   members of Enum, Pattern and Variant sorted and without duplicates): what UniqueTypes compares ---- *)
Definition subset_str (a b : list str) : bool := forallb (fun s => mem_str s b) a.

Fixpoint tkeq (a b : ty) {struct a} : bool :=
  match a, b with
  | TEnum ci vs, TEnum ci' vs' => Bool.eqb ci ci' && subset_str vs vs' && subset_str vs' vs
  | TPattern rxs, TPattern rxs' => subset_str rxs rxs' && subset_str rxs' rxs
  | TArray e lo hi, TArray e' lo' hi' => tkeq e e' && Z.eqb lo lo' && Z.eqb hi hi'
  | THash k v lo hi, THash k' v' lo' hi' => tkeq k k' && tkeq v v' && Z.eqb lo lo' && Z.eqb hi hi'
  | TTuple ts g lo hi, TTuple ts' g' lo' hi' =>
      (fix go (l l' : list ty) {struct l} : bool :=
         match l, l' with
         | [], [] => true
         | x :: r, y :: r' => tkeq x y && go r r'
         | _, _ => false
         end) ts ts' && Z.eqb lo lo' && Z.eqb hi hi'   (* Parameters() writes givenOrActualSize: whether the size was given does not show *)
  | TStruct ms, TStruct ms' =>
      (fix go (l l' : list (str * (ty * ty))) {struct l} : bool :=
         match l, l' with
         | [], [] => true
         | (n, (k, v)) :: r, (n', (k', v')) :: r' => str_eqb n n' && tkeq k k' && tkeq v v' && go r r'
         | _, _ => false
         end) ms ms'
  | TVariant ts, TVariant ts' =>
      forallb (fun t => existsb (fun t' => tkeq t t') ts') ts &&
      forallb (fun u => existsb (fun t => tkeq t u) ts) ts'
  | TOptional t, TOptional t' | TNotUndef t, TNotUndef t' | TType t, TType t' | TSensitive t, TSensitive t' => tkeq t t'
  | _, _ => ty_eqb a b
  end.

(* types.go:141 UniqueTypes: the first of every group of types with the same hash key, in order *)
Fixpoint udedup_from (seen l : list ty) : list ty :=
  match l with
  | [] => []
  | t :: r => if existsb (fun s => tkeq s t) seen then udedup_from seen r else t :: udedup_from (seen ++ [t]) r
  end.
Definition udedup (l : list ty) : list ty :=
  match l with
  | [] | [_] => l                                      (* types.go:143 top < 2 *)
  | _ => udedup_from [] l
  end.

(* utils/strings.go:77 Unique, regexptype.go:184 UniqueRegexps *)
Fixpoint sdedup_from (seen l : list str) : list str :=
  match l with
  | [] => []
  | s :: r => if mem_str s seen then sdedup_from seen r else s :: sdedup_from (seen ++ [s]) r
  end.
Definition sdedup (l : list str) : list str := sdedup_from [] l.

(* varianttype.go:30 NewVariantType *)
Definition mk_variant (ts : list ty) : ty :=
  match ts with
  | [t] => t
  | _ => TVariant ts
  end.

(* enumtype.go:38 NewEnumType: a case-insensitive Enum holds lower-cased values (ASCII in the model) *)
Definition mk_enum (vs : list str) (ci : bool) : ty := TEnum ci (if ci then map lower_ascii vs else vs).

(* stringtype.go:90 NewStringType(rng, "") *)
Definition mk_string_sz (lo hi : Z) : ty :=
  if Z.eqb lo 0 && Z.eqb hi MaxI then TString else TStringSz lo hi.

Section Infer.
  Variable rx : str -> str -> bool.
  Notation asg := (asg rx true).
  Notation nullable := Lattice.nullable.

  (* ---- the aliases Data and RichData as receivers of assignability ----
     GuardedIsAssignable(alias, b) (types.go:112): the decomposition of b, then TypeAliasType.IsAssignable
     (typealiastype.go:114) = the resolved Variant's IsAssignable = some member accepts b.
       Data     = Variant[ScalarData, Undef, Array[Data], Hash[String, Data]]
       RichData = Variant[Scalar, Binary, Default, Object, Type, TypeSet, Deferred, Undef,
                          Array[RichData], Hash[Variant[String, Numeric], RichData]]
     The nested calls (Array[Data] <- Array[e] etc.) are on sub-terms of b: structural recursion.  The
     members Object, TypeSet and Deferred accept no type of the model fragment. *)
  Definition is_alias (n : str) (b : ty) : bool := match b with TOther m => str_eqb m n | _ => false end.

  Fixpoint data_asg (b : ty) : bool :=
    let recvD :=
      asg TScalarData b || asg TUndef b ||
      match b with
      | TArray e' lo' hi' => size_sub 0 MaxI lo' hi' && ((hi' <=? 0) || data_asg e')
      | TTuple ts _ lo' hi' =>
          size_sub 0 MaxI lo' hi' && ((hi' <=? 0) || match ts with [] => false | _ => forallb data_asg ts end)
      | THash k' v' lo' hi' => size_sub 0 MaxI lo' hi' && ((hi' <=? 0) || (asg TString k' && data_asg v'))
      | TStruct ms =>
          size_sub 0 MaxI (struct_required ms) (zlen ms) &&
          forallb (fun m => asg TString (actual_key (fst (snd m))) && data_asg (snd (snd m))) ms
      | _ => false
      end in
    match b with
    | TUnit => true
    | TNotUndef nt => if data_asg nt then true else if nullable nt then recvD else false
    | TOptional ot => data_asg ot                       (* Data accepts Undef *)
    | TVariant ts => forallb data_asg ts
    | TOther _ => is_alias s_data b                     (* a == b; RichData resolves to a Variant with Scalar *)
    | _ => recvD
    end.

  Definition rich_key : ty := TVariant [TString; TNumeric].

  Fixpoint rich_asg (b : ty) : bool :=
    let recvR :=
      asg TScalar b || asg TBinary b || asg TDefault b || asg (TType TAny) b || asg TUndef b ||
      match b with
      | TArray e' lo' hi' => size_sub 0 MaxI lo' hi' && ((hi' <=? 0) || rich_asg e')
      | TTuple ts _ lo' hi' =>
          size_sub 0 MaxI lo' hi' && ((hi' <=? 0) || match ts with [] => false | _ => forallb rich_asg ts end)
      | THash k' v' lo' hi' => size_sub 0 MaxI lo' hi' && ((hi' <=? 0) || (asg rich_key k' && rich_asg v'))
      | TStruct ms =>
          size_sub 0 MaxI (struct_required ms) (zlen ms) &&
          forallb (fun m => asg rich_key (actual_key (fst (snd m))) && rich_asg (snd (snd m))) ms
      | _ => false
      end in
    match b with
    | TUnit => true
    | TNotUndef nt => if rich_asg nt then true else if nullable nt then recvR else false
    | TOptional ot => rich_asg ot
    | TVariant ts => forallb rich_asg ts
    | TOther _ => is_alias s_rich b || is_alias s_data b
    | _ => recvR
    end.

  (* ---- commonType (commonality.go:12) ---- *)

  (* commonType on two size ranges (IntegerType): a when it accepts b, b when it accepts a, else the
     merged range (commonality.go:76) — in all three cases the smaller min and the larger max *)
  Definition common_range (lo hi lo' hi' : Z) : Z * Z := (Z.min lo lo', Z.max hi hi').

  (* commonality.go:21-62: mergable string types *)
  Definition string_merge (a b : ty) : option ty :=
    match a with
    | TEnum ci vs =>
        match b with
        | TStringVal s => Some (mk_enum (sdedup (vs ++ [s])) ci)                        (* :26 *)
        | TString | TStringSz _ _ => Some TString                                       (* :31 px.StringType *)
        | TEnum ci' vs' => Some (mk_enum (sdedup (vs ++ vs')) (ci || ci'))              (* :34 *)
        | _ => None
        end
    | TStringSz lo hi =>
        match b with
        | TStringSz lo' hi' => let r := common_range lo hi lo' hi' in Some (mk_string_sz (fst r) (snd r))  (* :42 *)
        | TString | TStringVal _ | TEnum _ _ => Some TString                            (* :47 *)
        | _ => None
        end
    | TStringVal s =>
        match b with
        | TStringVal s' => Some (TEnum false [s; s'])                                   (* :53 *)
        | TString | TStringSz _ _ => Some TString                                       (* :58 *)
        | TEnum ci' vs' => Some (mk_enum (sdedup (vs' ++ [s])) ci')                     (* :61 commonType(b, a) *)
        | _ => None
        end
    | _ => None
    end.

  (* commonality.go:140-156: the fallback ladder *)
  Definition ladder (a b : ty) : ty :=
    if asg TNumeric a && asg TNumeric b then TNumeric
    else if asg TScalarData a && asg TScalarData b then TScalarData
    else if asg TScalar a && asg TScalar b then TScalar
    else if data_asg a && data_asg b then TData
    else if rich_asg a && rich_asg b then TRich
    else TAny.

  Definition is_unit (t : ty) : bool := match t with TUnit => true | _ => false end.

  (* tupletype.go:172 CommonElementType, C = commonType *)
  Definition cet (C : ty -> ty -> ty) (ts : list ty) : ty :=
    match ts with [] => TAny | t :: r => fold_left C r t end.

  (* commonality.go:72-138: two types of the same Go type are merged member-wise (C = commonType for the
     nested calls); anything else goes down the ladder *)
  Definition merge_same (C : ty -> ty -> ty) (a b : ty) : ty :=
    match a, b with
    | TArray e lo hi, TArray e' lo' hi' =>
        let r := common_range lo hi lo' hi' in TArray (C e e') (fst r) (snd r)       (* :75 *)
    | TFloat lo hi, TFloat lo' hi' => TFloat (Z.min lo lo') (Z.max hi hi')           (* :80 *)
    | TInteger lo hi, TInteger lo' hi' => TInteger (Z.min lo lo') (Z.max hi hi')     (* :85 *)
    | TNotUndef t, TNotUndef t' => TNotUndef (C t t')                                (* :108 *)
    | TPattern rxs, TPattern rxs' => TPattern (sdedup (rxs ++ rxs'))                 (* :113 *)
    | TTuple ts _ lo hi, TTuple ts' _ lo' hi' =>
        let r := common_range lo hi lo' hi' in TArray (C (cet C ts) (cet C ts')) (fst r) (snd r)  (* :126 *)
    | TType t, TType t' => TType (C t t')                                            (* :131 *)
    | TVariant ts, TVariant ts' => mk_variant (udedup (ts ++ ts'))                   (* :136 *)
    | _, _ => ladder a b
    end.

  Fixpoint common_f (n : nat) (a b : ty) {struct n} : ty :=
    match n with
    | O => TOutOfFuel
    | S n' =>
        if is_unit a then b                                                          (* :14 *)
        else if is_unit b then a                                                     (* :17 *)
        else if asg a b then a                                                       (* :20 *)
        else if asg b a then b                                                       (* :23 *)
        else match string_merge a b with
             | Some c => c                                                           (* :28-62 *)
             | None => merge_same (common_f n') a b
             end
    end.

  Definition common (a b : ty) : ty := common_f (S (tsize a + tsize b)) a b.

  (* ---- v.PType() ---- *)
  Fixpoint infer (v : value) : ty :=
    match v with
    | VUndef => TUndef                                   (* undeftype.go:121 *)
    | VDefault => TDefault                               (* defaulttype.go:105 *)
    | VBool b => TBoolean (Some b)                       (* booleantype.go:309 *)
    | VInt z => TInteger z z                             (* integertype.go:456 *)
    | VFloat k => TFloat k k                             (* floattype.go:412 *)
    | VNaN => TFloat (- InfF) InfF                       (* floattype.go:408: no range contains NaN, floatTypeDefault *)
    | VStr s => TStringVal s                             (* stringtype.go:591 *)
    | VRegexp p => TRegexp p                             (* regexptype.go:274 *)
    | VBinary _ => TBinary                               (* binarytype.go:291 *)
    | VArr vs =>                                         (* arraytype.go:778 privateReducedType *)
        match vs with
        | [] => TArray TUnit 0 0
        | x :: r => TArray (fold_left (fun acc y => common acc (infer y)) r (infer x)) (zlen vs) (zlen vs)
        end
    | VHash es =>                                        (* hashtype.go:1367 privateReducedType *)
        match es with
        | [] => THash TUnit TUnit 0 0
        | (k, x) :: r =>
            THash (fold_left (fun acc e => common acc (match e with (k', _) => infer k' end)) r (infer k))
                  (fold_left (fun acc e => common acc (match e with (_, x') => infer x' end)) r (infer x))
                  (zlen es) (zlen es)
        end
    | VType t => TType t                                 (* every Type's PType: &TypeType{t} *)
    | VSensitive x => TSensitive (infer x)               (* sensitivetype.go:179 *)
    | VOther n => TOther n
    end.

  (* ---- px.DetailedValueType(v) ---- *)
  Definition name_of (k : value) : option str :=
    match k with VStr (c :: s) => Some (c :: s) | _ => None end.       (* a non-empty string *)

  Fixpoint infer_detailed (v : value) : ty :=
    match v with
    | VArr vs =>                                         (* arraytype.go:764 privateDetailedType *)
        match vs with
        | [] => TArray TUnit 0 0
        | _ => TTuple (map infer_detailed vs) false (zlen vs) (zlen vs)
        end
    | VHash es =>                                        (* hashtype.go:1326 privateDetailedType *)
        match es with
        | [] => THash TUnit TUnit 0 0
        | _ =>
          if forallb (fun e => match name_of (fst e) with Some _ => true | None => false end) es
          then TStruct (map (fun e => match e with
                                      | (k, x) =>
                                          let n := match name_of k with Some n => n | None => [] end in
                                          let dv := infer_detailed x in
                                          (* structtype.go:53 NewStructElement: the key is optional when the value type accepts Undef *)
                                          (n, (if asg dv TUndef then TOptional (TStringVal n) else TStringVal n, dv))
                                      end) es)
          else THash (mk_variant (udedup (map (fun e => match e with (k, _) => infer_detailed k end) es)))
                     (mk_variant (udedup (map (fun e => match e with (_, x) => infer_detailed x end) es)))
                     (zlen es) (zlen es)
        end
    | VSensitive x => TSensitive (infer_detailed x)      (* sensitivetype.go:183 *)
    | _ => infer v                                       (* types.go:376 *)
    end.

  (* ---- generalisation ----
     deep = true : px.Generalize (types.go:65): Generic() of a Generalizable, else Default() of a ParameterizedType
     deep = false: px.GenericType (types.go:379): Generic() of a Generalizable, else the type itself *)
  Fixpoint gen (deep : bool) (t : ty) {struct t} : ty :=
    match t with
    | TArray e lo hi =>                                  (* arraytype.go:161 *)
        if is_any e then TArray TAny 0 MaxI else TArray (gen true e) 0 MaxI
    | TBoolean _ => TBoolean None                        (* booleantype.go:100 *)
    | TCollection _ _ => TCollection 0 MaxI              (* collectiontype.go:94 *)
    | TEnum _ _ => TEnum false []                        (* enumtype.go:118 *)
    | TFloat _ _ => TFloat (- InfF) InfF                 (* floattype.go:128 floatTypeDefault *)
    | TInteger _ _ => TInteger MinI MaxI                 (* integertype.go:211 *)
    | THash k v _ _ => THash (gen false k) (gen false v) 0 MaxI          (* hashtype.go:257 *)
    | TNotUndef t => TNotUndef (gen false t)             (* notundeftype.go:83 *)
    | TOptional t => TOptional (gen false t)             (* optionaltype.go:83 *)
    | TSensitive t => TSensitive (gen false t)           (* sensitivetype.go:93 *)
    | TType t => TType (gen false t)                     (* typetype.go:90 *)
    | TStruct ms =>                                      (* structtype.go:218 *)
        TStruct (map (fun m => match m with (n, (k, v)) => (n, (gen false k, gen false v)) end) ms)
    | TTuple ts g lo hi => TTuple (map (gen true) ts) g lo hi            (* tupletype.go:201 *)
    | TVariant ts => TVariant (udedup (map (gen true) ts))               (* varianttype.go:84 *)
    | TPattern _ => if deep then TPattern [] else t      (* patterntype.go:76 Default *)
    | TRegexp _ => if deep then TRegexp [] else t        (* regexptype.go:98 Default *)
    | TString | TStringSz _ _ | TStringVal _ => if deep then TString else t   (* stringtype.go:146 Default *)
    | _ => t
    end.
  Definition generalize (t : ty) : ty := gen true t.
  Definition generic (t : ty) : ty := gen false t.
End Infer.
