(* SerAttrs.v — the attribute route of the rich-data serializer (property C10).  Definitions only.

   A value whose type is an Object type but which is neither a PuppetObject nor has a serialization string
   — in practice a parameterized type with an object or alias type among its parameters, e.g.
   Hash[Any, My::Rec] — travels as an instance of its meta type (Pcore::HashType), attribute by attribute,
   with the TRAILING default-valued optional attributes left out.

   Go sources mirrored:
     serialization/serializer.go:327-353   valueToDataHash, the px.ObjectType arm: read all attributes,
                                           strip the trailing default-valued optional ones, emit the rest
     types/attributesinfo.go:47-57         PositionalFromHash (name -> position, then fillValueSlice)
     types/objectvalue.go:103-117          fillValueSlice (a missing attribute receives its declared default;
                                           a missing required one is the error MISSING_REQUIRED_ATTRIBUTE)
   The hash constructors of the meta types (e.g. types/arraytype.go:42-47 h.Get5(name, default)) do the same
   per attribute.

   What the runtime is asked is data of the term (supplied by the harness through the public API):
   the attribute list of the meta type in serialization order, RequiredCount(), attribute.Get(value),
   attribute.Default(value), attribute.HasValue()/Value(). *)
From Coq Require Import Strings.String.
From Coq Require Import ZArith NArith Bool List.
From PcoreV Require Import Model.Base Model.Ser.
Import ListNotations.
Local Open Scope nat_scope.

(* types/structtype.go:29-39: the meta type of the elements of a Struct type and its two attributes *)
Definition t_struct_element : str := Eval compute in bytes_of "Pcore::StructElement".
Definition s_key_type   : str := Eval compute in bytes_of "key_type".
Definition s_value_type : str := Eval compute in bytes_of "value_type".

Section Attrs.
Context {payload : Type}.

(* one attribute of the meta type together with what the instance holds for it *)
Record attr := mkattr {
  a_name : str;                      (* attrs[i].Name() *)
  a_val : @rvalue payload;           (* attrs[i].Get(value), serializer.go:333 *)
  a_isdef : bool                     (* attrs[i].Default(args[i]), serializer.go:337 *)
}.

(* serializer.go:336-341
     for i := len(args) - 1; i >= ai.RequiredCount(); i-- {
       if !attrs[i].Default(args[i]) { break }
       args = args[:i]
     }
   on the reversed list: n = number of iterations still allowed (positions >= RequiredCount) *)
Fixpoint drop_defaults (n : nat) (rl : list attr) : list attr :=
  match n, rl with
  | S n', a :: rl' => if a_isdef a then drop_defaults n' rl' else rl
  | _, _ => rl
  end.

Definition trim (req : nat) (l : list attr) : list attr :=
  rev (drop_defaults (length l - req) (rev l)).

Definition attr_fields (l : list attr) : list (str * @rvalue payload) :=
  map (fun a => (a_name a, a_val a)) l.

(* serializer.go:342-350: addHash(1+len(args)), __ptype, the type, then name/value of every remaining
   attribute = the VObj arm of Ser.to_data on the trimmed list *)
Definition VObjT (id : N) (ty : @rvalue payload) (req : nat) (l : list attr) (disp : str) : @rvalue payload :=
  VObj id ty (S (length (trim req l))) (attr_fields (trim req l)) disp.

(* ---- the consumer side: from the hash of the given attributes back to ALL attribute values ---- *)
Record decl := mkdecl {
  d_name : str;
  d_default : option (@pvalue payload)   (* HasValue() / Value(): None = a required attribute *)
}.

(* attributesinfo.go:51-55: the entry whose key is the attribute's name *)
Fixpoint plookup (s : str) (given : list (@pvalue payload * @pvalue payload)) : option (@pvalue payload) :=
  match given with
  | [] => None
  | (PStr k, v) :: given' => if str_eqb s k then Some v else plookup s given'
  | _ :: given' => plookup s given'
  end.

(* attributesinfo.go:56-57 + objectvalue.go:103-117 *)
Definition fill_one (given : list (@pvalue payload * @pvalue payload)) (d : decl) : res (@pvalue payload) :=
  match plookup (d_name d) given with
  | Some v => Ok v
  | None => match d_default d with Some v => Ok v | None => Err end
  end.

Definition fill (ds : list decl) (given : list (@pvalue payload * @pvalue payload)) : res (list (@pvalue payload)) :=
  sequence (map (fill_one given) ds).

(* the attribute entries of a deserialized object *)
Definition pobj_attrs (p : @pvalue payload) : list (@pvalue payload * @pvalue payload) :=
  match p with PObj _ ats => ats | _ => [] end.

(* attribute.Default(v) is `a.value != nil && a.value.Equals(v)` (types/attribute.go:93-95): the flag is set
   only if the attribute declares a default and the value held equals it *)
Definition isdef_sound (a : attr) (d : decl) : Prop :=
  a_isdef a = true -> d_default d = Some (erase (a_val a)).

(* ---- reading the attributes (serializer.go:331-334, types/attribute.go:148-156 Get) ----
   attribute.Get asks the container's reader (the Get(key) method of the value); a value whose Go type has no
   reader for a declared attribute makes it panic with NO_ATTRIBUTE_READER.  reader = None: no reader. *)
Definition reading : Type := (str * option (@rvalue payload) * bool)%type.   (* name, Get, Default *)

Definition read_one (r : reading) : res attr :=
  match snd (fst r) with
  | Some v => Ok (mkattr (fst (fst r)) v (snd r))
  | None => Err
  end.
Definition read_all (rs : list reading) : res (list attr) := sequence (map read_one rs).

Definition readers_ok (rs : list reading) : bool :=
  forallb (fun r => match snd (fst r) with Some _ => true | None => false end) rs.

(* the px.ObjectType arm of valueToDataHash as a whole, under Convert *)
Definition attr_route_serialize (to_s : str -> payload -> str) (o : opts) (c : caps)
    (id : N) (ty : @rvalue payload) (req : nat) (rs : list reading) (disp : str) : res (list (@event payload)) :=
  bind (read_all rs) (fun l => Ok (serialize to_s o c (VObjT id ty req l disp))).

End Attrs.

Arguments attr : clear implicits.
Arguments decl : clear implicits.
Arguments reading : clear implicits.
