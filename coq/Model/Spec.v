(* Spec.v — the set denotation of every type constructor (C02), written from the Puppet type-system
   specification as a Prop-valued function by structural recursion on the type, with no reference to the
   implementation's algorithms (no inference, no counting, no "walk"): numeric ranges are inclusive, sizes count
   elements (characters for strings), Enum and Pattern test the string content (ignoring case only when asked
   to), Variant is union, Optional adds undef and NotUndef removes it, Array/Hash/Tuple/Struct constrain every
   element, key, position, required member and the size, Collection constrains the size only, and Type[T]
   contains exactly the types assignable to T. *)
From Coq Require Import ZArith NArith Bool List.
From PcoreV Require Import Model.Base Model.Ty Model.Lattice.
Import ListNotations.
Open Scope Z_scope.

Definition between (lo hi n : Z) : Prop := lo <= n /\ n <= hi.
(* the Float range without bounds: from -Inf to +Inf (order keys, Lattice.InfF) *)
Definition unbounded_float (lo hi : Z) : Prop := lo <= - InfF /\ InfF <= hi.

(* the predicate of position i of a tuple: the last type repeats for all further positions *)
Definition slot_pred (ps : list (value -> Prop)) (i : nat) : value -> Prop :=
  nth (Nat.min i (length ps - 1)) ps (fun _ => True).

Section Den.
  Variable rx : str -> str -> bool.      (* Go regexp matching *)
  Variable asgT : ty -> ty -> bool.      (* assignability between types (Type[T]) *)

  Fixpoint den (t : ty) (v : value) {struct t} : Prop :=
    match t with
    | TAny | TUnit => True
    | TUndef => v = VUndef
    | TDefault => v = VDefault
    | TBoolean None => exists b, v = VBool b
    | TBoolean (Some x) => v = VBool x
    | TInteger lo hi => exists z, v = VInt z /\ between lo hi z
    (* a Float range holds the floats between its bounds; NaN is not ordered, it belongs to the unbounded Float only *)
    | TFloat lo hi => (exists k, v = VFloat k /\ (between lo hi k \/ unbounded_float lo hi)) \/
                      (v = VNaN /\ unbounded_float lo hi)
    | TNumeric => (exists z, v = VInt z) \/ (exists k, v = VFloat k) \/ v = VNaN
    | TScalar => (exists s, v = VStr s) \/ (exists z, v = VInt z) \/ (exists k, v = VFloat k) \/ v = VNaN \/
                 (exists b, v = VBool b) \/ (exists p, v = VRegexp p)
    | TScalarData => (exists s, v = VStr s) \/ (exists z, v = VInt z) \/ (exists k, v = VFloat k) \/ v = VNaN \/
                     (exists b, v = VBool b)
    | TString => exists s, v = VStr s
    | TStringSz lo hi => exists s, v = VStr s /\ between lo hi (rune_count s)
    | TStringVal s => v = VStr s
    | TEnum ci vs => exists s, v = VStr s /\ (vs = [] \/ In (if ci then lower_ascii s else s) vs)
    | TPattern rxs => exists s, v = VStr s /\ (rxs = [] \/ exists p, In p rxs /\ rx p s = true)
    | TRegexp p => exists p', v = VRegexp p' /\ (p = [] \/ p = p')
    | TBinary => exists b, v = VBinary b
    | TCollection lo hi =>
        (exists vs, v = VArr vs /\ between lo hi (zlen vs)) \/ (exists es, v = VHash es /\ between lo hi (zlen es))
    | TArray e lo hi => exists vs, v = VArr vs /\ between lo hi (zlen vs) /\ forall x, In x vs -> den e x
    | THash k x lo hi =>
        exists es, v = VHash es /\ between lo hi (zlen es) /\ forall a b, In (a, b) es -> den k a /\ den x b
    | TTuple ts _ lo hi =>
        let ps := (fix dens (l : list ty) : list (value -> Prop) :=
                     match l with [] => [] | t' :: r => den t' :: dens r end) ts in
        exists vs, v = VArr vs /\ between lo hi (zlen vs) /\
                   (ps <> [] -> forall i x, nth_error vs i = Some x -> slot_pred ps i x)
    | TStruct ms =>
        let mps := (fix dens (l : list (str * (ty * ty))) : list (str * bool * (value -> Prop)) :=
                      match l with
                      | [] => []
                      | (n, (k, x)) :: r => (n, key_optional k, den x) :: dens r
                      end) ms in
        exists es, v = VHash es /\
          (* every entry is a declared member with a value of the member's type *)
          (forall a b, In (a, b) es -> exists n o p, In (n, o, p) mps /\ a = VStr n /\ p b) /\
          (* every required member is present *)
          (forall n p, In (n, false, p) mps -> exists b, In (VStr n, b) es)
    | TVariant ts =>
        (fix any (l : list ty) : Prop := match l with [] => False | t' :: r => den t' v \/ any r end) ts
    | TOptional t' => v = VUndef \/ den t' v
    | TNotUndef t' => v <> VUndef /\ den t' v
    | TType t' => exists u, v = VType u /\ asgT t' u = true
    | TSensitive t' => exists x, v = VSensitive x /\ den t' x
    | TOther _ => False
    end.
End Den.
