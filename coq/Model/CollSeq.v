(* CollSeq.v — the Array as a sequence of ARBITRARY values (types/arraytype.go), for the element classes that the
   universe of Model/Coll.v (undef, Boolean, Integer, String, Array, Hash, HashEntry) does not hold:
   values that cannot be hash keys (instances of Object types, Sensitive, TypedName, Deferred ...: px.ToKey raises
   PCORE_INVALID_MAP_KEY for them) and values that are equal to nothing, themselves included (NaN - which HAS a
   hash key - and Sensitive, whose Equals is constantly false, sensitivetype.go:167).
   Equals is defined for every value; a hash key is not: only the keys of a Hash need one.  The sequence operations
   below compare with Equals only, so they are total functions on every array. *)
From Coq Require Import ZArith NArith Bool List.
From PcoreV Require Import Model.Base.
Import ListNotations.

(* keyless: px.ToKey of the value panics (it implements neither px.HashKeyValue nor px.StringValue ...).
   EAtom _ c: a value that is equal exactly to the values of its equality class c (an Integer, a String, a Float that is
   no NaN, a TypedName, an instance of an Object type - equal attribute values -, a Deferred ...).
   ENever _ i: a value equal to nothing (NaN: floattype.go:234 `fv == ov`; Sensitive). *)
Inductive elem :=
| EAtom (keyless : bool) (c : N)
| ENever (keyless : bool) (i : N)
| EArr (l : list elem).

(* arraytype.go:465 Array.Equals: same length, element-wise; every other Equals: by class *)
Fixpoint aeq (a b : elem) : bool :=
  match a, b with
  | EAtom _ c, EAtom _ d => N.eqb c d
  | EArr l, EArr m =>
      (fix go (l m : list elem) : bool :=
         match l, m with
         | [], [] => true
         | x :: l', y :: m' => aeq x y && go l' m'
         | _, _ => false
         end) l m
  | _, _ => false
  end.

(* arraytype.go:572 Reject / :576 Select with the predicate `elem.Equals(x)` *)
Definition sreject_eq (l : list elem) (x : elem) : list elem := filter (fun e => negb (aeq e x)) l.
Definition sselect_eq (l : list elem) (x : elem) : list elem := filter (fun e => aeq e x) l.
(* arraytype.go:399 Delete: Reject(elem.Equals(ov)) *)
Definition sdelete (l : list elem) (x : elem) : list elem := filter (fun e => negb (aeq e x)) l.
(* arraytype.go:405 DeleteAll: Reject(ov.Any(elem.Equals(oe))) - the receiver element is the receiver of Equals *)
Definition sdelete_all (l : list elem) (xs : list elem) : list elem :=
  filter (fun e => negb (existsb (fun x => aeq e x) xs)) l.
(* arraytype.go:384 Any with the predicate `elem.Equals(x)` *)
Definition sany_eq (l : list elem) (x : elem) : bool := existsb (fun e => aeq e x) l.

(* arraytype.go:724 Unique (after fix: elements that cannot provide a hash key are compared by Equals with the kept
   ones, an element that is not equal to itself - NaN, a Sensitive, a list that holds one - is never a duplicate; the
   elements that have a key keep the map, and on them "same key" is Equals - C09_hash_key_equality_is_equals for the
   universe of Model/Coll.v, the class table of the harness here): an element is kept exactly when it is equal to none
   of the elements kept before it. *)
Fixpoint sunique_from (kept l : list elem) : list elem :=
  match l with
  | [] => []
  | v :: r => if existsb (fun w => aeq w v) kept then sunique_from kept r
              else v :: sunique_from (kept ++ [v]) r
  end.
Definition sunique (l : list elem) : list elem := sunique_from [] l.

Inductive sop :=
| SLit (e : elem)                 (* types.WrapValues(...) / a value of the zoo *)
| SDelete (r x : nat)
| SDeleteAll (r x : nat)
| SRejectEq (r x : nat)
| SSelectEq (r x : nat)
| SAdd (r x : nat)                (* arraytype.go:357 *)
| SAddAll (r x : nat)             (* arraytype.go:364 *)
| SAnyEq (r x : nat)
| SEquals (r x : nat)             (* pool[r].Equals(pool[x]) *)
| SLen (r : nat)
| SUnique (r : nat).              (* arraytype.go:724 *)

Inductive sout := OV (e : elem) | OB (b : bool) | ON (z : Z) | OErr.

Definition undef_elem : elem := EAtom false 0.

Definition arr_of (pool : list elem) (i : nat) : option (list elem) :=
  match nth_error pool i with Some (EArr l) => Some l | _ => None end.

Definition with_arr (pool : list elem) (r : nat) (f : list elem -> sout) : sout :=
  match arr_of pool r with Some l => f l | None => OErr end.
Definition with_val (pool : list elem) (x : nat) (f : elem -> sout) : sout :=
  match nth_error pool x with Some e => f e | None => OErr end.

Definition sstep (pool : list elem) (o : sop) : sout :=
  match o with
  | SLit e => OV e
  | SDelete r x => with_arr pool r (fun l => with_val pool x (fun e => OV (EArr (sdelete l e))))
  | SDeleteAll r x => with_arr pool r (fun l => with_arr pool x (fun xs => OV (EArr (sdelete_all l xs))))
  | SRejectEq r x => with_arr pool r (fun l => with_val pool x (fun e => OV (EArr (sreject_eq l e))))
  | SSelectEq r x => with_arr pool r (fun l => with_val pool x (fun e => OV (EArr (sselect_eq l e))))
  | SAdd r x => with_arr pool r (fun l => with_val pool x (fun e => OV (EArr (l ++ [e]))))
  | SAddAll r x => with_arr pool r (fun l => with_arr pool x (fun xs => OV (EArr (l ++ xs))))
  | SAnyEq r x => with_arr pool r (fun l => with_val pool x (fun e => OB (sany_eq l e)))
  | SEquals r x => with_val pool r (fun a => with_val pool x (fun b => OB (aeq a b)))
  | SLen r => with_arr pool r (fun l => ON (Z.of_nat (length l)))
  | SUnique r => with_arr pool r (fun l => OV (EArr (sunique l)))
  end.

(* every step appends its result to the pool (undef for a result that is no value) *)
Definition pool_val (o : sout) : elem := match o with OV e => e | _ => undef_elem end.

Fixpoint srun_from (pool : list elem) (ops : list sop) : list sout :=
  match ops with
  | [] => []
  | o :: r => let x := sstep pool o in x :: srun_from (pool ++ [pool_val x]) r
  end.
Definition srun (ops : list sop) : list sout := srun_from [] ops.

Fixpoint spool_after (pool : list elem) (ops : list sop) : list elem :=
  match ops with
  | [] => pool
  | o :: r => spool_after (pool ++ [pool_val (sstep pool o)]) r
  end.

(* executable equality of observed results: IDENTITY of the elements (same class and same flag / the very same
   never-equal value), not aeq - NaN must be found where NaN was *)
Fixpoint elem_same (a b : elem) : bool :=
  match a, b with
  | EAtom k c, EAtom k' d => Bool.eqb k k' && N.eqb c d
  | ENever k i, ENever k' j => Bool.eqb k k' && N.eqb i j
  | EArr l, EArr m =>
      (fix go (l m : list elem) : bool :=
         match l, m with
         | [], [] => true
         | x :: l', y :: m' => elem_same x y && go l' m'
         | _, _ => false
         end) l m
  | _, _ => false
  end.
Definition sout_eqb (a b : sout) : bool :=
  match a, b with
  | OV x, OV y => elem_same x y
  | OB x, OB y => Bool.eqb x y
  | ON x, ON y => Z.eqb x y
  | OErr, OErr => true
  | _, _ => false
  end.
