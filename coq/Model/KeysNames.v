(* KeysNames.v — C07: the hidden state "cached canonical form" of a TypedName (types/typedname.go).
   Definitions only; the lemmas are in Proofs/KeysNamesProofs.v.

   A TypedName is a value (a Pcore object with the attributes namespace, name, authority).  Next to these visible
   parts it keeps `canonical`, the lower case text authority/namespace/name, which MapKey returns and which Equals
   compares (typedname.go:201).  newTypedName2 computes it (:119); Child(), Parent() and RelativeTo(parent) do not:
   they cut it out of the canonical form of the name they start from, at offsets that they take from the name
   (child :147, Parent :178).  Here the field is explicit state, the slice expressions are explicit (with the
   runtime fault of a slice bound out of range), and the routes are the expressions `nexpr`.
   The field `parts` is left out: no statement of the tree assigns anything but a copy of another name's `parts`
   to it (child :170, Parent :193; Parts() does not store since 06c04d5), so it is nil in every name. *)
From Coq Require Import ZArith NArith Bool List Arith.
From PcoreV Require Import Model.Base.
Import ListNotations.
Open Scope nat_scope.

(* ---------------------------------------------------------------- strings.ToLower *)

Definition ascii_byte (b : N) : bool := N.ltb b 128.
Definition ascii_str (s : str) : bool := forallb ascii_byte s.

(* 'A'..'Z' -> 'a'..'z' *)
Definition lower_byte (b : N) : N := if andb (N.leb 65 b) (N.leb b 90) then N.add b 32 else b.

(* strings.ToLower on a string with bytes >= 0x80 maps rune by rune (unicode.ToLower).  Modelled for the letters
   the correspondence uses: U+212A KELVIN SIGN e2 84 aa -> 'k', U+0130 c4 b0 -> 'i', U+023A c8 ba -> U+2C65 e2 b1 a5,
   U+00C9 c3 89 -> U+00E9 c3 a9; every other byte sequence is taken to be caseless (trusted base; the theorems hold
   for any function in this place: the proofs unfold to_lower on ASCII strings only, Proofs/KeysNamesProofs.v
   to_lower_ascii). *)
Fixpoint lower_u (fuel : nat) (s : str) : str :=
  match fuel with
  | O => s
  | S fuel' =>
      match s with
      | 226%N :: 132%N :: 170%N :: r => 107%N :: lower_u fuel' r
      | 196%N :: 176%N :: r => 105%N :: lower_u fuel' r
      | 200%N :: 186%N :: r => 226%N :: 177%N :: 165%N :: lower_u fuel' r
      | 195%N :: 137%N :: r => 195%N :: 169%N :: lower_u fuel' r
      | b :: r => lower_byte b :: lower_u fuel' r
      | [] => []
      end
  end.

(* strings.ToLower: the ASCII fast path (isASCII, no upper -> same; else byte-wise) and the general path *)
Definition to_lower (s : str) : str :=
  if ascii_str s then map lower_byte s else lower_u (length s) s.

(* ---------------------------------------------------------------- the struct *)

Record tname := mkTName {
  tn_ns : str;          (* namespace px.Namespace *)
  tn_auth : str;        (* authority px.URI *)
  tn_name : str;        (* name *)
  tn_canonical : str    (* canonical: "" = not computed *)
}.

Definition sep : str := [58%N; 58%N].        (* "::" *)
Definition slash : N := 47%N.

(* strings.ToLower(authority + "/" + namespace + "/" + name): what the visible parts determine *)
Definition canon_of (ns auth name : str) : str := to_lower (auth ++ slash :: ns ++ slash :: name).
Definition canon_of_t (t : tname) : str := canon_of (tn_ns t) (tn_auth t) (tn_name t).

(* strings.TrimPrefix(name, "::") *)
Definition trim_sep (s : str) : str :=
  match s with
  | 58%N :: 58%N :: r => r
  | _ => s
  end.

(* newTypedName2 typedname.go:115 *)
Definition new_typed_name (ns auth name : str) : tname :=
  let n := trim_sep name in mkTName ns auth n (canon_of ns auth n).

(* results of operations that can report an error / escape with a runtime fault / return nil *)
Inductive nres :=
 | RName (t : tname)
 | RNil              (* a nil TypedName *)
 | RNotRel           (* RelativeTo: (nil, false) *)
 | RErr              (* a reported error (issue) *)
 | RFault.           (* a Go runtime fault: slice bounds out of range *)

(* strings.LastIndexByte(s, c) *)
Fixpoint last_index_byte (c : N) (s : str) : option nat :=
  match s with
  | [] => None
  | b :: r => match last_index_byte c r with
              | Some i => Some (S i)
              | None => if N.eqb b c then Some 0 else None
              end
  end.

(* typedNameFromMapKey typedname.go:127 *)
Definition typed_name_from_map_key (k : str) : nres :=
  match last_index_byte slash k with
  | Some (S i) =>                                         (* i > 0 *)
      let pfx := firstn (S i) k in
      let name := skipn (S (S i)) k in
      match last_index_byte slash pfx with
      | Some (S j) => RName (new_typed_name (skipn (S (S j)) pfx) (firstn (S j) pfx) name)
      | _ => RErr
      end
  | _ => RErr
  end.

(* sx = strings.Index(name, "::"); name[sx+2:]  (None: sx < 0) *)
Fixpoint after_sep (s : str) : option str :=
  match s with
  | [] => None
  | a :: r => match r with
              | b :: r' => if andb (N.eqb a 58) (N.eqb b 58) then Some r' else after_sep r
              | [] => None
              end
  end.

(* strings.LastIndex(name, "::") *)
Fixpoint last_sep (s : str) : option nat :=
  match s with
  | [] => None
  | a :: r => match last_sep r with
              | Some i => Some (S i)
              | None => match r with
                        | b :: _ => if andb (N.eqb a 58) (N.eqb b 58) then Some 0 else None
                        | [] => None
                        end
              end
  end.

(* the loop of child: stripCount times name = name[Index(name, "::")+2:] ; None: a separator is missing *)
Fixpoint strip (n : nat) (name : str) : option str :=
  match n with
  | O => Some name
  | S n' => match after_sep name with
            | Some r => strip n' r
            | None => None
            end
  end.

(* Go slice expressions s[:k], s[k:] with the bound check *)
Definition slice_to (s : str) (k : nat) : option str := if Nat.leb k (length s) then Some (firstn k s) else None.
Definition slice_from (s : str) (k : nat) : option str := if Nat.leb k (length s) then Some (skipn k s) else None.

(* plain() (fix of this round): every byte of authority, namespace and name is ASCII *)
Definition plain (t : tname) : bool := ascii_str (tn_auth t) && ascii_str (tn_ns t) && ascii_str (tn_name t).

Definition is_empty (s : str) : bool := match s with [] => true | _ => false end.

(* child(stripCount) typedname.go:147 *)
Definition child (t : tname) (strip_count : nat) : nres :=
  match strip strip_count (tn_name t) with
  | None => RNil
  | Some name =>
      if negb (plain t) then RName (mkTName (tn_ns t) (tn_auth t) name (canon_of (tn_ns t) (tn_auth t) name))
      else if is_empty (tn_canonical t) then RName (mkTName (tn_ns t) (tn_auth t) name [])
      else
        let pfx_len := length (tn_auth t) + length (tn_ns t) + 2 in
        let diff := length (tn_name t) - length name in
        match slice_to (tn_canonical t) pfx_len, slice_from (tn_canonical t) (pfx_len + diff) with
        | Some a, Some b => RName (mkTName (tn_ns t) (tn_auth t) name (a ++ b))
        | _, _ => RFault
        end
  end.

(* IsQualified :224 (parts == nil): strings.Contains(name, "::") *)
Definition is_qualified (t : tname) : bool := match after_sep (tn_name t) with Some _ => true | None => false end.

(* Child :140 *)
Definition tn_child (t : tname) : nres := if is_qualified t then child t 1 else RNil.

(* Parent :178 *)
Definition tn_parent (t : tname) : nres :=
  match last_sep (tn_name t) with
  | None => RNil
  | Some lx =>
      let name := firstn lx (tn_name t) in
      if negb (plain t) then RName (mkTName (tn_ns t) (tn_auth t) name (canon_of (tn_ns t) (tn_auth t) name))
      else if is_empty (tn_canonical t) then RName (mkTName (tn_ns t) (tn_auth t) name [])
      else
        let pfx_len := length (tn_auth t) + length (tn_ns t) + 2 in
        match slice_to (tn_canonical t) (pfx_len + lx) with
        | Some a => RName (mkTName (tn_ns t) (tn_auth t) name a)
        | None => RFault
        end
  end.

(* strings.Split(s, "::") *)
Fixpoint split_sep (fuel : nat) (s : str) : list str :=
  match fuel with
  | O => [s]
  | S fuel' =>
      (fix go (acc s : str) {struct s} : list str :=
         match s with
         | [] => [rev acc]
         | a :: r => match r with
                     | b :: r' => if andb (N.eqb a 58) (N.eqb b 58) then rev acc :: split_sep fuel' r' else go (a :: acc) r
                     | [] => [rev (a :: acc)]
                     end
         end) [] s
  end.

Definition is_alpha (b : N) : bool := (N.leb 65 b && N.leb b 90) || (N.leb 97 b && N.leb b 122).
Definition is_word (b : N) : bool := is_alpha b || (N.leb 48 b && N.leb b 57) || N.eqb b 95.
(* allowedCharacters = \A[A-Za-z][0-9A-Z_a-z]*\z *)
Definition allowed_part (p : str) : bool := match p with b :: r => is_alpha b && forallb is_word r | [] => false end.

(* Parts :238 (parts == nil): None = the reported error InvalidCharactersInName *)
Definition tn_parts (t : tname) : option (list str) :=
  let ps := split_sep (length (tn_name t)) (to_lower (tn_name t)) in
  if forallb allowed_part ps then Some ps else None.

Fixpoint is_prefix (a b : list str) : bool :=
  match a, b with
  | [], _ => true
  | x :: a', y :: b' => str_eqb x y && is_prefix a' b'
  | _ :: _, [] => false
  end.

(* parent.IsParent(t) :207 followed by t.child(len(parent.Parts())) :219 *)
Definition tn_relative_to (t parent : tname) : nres :=
  match tn_parts parent, tn_parts t with
  | Some tps, Some ops =>
      if Nat.ltb (length tps) (length ops) && is_prefix tps ops then child t (length tps) else RNotRel
  | _, _ => RErr
  end.

(* MapKey :231: the lazily computed form when the field is empty *)
Definition tn_map_key (t : tname) : str := if is_empty (tn_canonical t) then canon_of_t t else tn_canonical t.

(* Equals :199 *)
Definition tn_equals (a b : tname) : bool := str_eqb (tn_map_key a) (tn_map_key b).

(* ---------------------------------------------------------------- construction routes *)

Inductive nexpr :=
 | NNew (ns auth name : str)
 | NFromKey (k : str)
 | NChild (e : nexpr)
 | NParent (e : nexpr)
 | NRel (e parent : nexpr).

Definition bind (r : nres) (f : tname -> nres) : nres := match r with RName t => f t | _ => r end.

Fixpoint nx_eval (e : nexpr) : nres :=
  match e with
  | NNew ns auth name => RName (new_typed_name ns auth name)
  | NFromKey k => typed_name_from_map_key k
  | NChild e => bind (nx_eval e) tn_child
  | NParent e => bind (nx_eval e) tn_parent
  | NRel e p => bind (nx_eval e) (fun t => bind (nx_eval p) (fun pt => tn_relative_to t pt))
  end.

(* the invariant of the field: empty, or what the visible parts determine *)
Definition tn_ok (t : tname) : Prop := tn_canonical t = [] \/ tn_canonical t = canon_of_t t.

(* equality as the visible parts alone decide it *)
Definition visible_eqb (a b : tname) : bool := str_eqb (canon_of_t a) (canon_of_t b).

(* ---------------------------------------------------------------- a fragment for the open finding typeset-key-by-content:
   typeSet.Equals typeset.go:224 compares name, name authority, pcore URI, pcore version and version; the hash key
   (appendKey types.go:580 over Parameters() typeset.go:407) is written from the init hash, which also holds the
   types and references, entry by entry in insertion order.  `ts_content` stands for the bytes written for them. *)
Record tsty := mkTs { ts_name : str; ts_auth : str; ts_uri : str; ts_pcore_version : str; ts_version : str; ts_content : str }.
Definition ts_eqb (a b : tsty) : bool :=
  str_eqb (ts_name a) (ts_name b) && str_eqb (ts_auth a) (ts_auth b) && str_eqb (ts_uri a) (ts_uri b)
  && str_eqb (ts_pcore_version a) (ts_pcore_version b) && str_eqb (ts_version a) (ts_version b).
Definition ts_key (a : tsty) : str :=
  1%N :: 116%N :: ts_name a ++ ts_pcore_version a ++ ts_auth a ++ ts_uri a ++ ts_version a ++ ts_content a ++ [0%N].
