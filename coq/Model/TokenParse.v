(* TokenParse.v — property C05, layer L2 (tokens <-> expressions).
   An executable model of types/parser.go over the token stream of the lexer:
     parser.element (parser.go:317), handleTypeArgs (:391), array (:190), hash (:279), convertHashEntries (:364),
     the top level parse (:161) without the `type X = ...` / top level `k => v` forms,
   with the collector (basiccollector.go) as explicit accumulators: the values added since the enclosing
   AddArray / AddHash began.
   A parameter list in parentheses (parser.params, Name(...) constructor calls, Deferred) is outside the model:
   PUnmodelled. Printed types and literal values never contain one.
   Definitions only. *)
From Coq Require Import ZArith NArith Bool List.
From PcoreV Require Import Model.Base Model.QuoteLex.
Import ListNotations.
Open Scope Z_scope.

(* a token: kind and unescaped text (lexer.go:16-34, 78) *)
Inductive tok :=
| KEnd | KName (s : str) | KIdent (s : str) | KInt (text : str) | KFloat (text : str)
| KRegexp (s : str) | KString (s : str)
| KLBracket | KRBracket | KLBrace | KRBrace | KLParen | KRParen | KComma | KDot | KRocket | KEqual.

(* a parsed value (before the deferred types are resolved) *)
Inductive pval :=
| PVUndef | PVDefault | PVBool (b : bool) | PVInt (z : Z)
| PVFloat (text : str)                 (* strconv.ParseFloat(text): an oracle, the text is kept *)
| PVStr (s : str) | PVRegexp (s : str)
| PVArr (es : list pval)
| PVHash (kvs : list (pval * pval))    (* the entries in the order written *)
| PVEntry (k v : pval)                 (* `k => v` inside an array, before convertHashEntries *)
| PVType (name : str) (params : option (list pval)).   (* DeferredType *)

Inductive pres (A : Type) :=
| POk (a : A)
| PErr                    (* a syntax error (badSyntax), a number out of range, a regexp that does not compile *)
| PUnmodelled             (* a '(' parameter list *)
| POutOfFuel.
Arguments POk {A}. Arguments PErr {A}. Arguments PUnmodelled {A}. Arguments POutOfFuel {A}.

Definition s_true : str := [116; 114; 117; 101]%N.
Definition s_false : str := [102; 97; 108; 115; 101]%N.
Definition s_default : str := [100; 101; 102; 97; 117; 108; 116]%N.
Definition s_undef : str := [117; 110; 100; 101; 102]%N.

(* parser.nextToken at the head of the remaining tokens; the lexer keeps answering `end` at the end *)
Definition next (ts : list tok) : tok * list tok :=
  match ts with
  | [] => (KEnd, [])
  | t :: r => (t, r)
  end.

(* parser.go:364 convertHashEntries: consecutive entries become one hash *)
Fixpoint convert_hash_entries (l : list pval) (en : option (list (pval * pval))) : list pval :=
  match l with
  | [] => match en with Some es => [PVHash es] | None => [] end
  | PVEntry k v :: r => convert_hash_entries r (Some (match en with Some es => es ++ [(k, v)] | None => [(k, v)] end))
  | x :: r => (match en with Some es => [PVHash es] | None => [] end) ++ x :: convert_hash_entries r None
  end.

Definition finish_array (acc : list pval) (array_hash : bool) : pval :=
  if array_hash then PVArr (convert_hash_entries acc None) else PVArr acc.

Section Parser.
  (* regexp.Compile succeeds (regexptype.go:203 WrapRegexp): an oracle *)
  Variable rx_ok : str -> bool.

  (* parser.go:317 element, the arms that add one value at once *)
  Definition simple_element (t : tok) : option (pres pval) :=
    match t with
    | KInt text => Some (match parse_int0 text with Some z => POk (PVInt z) | None => PErr end)
    | KFloat text => Some (POk (PVFloat text))
    | KIdent s =>
      Some (POk (if str_eqb s s_true then PVBool true
                 else if str_eqb s s_false then PVBool false
                 else if str_eqb s s_default then PVDefault
                 else if str_eqb s s_undef then PVUndef
                 else PVStr s))
    | KString s => Some (POk (PVStr s))
    | KRegexp s => Some (if rx_ok s then POk (PVRegexp s) else PErr)
    | _ => None
    end.

  (* pvalue: element(t) and, when it was an element, the handleTypeArgs() that every caller runs next.
       POk (None, t, rest)        t does not start an element (element returns it)
       POk (Some v, tk, rest')    the value, the token handleTypeArgs returns, the tokens after that one
     parr / phash: the bodies of array() / hash() after the opening token; acc = what the collector holds
     for this array / hash so far, rock = rockLhs, ah = arrayHash *)
  Fixpoint pvalue (fuel : nat) (t : tok) (rest : list tok) {struct fuel} : pres (option pval * tok * list tok) :=
    match fuel with
    | O => POutOfFuel
    | S f =>
      match t with
      | KLBrace =>                                                   (* parser.go:319 *)
        match phash f rest [] with
        | POk (v, r1) => let (tk, r2) := next r1 in POk (Some v, tk, r2)
        | PErr => PErr | PUnmodelled => PUnmodelled | POutOfFuel => POutOfFuel
        end
      | KLBracket =>                                                 (* parser.go:321 *)
        match parr f rest [] None false with
        | POk (v, r1) => let (tk, r2) := next r1 in POk (Some v, tk, r2)
        | PErr => PErr | PUnmodelled => PUnmodelled | POutOfFuel => POutOfFuel
        end
      | KLParen => PUnmodelled                                       (* parser.go:323 *)
      | KName n =>                                                   (* parser.go:354, then handleTypeArgs :391 *)
        let (tk, r1) := next rest in
        match tk with
        | KLBracket =>
          match parr f r1 [] None false with
          | POk (PVArr [], _) => PErr                                (* empty parameter list, parser.go:404 *)
          | POk (PVArr es, r2) => let (tk2, r3) := next r2 in POk (Some (PVType n (Some es)), tk2, r3)
          | POk (_, _) => PErr
          | PErr => PErr | PUnmodelled => PUnmodelled | POutOfFuel => POutOfFuel
          end
        | KLBrace =>
          match phash f r1 [] with
          | POk (h, r2) => let (tk2, r3) := next r2 in POk (Some (PVType n (Some [h])), tk2, r3)
          | PErr => PErr | PUnmodelled => PUnmodelled | POutOfFuel => POutOfFuel
          end
        | KLParen => PUnmodelled
        | _ => POk (Some (PVType n None), tk, r1)
        end
      | _ =>
        match simple_element t with
        | Some (POk v) => let (tk, r1) := next rest in POk (Some v, tk, r1)
        | Some PErr => PErr
        | Some PUnmodelled => PUnmodelled
        | Some POutOfFuel => POutOfFuel
        | None => POk (None, t, rest)
        end
      end
    end
  with parr (fuel : nat) (rest : list tok) (acc : list pval) (rock : option pval) (ah : bool) {struct fuel}
    : pres (pval * list tok) :=
    match fuel with
    | O => POutOfFuel
    | S f =>
      let (t, r1) := next rest in
      match pvalue f t r1 with
      | POk (None, _, _) =>
        (* ']' instead of an element: an empty array or an extra comma *)
        match t with KRBracket => POk (finish_array acc ah, r1) | _ => PErr end
      | POk (Some v, tk, r2) =>
        let '(acc1, ah1) := match rock with
                            | Some l => (acc ++ [PVEntry l v], true)
                            | None => (acc ++ [v], ah)
                            end in
        match tk with
        | KRBracket => POk (finish_array acc1 ah1, r2)
        | KComma => parr f r2 acc1 None ah1
        | KRocket => parr f r2 (removelast acc1) (Some (last acc1 PVUndef)) ah1
        | _ => PErr
        end
      | PErr => PErr | PUnmodelled => PUnmodelled | POutOfFuel => POutOfFuel
      end
    end
  with phash (fuel : nat) (rest : list tok) (acc : list (pval * pval)) {struct fuel} : pres (pval * list tok) :=
    match fuel with
    | O => POutOfFuel
    | S f =>
      let (t, r1) := next rest in
      match pvalue f t r1 with
      | POk (None, _, _) => match t with KRBrace => POk (PVHash acc, r1) | _ => PErr end
      | POk (Some k, tk, r2) =>
        match tk with
        | KRocket =>
          let (t2, r3) := next r2 in
          match pvalue f t2 r3 with
          | POk (None, _, _) => PErr
          | POk (Some v, tk2, r4) =>
            match tk2 with
            | KRBrace => POk (PVHash (acc ++ [(k, v)]), r4)
            | KComma => phash f r4 (acc ++ [(k, v)])
            | _ => PErr
            end
          | PErr => PErr | PUnmodelled => PUnmodelled | POutOfFuel => POutOfFuel
          end
        | _ => PErr
        end
      | PErr => PErr | PUnmodelled => PUnmodelled | POutOfFuel => POutOfFuel
      end
    end.

  (* parser.go:161 parse (the plain form): one value, then the end *)
  (* fuel: every call consumes a token before it calls on; two units per token are enough (TokenParseProofs) *)
  Definition parse_tokens (ts : list tok) : pres pval :=
    let fuel := S (2 * length ts) in
    let (t, r) := next ts in
    match pvalue fuel t r with
    | POk (Some v, KEnd, _) => POk v
    | POk (Some _, KRocket, _) => PUnmodelled       (* top level `k => v` *)
    | POk (Some _, _, _) => PErr
    | POk (None, KEnd, _) => POk PVUndef            (* parser.go:167 an empty input is undef *)
    | POk (None, _, _) => PErr
    | PErr => PErr | PUnmodelled => PUnmodelled | POutOfFuel => POutOfFuel
    end.
End Parser.

(* ------------------------------------------------------------------------------------------ *)
(* the tokens a value prints as                                                                 *)

Fixpoint sep_by {A} (sep : list A) (l : list (list A)) : list A :=
  match l with
  | [] => []
  | [x] => x
  | x :: r => x ++ sep ++ sep_by sep r
  end.

Fixpoint tokens_of (v : pval) : list tok :=
  match v with
  | PVUndef => [KIdent s_undef]
  | PVDefault => [KIdent s_default]
  | PVBool true => [KIdent s_true]
  | PVBool false => [KIdent s_false]
  | PVInt z => [KInt (format_int z)]
  | PVFloat text => [KFloat text]
  | PVStr s => [KString s]
  | PVRegexp s => [KRegexp s]
  | PVArr es => KLBracket :: sep_by [KComma] (map tokens_of es) ++ [KRBracket]
  | PVHash kvs =>
    KLBrace :: sep_by [KComma] (map (fun kv => tokens_of (fst kv) ++ KRocket :: tokens_of (snd kv)) kvs) ++ [KRBrace]
  | PVEntry k v => tokens_of k ++ KRocket :: tokens_of v
  | PVType n None => [KName n]
  | PVType n (Some ps) => KName n :: KLBracket :: sep_by [KComma] (map tokens_of ps) ++ [KRBracket]
  end.

(* what can be printed so that it is read back: integers of 64 bits, regexps that compile, no bare entry,
   no empty parameter list *)
Section Printable.
  Variable rx_ok : str -> bool.
  Fixpoint printable (v : pval) : bool :=
    match v with
    | PVInt z => in_int64 z
    | PVRegexp s => rx_ok s
    | PVArr es => forallb printable es
    | PVHash kvs => forallb (fun kv => printable (fst kv) && printable (snd kv)) kvs
    | PVEntry _ _ => false
    | PVType _ None => true
    | PVType _ (Some ps) => match ps with [] => false | _ => forallb printable ps end
    | _ => true
    end.
End Printable.

(* the token after a value in printed text *)
Definition follows (t : tok) : bool :=
  match t with KComma | KRBracket | KRBrace | KRocket | KEnd => true | _ => false end.

(* the weakest condition on the token after a value for the value to be read as printed: not the start of an
   argument list (handleTypeArgs, parser.go:391, would take `Name [` / `Name {` / `Name (` for a parameterized type) *)
Definition no_args (t : tok) : bool :=
  match t with KLBracket | KLBrace | KLParen => false | _ => true end.
