(* LoaderAdd.v — px.AddTypes on the loaders of Model/Loader.v: the route by which whole families of names are
   defined at once.  Mirrors, for `px.AddTypes(c, c.ParseType(src)...)` with loader L as the context's loader,
     px/context.go:114        AddTypes
     internal/context.go:238  resolveTypes
     internal/context.go:268  resolveTypeSet
     types/typeset.go:412     typeSet.Resolve  (the loader part: px.NewTypeSetLoader(c.Loader(), t), nested sets)
     types/objecttype.go:197  objectType.Constructor, :1126 createNewFunction (the allocator part)
   The loops of these functions run over the types handed in, not over the loaders: `compile` unrolls them into
   the sequence of loader calls they make (SetEntry; LoadEntry followed by `le == nil || le.Value() == nil`;
   NewTypeSetLoader) and `exec` runs that sequence on a machine — the model (`step`, `add_node`) or the abstract
   specification (`spec_step`, `spec_add`).  A panic (AttemptToRedefine...) ends the call where it is raised.

   What a type shows to these functions: its name, whether it is an ObjectType or a TypeSet, its members, and
   the identities of the values that get bound (the type, its constructor, its allocator).  The types are parsed
   afresh for the call (constructors not made yet), they refer to core types only (parsing and resolving them asks
   the loaders nothing that is cached), an object type that is not a member of a set has L as its loader.
   Definitions only. *)
From Coq Require Import NArith Bool List.
From PcoreV Require Import Model.Base Model.Loader Model.LoaderSpec.
Import ListNotations.

Inductive mtype :=
| MPlain (name : str) (v : val)                               (* neither ObjectType nor TypeSet: alias, Integer, ... *)
| MObject (name : str) (v : val) (alloc ctor : option val)    (* alloc: the allocator createNewFunction registers (no creators, a name);
                                                                 ctor: what Constructor(c) answers, None = nil *)
| MSet (name : str) (v : val) (members : list (str * mtype))  (* Types(): key |-> member, in order *)
| MBroken (name : str) (v : val).                             (* an object type whose Resolve(c) is rejected with a reported error (a parent
                                                                 that is no object type, an attribute of an unknown kind, an override that
                                                                 is not marked): resolveTypes / typeSet.Resolve end there with a panic *)

Definition mt_val (m : mtype) : val :=
  match m with MPlain _ v | MObject _ v _ _ | MSet _ v _ | MBroken _ v => v end.

Definition ns_ctor : str := [99; 111; 110; 115; 116; 114; 117; 99; 116; 111; 114]%N.    (* px.NsConstructor = "constructor" *)
Definition ns_alloc : str := [97; 108; 108; 111; 99; 97; 116; 111; 114]%N.              (* px.NsAllocator = "allocator" *)

(* a loader the call refers to: L itself or the k-th type-set loader the call has created *)
Inductive lref := HL | HH (k : nat).

(* one loader call sequence element *)
Inductive act :=
| ASet (r : lref) (n : tname) (v : val)          (* r.SetEntry(n, px.NewLoaderEntry(v, nil)) *)
| AUnlessSet (r : lref) (n : tname) (v : val).   (* le := r.LoadEntry(c, n); if le == nil || le.Value() == nil { r.SetEntry(n, ...v) } *)

(* what happens to the context rather than to a loader *)
Inductive cact :=
| CEnter (r : lref)      (* internal/context.go:91 c.DoWithLoader(r, doer): the context holds r while doer runs *)
| CLeave                 (* doer has returned: the deferred function (context.go:93) puts the saved loader back *)
| CFail.                 (* the Resolve of a member / an object type panics with a reported error *)

Inductive instr :=
| IAct (a : act)
| INode (parent : lref) (ts : tset)              (* px.NewTypeSetLoader(parent, ts) *)
| IUnless (r : lref) (n : tname) (body : list act)    (* le := r.LoadEntry(c, n); if le == nil || le.Value() == nil { body } *)
| ICtx (c : cact).

Section Compile.
  Variable auth : str.    (* px.RuntimeNameAuthority: px.NewTypedName(ns, name) *)

  Definition tn_of (ns name : str) : tname := mkTn auth ns name.

  (* typeset.go:412: the type set as its type-set loader sees it *)
  Definition tset_of (name : str) (ms : list (str * mtype)) : tset :=
    mkTs auth name (map (fun km => (fst km, mt_val (snd km))) ms).

  (* objecttype.go:197 Constructor -> :1126 createNewFunction for an object type whose loader is tl
     (:1138-1150 `le := dl.LoadEntry(c, tn); if le == nil || le.Value() == nil { dl.SetEntry(tn, allocator) }`),
     then internal/context.go:247 / :284 `if ctor != nil { l.SetEntry(NewTypedName(NsConstructor, t.Name()), ctor) }` *)
  Definition construct (tl : lref) (name : str) (alloc ctor : option val) : list act :=
    match alloc with Some a => [AUnlessSet tl (tn_of ns_alloc name) a] | None => [] end ++
    match ctor with Some c => [ASet HL (tn_of ns_ctor name) c] | None => [] end.

  (* internal/context.go:276-288: one member t of a type set whose type-set loader is `me` *)
  Definition member_instr (me : lref) (m : mtype) : instr :=
    match m with
    | MPlain name v | MSet name v _ | MBroken name v => IUnless HL (tn_of ns_type name) [ASet HL (tn_of ns_type name) v]
    | MObject name v al ct => IUnless HL (tn_of ns_type name) (ASet HL (tn_of ns_type name) v :: construct me name al ct)
    end.

  (* A type set is resolved (typeset.go:412) with `h` as the current loader, `next` type-set loaders made so far:
     its own type-set loader is the next one, the members - nested sets among them - are resolved inside
     `c.DoWithLoader(px.NewTypeSetLoader(c.Loader(), t), ...)` (:427), in the order of Types() (:431 MapValues);
     a member whose Resolve is rejected ends the call there (CFail).  resolveTypeSet (context.go:268) then walks the members in the same order, a nested set
     before the member that it is (:271).  Answer: the loaders made, the calls of resolveTypeSet, the new count. *)
  Fixpoint plan (h : lref) (next : nat) (m : mtype) {struct m} : list instr * list instr * nat :=
    match m with
    | MSet name v ms =>
      let me := HH next in
      let '(ks, is, nx) :=
        (fix go (nx0 : nat) (ms : list (str * mtype)) {struct ms} : list instr * list instr * nat :=
           match ms with
           | [] => ([], [], nx0)
           | km :: ms' =>
             let '(k1, i1, n1) := plan me nx0 (snd km) in
             let '(k2, i2, n2) := go n1 ms' in
             (k1 ++ k2, i1 ++ member_instr me (snd km) :: i2, n2)
           end) (S next) ms in
      (INode h (tset_of name ms) :: ICtx (CEnter me) :: ks ++ [ICtx CLeave], is, nx)
    | MBroken _ _ => ([ICtx CFail], [], next)
    | _ => ([], [], next)
    end.

  (* px/context.go:118-129 *)
  Fixpoint phase1 (ts : list mtype) : list instr :=
    match ts with
    | [] => []
    | MSet _ _ _ :: ts' => phase1 ts'                                                  (* :121 kept for later *)
    | (MPlain name v | MObject name v _ _ | MBroken name v) :: ts' => IAct (ASet HL (tn_of ns_type name) v) :: phase1 ts'   (* :124 *)
    end.

  (* internal/context.go:242-254 (first answer) and :256-258 (second answer) *)
  Fixpoint phase2 (next : nat) (ts : list mtype) : list instr * list instr :=
    match ts with
    | [] => ([], [])
    | t :: ts' =>
      match t with
      | MSet _ _ _ =>                                                                  (* :243 rt.Resolve(c), :244 *)
        let '(ks, is, nx) := plan HL next t in
        let '(a, b) := phase2 nx ts' in (ks ++ a, is ++ b)
      | MObject name _ al ct =>                                                        (* :246 *)
        let '(a, b) := phase2 next ts' in (map IAct (construct HL name al ct) ++ a, b)
      | MBroken _ _ =>                                                                 (* :243 rt.Resolve(c) panics *)
        let '(a, b) := phase2 next ts' in (ICtx CFail :: a, b)
      | MPlain _ _ => phase2 next ts'
      end
    end.

  (* px/context.go:131-133 *)
  Fixpoint phase3 (ts : list mtype) : list instr :=
    match ts with
    | [] => []
    | MSet name v _ :: ts' => IAct (ASet HL (tn_of ns_type name) v) :: phase3 ts'
    | _ :: ts' => phase3 ts'
    end.

  Definition compile (ts : list mtype) : list instr :=
    phase1 ts ++ fst (phase2 0 ts) ++ snd (phase2 0 ts) ++ phase3 ts.

  (* The second public route by which names are defined: declarations.  px.RegisterResolvableType (types/types.go:561;
     px.NewObjectType, px.NewGoObjectType, px.NewGoType register what they make) appends to a list; the next
     pcore.Do / pcore.RootContext (internal/runtime.go:238, :255) calls resolveResolvables (internal/context.go:175) with a
     context that holds loader L:
       :180 l := c.Loader().(px.DefiningLoader); :181 ts := types.PopDeclaredTypes()
       :183 for _, rt := range ts { l.SetEntry(px.NewTypedName(px.NsType, rt.Name()), px.NewLoaderEntry(rt, nil)) }
     - every declared type, the type sets too, in the order of declaration, straight to SetEntry (no test that skips a
     name that is bound already: a declaration of a bound name is a re-definition like any other) - then
       :192 resolveTypes(c, ts...)
     which is `phase2` above.  A panic (AttemptToRedefine[Type], a rejected member) ends the call; the declarations
     have been popped and are gone. *)
  Definition mt_name (m : mtype) : str :=
    match m with MPlain n _ | MObject n _ _ _ | MSet n _ _ | MBroken n _ => n end.

  Fixpoint phase1_all (ts : list mtype) : list instr :=
    match ts with
    | [] => []
    | t :: ts' => IAct (ASet HL (tn_of ns_type (mt_name t)) (mt_val t)) :: phase1_all ts'          (* context.go:183 *)
    end.

  Definition compile_decl (ts : list mtype) : list instr :=
    phase1_all ts ++ fst (phase2 0 ts) ++ snd (phase2 0 ts).
End Compile.

(* ---------------------------------------------------------------------------------------------- *)
(* running the calls *)
Inductive aout := AOk | AErr (c : ecode) | AFault | AStuck | ABadLoader.

Definition aout_of (r : out) : aout :=
  match r with RErr c => AErr c | RStuck => AStuck | RBadLoader => ABadLoader | _ => AFault end.

Section Exec.
  Context {S : Type}.
  Variable stp : S -> op -> S * out.          (* one loader operation *)
  Variable addn : S -> lkind -> S * out.      (* a new loader *)
  Variable len : S -> nat.                    (* the number of loaders *)
  Variable L base : nat.                      (* the context's loader; the number of loaders when the call began *)

  Definition ref_idx (r : lref) : nat := match r with HL => L | HH k => base + k end.

  Definition exec_set (s : S) (r : lref) (n : tname) (v : val) : S * aout :=
    let '(s1, o) := stp s (ODefine (ref_idx r) n v) in
    (s1, match o with RDefined _ => AOk | _ => aout_of o end).

  Definition exec_act (s : S) (a : act) : S * aout :=
    match a with
    | ASet r n v => exec_set s r n v
    | AUnlessSet r n v =>
      let '(s1, o) := stp s (OLoadEntry (ref_idx r) n) in
      match o with
      | REntry (EVal _) => (s1, AOk)
      | REntry _ => exec_set s1 r n v
      | _ => (s1, aout_of o)
      end
    end.

  Fixpoint exec_acts (s : S) (acts : list act) : S * aout :=
    match acts with
    | [] => (s, AOk)
    | a :: acts' =>
      let '(s1, o) := exec_act s a in
      match o with AOk => exec_acts s1 acts' | _ => (s1, o) end
    end.

  Definition exec_instr (s : S) (i : instr) : S * aout :=
    match i with
    | IAct a => exec_act s a
    | INode p ts =>
      if Nat.ltb (ref_idx p) (len s) then
        let '(s1, o) := addn s (KTypeSet (ref_idx p) ts) in
        (s1, match o with RNew _ => AOk | _ => aout_of o end)
      else (s, ABadLoader)
    | IUnless r n body =>
      let '(s1, o) := stp s (OLoadEntry (ref_idx r) n) in
      match o with
      | REntry (EVal _) => (s1, AOk)
      | REntry _ => exec_acts s1 body
      | _ => (s1, aout_of o)
      end
    | ICtx c => (s, match c with CFail => AErr EOther | _ => AOk end)   (* nothing happens to the loaders *)
    end.

  Fixpoint exec (s : S) (is : list instr) : S * aout :=
    match is with
    | [] => (s, AOk)
    | i :: is' =>
      let '(s1, o) := exec_instr s i in
      match o with AOk => exec s1 is' | _ => (s1, o) end
    end.
End Exec.

(* ---------------------------------------------------------------------------------------------- *)
(* histories with px.AddTypes *)
Inductive xop :=
| XOp (o : op)
| XAddTypes (l : nat) (ts : list mtype)       (* px.AddTypes(c, ts...) with l as the context's loader *)
| XDeclare (l : nat) (ts : list mtype).       (* ts declared (px.RegisterResolvableType ...), then bound by resolveResolvables(c),
                                                 - what pcore.Do / pcore.RootContext do first - with l as the context's loader *)

Inductive xout := XR (r : out) | XA (a : aout).

Definition xstep (cfg : config) (st : lstate) (x : xop) : lstate * xout :=
  match x with
  | XOp o => let '(st', r) := step cfg st o in (st', XR r)
  | XAddTypes l ts =>
    if Nat.ltb l (length st) then
      let '(st', a) := exec (step cfg) add_node (@length lnode) l (length st) st (compile (cfg_auth cfg) ts) in
      (st', XA a)
    else (st, XA ABadLoader)
  | XDeclare l ts =>
    if Nat.ltb l (length st) then
      let '(st', a) := exec (step cfg) add_node (@length lnode) l (length st) st (compile_decl (cfg_auth cfg) ts) in
      (st', XA a)
    else (st, XA ABadLoader)
  end.

Fixpoint xrun_from (cfg : config) (st : lstate) (xs : list xop) : lstate * list xout :=
  match xs with
  | [] => (st, [])
  | x :: xs' =>
    let '(st1, r) := xstep cfg st x in
    let '(st2, rs) := xrun_from cfg st1 xs' in
    (st2, r :: rs)
  end.

Definition xrun (cfg : config) (xs : list xop) : lstate * list xout := xrun_from cfg (init_state cfg) xs.
Definition xouts (cfg : config) (xs : list xop) : list xout := snd (xrun cfg xs).

(* the same on the abstract specification *)
Definition spec_xstep (cfg : config) (a : astate) (x : xop) : astate * xout :=
  match x with
  | XOp o => let '(a', r) := spec_step cfg a o in (a', XR r)
  | XAddTypes l ts =>
    if Nat.ltb l (length a) then
      let '(a', r) := exec (spec_step cfg) spec_add (@length anode) l (length a) a (compile (cfg_auth cfg) ts) in
      (a', XA r)
    else (a, XA ABadLoader)
  | XDeclare l ts =>
    if Nat.ltb l (length a) then
      let '(a', r) := exec (spec_step cfg) spec_add (@length anode) l (length a) a (compile_decl (cfg_auth cfg) ts) in
      (a', XA r)
    else (a, XA ABadLoader)
  end.

Fixpoint spec_xrun_from (cfg : config) (a : astate) (xs : list xop) : astate * list xout :=
  match xs with
  | [] => (a, [])
  | x :: xs' =>
    let '(a1, r) := spec_xstep cfg a x in
    let '(a2, rs) := spec_xrun_from cfg a1 xs' in
    (a2, r :: rs)
  end.

Definition spec_xrun (cfg : config) (xs : list xop) : astate * list xout := spec_xrun_from cfg (spec_init cfg) xs.
Definition spec_xouts (cfg : config) (xs : list xop) : list xout := snd (spec_xrun cfg xs).

Definition xproject (r : xout) : xout := match r with XR o => XR (project o) | XA _ => r end.

(* ---------------------------------------------------------------------------------------------- *)
(* the domain: well-formed names and type sets *)
Definition act_name (a : act) : tname := match a with ASet _ n _ | AUnlessSet _ n _ => n end.
Definition act_ref (a : act) : lref := match a with ASet r _ _ | AUnlessSet r _ _ => r end.

Definition instr_wf (i : instr) : bool :=
  match i with
  | IAct a => tn_wf (norm (act_name a))
  | INode _ ts => ts_wf ts
  | IUnless _ n body => tn_wf (norm n) && forallb (fun a => tn_wf (norm (act_name a))) body
  | ICtx _ => true
  end.

(* every reference is to L or to a type-set loader made earlier by the same call: true of every `compile` output
   (Proofs/LoaderAddScoped.v compile_scoped) *)
Definition ref_ok (made : nat) (r : lref) : bool := match r with HL => true | HH k => Nat.ltb k made end.

Fixpoint scoped (made : nat) (is : list instr) : bool :=
  match is with
  | [] => true
  | IAct a :: is' => ref_ok made (act_ref a) && scoped made is'
  | INode p _ :: is' => ref_ok made p && scoped (S made) is'
  | IUnless r _ body :: is' => ref_ok made r && forallb (fun a => ref_ok made (act_ref a)) body && scoped made is'
  | ICtx c :: is' => match c with CEnter r => ref_ok made r | _ => true end && scoped made is'
  end.

Definition xop_wf (cfg : config) (x : xop) : bool :=
  match x with
  | XOp o => op_wf o
  | XAddTypes _ ts => forallb instr_wf (compile (cfg_auth cfg) ts)
  | XDeclare _ ts => forallb instr_wf (compile_decl (cfg_auth cfg) ts)
  end.

(* the kind of result every operation has: px.AddTypes ends normally, with one of the two redefinition errors, or
   with the error by which the resolution of one of the types was rejected (EOther) *)
Definition xout_ok (x : xop) (r : xout) : bool :=
  match x, r with
  | XOp o, XR r => out_ok o r
  | (XAddTypes _ _ | XDeclare _ _), XA (AOk | AErr ERedefine | AErr ERedefineType | AErr EOther | ABadLoader) => true
  | _, _ => false
  end.

(* decidable equality of results (for the correspondence check) *)
Definition aout_eqb (a b : aout) : bool :=
  match a, b with
  | AOk, AOk | AFault, AFault | AStuck, AStuck | ABadLoader, ABadLoader => true
  | AErr x, AErr y => ecode_eqb x y
  | _, _ => false
  end.
Definition xout_eqb (a b : xout) : bool :=
  match a, b with
  | XR x, XR y => out_eqb x y
  | XA x, XA y => aout_eqb x y
  | _, _ => false
  end.

(* the keys a program binds (when its guards let it) *)
Definition act_key (a : act) : str := map_key (norm (act_name a)).
Definition instr_keys (i : instr) : list str :=
  match i with
  | IAct a => [act_key a]
  | INode _ _ => []
  | IUnless _ _ body => map act_key body
  | ICtx _ => []
  end.
