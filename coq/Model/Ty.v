(* Ty.v — the type and value universes of the lattice model (C01–C04, C19).
   One constructor per Go type struct of /repo/types (fields as in the struct), for the fragment
   the theorems range over.  Types outside the fragment (Callable, Runtime, Iterator, Like, Init,
   TypeReference, Object, Alias, Timespan, Timestamp, SemVer, SemVerRange, URI) are `TOther` and are
   never sent to the model by the harness (the direct check on the implementation covers them). *)
From Coq Require Import ZArith NArith Bool List.
From PcoreV Require Import Model.Base.
Import ListNotations.
Open Scope Z_scope.

Inductive ty :=
| TAny | TUnit | TUndef | TDefault
| TBoolean (v : option bool)                 (* booleantype.go: value -1 / 0 / 1 *)
| TInteger (lo hi : Z)                       (* integertype.go: min, max (int64) *)
| TFloat (lo hi : Z)                         (* floattype.go: min, max as order keys (Base: fkey) *)
| TNumeric | TScalar | TScalarData
| TString                                    (* stringtype.go: stringType *)
| TStringSz (lo hi : Z)                      (* scStringType: size *)
| TStringVal (s : str)                       (* vcStringType: value *)
| TEnum (ci : bool) (vs : list str)          (* enumtype.go *)
| TPattern (rxs : list str)                  (* patterntype.go: regexp sources *)
| TRegexp (p : str)                          (* regexptype.go: pattern source, "" = any *)
| TBinary
| TCollection (lo hi : Z)
| TArray (e : ty) (lo hi : Z)
| THash (k v : ty) (lo hi : Z)
| TTuple (ts : list ty) (given : bool) (lo hi : Z)   (* tupletype.go: types, size != nil, givenOrActualSize *)
| TStruct (ms : list (str * (ty * ty)))      (* structtype.go: elements (name, key type, value type) *)
| TVariant (ts : list ty)
| TOptional (t : ty) | TNotUndef (t : ty)
| TType (t : ty) | TSensitive (t : ty)
| TOther (name : str).

Inductive value :=
| VUndef | VDefault
| VBool (b : bool)
| VInt (z : Z)
| VFloat (k : Z)                             (* order key of a non-NaN float *)
| VNaN
| VStr (s : str)
| VRegexp (p : str)
| VBinary (b : str)
| VArr (vs : list value)
| VHash (es : list (value * value))          (* entries in insertion order *)
| VType (t : ty)
| VSensitive (v : value)
| VOther (name : str).

(* ---- induction principles for the nested occurrences ---- *)

Section TyInd.
  Variable P : ty -> Prop.
  Hypothesis HAny : P TAny. Hypothesis HUnit : P TUnit. Hypothesis HUndef : P TUndef.
  Hypothesis HDefault : P TDefault.
  Hypothesis HBoolean : forall v, P (TBoolean v).
  Hypothesis HInteger : forall lo hi, P (TInteger lo hi).
  Hypothesis HFloat : forall lo hi, P (TFloat lo hi).
  Hypothesis HNumeric : P TNumeric. Hypothesis HScalar : P TScalar. Hypothesis HScalarData : P TScalarData.
  Hypothesis HString : P TString.
  Hypothesis HStringSz : forall lo hi, P (TStringSz lo hi).
  Hypothesis HStringVal : forall s, P (TStringVal s).
  Hypothesis HEnum : forall ci vs, P (TEnum ci vs).
  Hypothesis HPattern : forall rxs, P (TPattern rxs).
  Hypothesis HRegexp : forall p, P (TRegexp p).
  Hypothesis HBinary : P TBinary.
  Hypothesis HCollection : forall lo hi, P (TCollection lo hi).
  Hypothesis HArray : forall e lo hi, P e -> P (TArray e lo hi).
  Hypothesis HHash : forall k v lo hi, P k -> P v -> P (THash k v lo hi).
  Hypothesis HTuple : forall ts g lo hi, Forall P ts -> P (TTuple ts g lo hi).
  Hypothesis HStruct : forall ms, Forall (fun m => P (fst (snd m)) /\ P (snd (snd m))) ms -> P (TStruct ms).
  Hypothesis HVariant : forall ts, Forall P ts -> P (TVariant ts).
  Hypothesis HOptional : forall t, P t -> P (TOptional t).
  Hypothesis HNotUndef : forall t, P t -> P (TNotUndef t).
  Hypothesis HType : forall t, P t -> P (TType t).
  Hypothesis HSensitive : forall t, P t -> P (TSensitive t).
  Hypothesis HOther : forall n, P (TOther n).

  Fixpoint ty_ind' (t : ty) : P t :=
    match t with
    | TAny => HAny | TUnit => HUnit | TUndef => HUndef | TDefault => HDefault
    | TBoolean v => HBoolean v | TInteger lo hi => HInteger lo hi | TFloat lo hi => HFloat lo hi
    | TNumeric => HNumeric | TScalar => HScalar | TScalarData => HScalarData
    | TString => HString | TStringSz lo hi => HStringSz lo hi | TStringVal s => HStringVal s
    | TEnum ci vs => HEnum ci vs | TPattern rxs => HPattern rxs | TRegexp p => HRegexp p
    | TBinary => HBinary | TCollection lo hi => HCollection lo hi
    | TArray e lo hi => HArray e lo hi (ty_ind' e)
    | THash k v lo hi => HHash k v lo hi (ty_ind' k) (ty_ind' v)
    | TTuple ts g lo hi =>
        HTuple ts g lo hi ((fix go (l : list ty) : Forall P l :=
                              match l with [] => Forall_nil _ | x :: r => Forall_cons _ (ty_ind' x) (go r) end) ts)
    | TStruct ms =>
        HStruct ms ((fix go (l : list (str * (ty * ty))) : Forall (fun m => P (fst (snd m)) /\ P (snd (snd m))) l :=
                       match l with
                       | [] => Forall_nil _
                       | (n, (k, v)) :: r =>
                           @Forall_cons _ (fun m => P (fst (snd m)) /\ P (snd (snd m))) (n, (k, v)) r
                                        (conj (ty_ind' k) (ty_ind' v)) (go r)
                       end) ms)
    | TVariant ts =>
        HVariant ts ((fix go (l : list ty) : Forall P l :=
                        match l with [] => Forall_nil _ | x :: r => Forall_cons _ (ty_ind' x) (go r) end) ts)
    | TOptional t => HOptional t (ty_ind' t)
    | TNotUndef t => HNotUndef t (ty_ind' t)
    | TType t => HType t (ty_ind' t)
    | TSensitive t => HSensitive t (ty_ind' t)
    | TOther n => HOther n
    end.
End TyInd.

Section ValInd.
  Variable P : value -> Prop.
  Hypothesis HUndef : P VUndef. Hypothesis HDefault : P VDefault.
  Hypothesis HBool : forall b, P (VBool b). Hypothesis HInt : forall z, P (VInt z).
  Hypothesis HFloat : forall k, P (VFloat k). Hypothesis HNaN : P VNaN.
  Hypothesis HStr : forall s, P (VStr s). Hypothesis HRegexp : forall p, P (VRegexp p).
  Hypothesis HBinary : forall b, P (VBinary b).
  Hypothesis HArr : forall vs, Forall P vs -> P (VArr vs).
  Hypothesis HHash : forall es, Forall (fun e => P (fst e) /\ P (snd e)) es -> P (VHash es).
  Hypothesis HType : forall t, P (VType t).
  Hypothesis HSensitive : forall v, P v -> P (VSensitive v).
  Hypothesis HOther : forall n, P (VOther n).

  Fixpoint value_ind' (v : value) : P v :=
    match v with
    | VUndef => HUndef | VDefault => HDefault | VBool b => HBool b | VInt z => HInt z
    | VFloat k => HFloat k | VNaN => HNaN | VStr s => HStr s | VRegexp p => HRegexp p
    | VBinary b => HBinary b
    | VArr vs => HArr vs ((fix go (l : list value) : Forall P l :=
                             match l with [] => Forall_nil _ | x :: r => Forall_cons _ (value_ind' x) (go r) end) vs)
    | VHash es => HHash es ((fix go (l : list (value * value)) : Forall (fun e => P (fst e) /\ P (snd e)) l :=
                               match l with
                               | [] => Forall_nil _
                               | (k, x) :: r =>
                                   @Forall_cons _ (fun e => P (fst e) /\ P (snd e)) (k, x) r
                                                (conj (value_ind' k) (value_ind' x)) (go r)
                               end) es)
    | VType t => HType t
    | VSensitive x => HSensitive x (value_ind' x)
    | VOther n => HOther n
    end.
End ValInd.

(* ---- sizes (the termination measure of assignability: see Lattice.v) ---- *)

Fixpoint tsize (t : ty) : nat :=
  match t with
  | TScalar | TScalarData => 2
  | TArray e _ _ => S (tsize e)
  | THash k v _ _ => S (tsize k + tsize v)
  | TTuple ts _ _ _ => S (fold_right (fun x n => tsize x + n)%nat O ts)
  | TStruct ms => S (fold_right (fun m n => S (tsize (fst (snd m)) + tsize (snd (snd m)) + n))%nat O ms)
  | TVariant ts => S (fold_right (fun x n => tsize x + n)%nat O ts)
  | TOptional t | TNotUndef t | TType t | TSensitive t => S (tsize t)
  | _ => 1
  end.

(* ---- well-formedness: what the Go constructors guarantee ---- *)

(* a size is an IntegerType{min,max} used as a collection/string size: 0 <= min *)
Definition lower_ascii_byte (b : N) : N := if (N.leb 65 b && N.leb b 90)%bool then (b + 32)%N else b.
Definition lower_ascii (s : str) : str := map lower_ascii_byte s.

(* number of runes of a VALID UTF-8 string: bytes that are not continuation bytes 0x80..0xBF.
   (utf8.RuneCountInString; for invalid UTF-8 Go counts each invalid byte as one rune, which this
   definition does not model: the harness sends only valid UTF-8 to the model.) *)
Definition rune_count (s : str) : Z :=
  Z.of_nat (length (filter (fun b => (N.ltb b 128 || N.leb 192 b)%bool) s)).

