(* Pb.v — executable model of the protobuf transport of pcore and of the collector that rebuilds values:
     proto/convert.go          ToPBData, FromPBData, ConsumePBData, protoConsumer
     types/basiccollector.go   BasicCollector (events -> value, back-references resolved)
   One definition per Go function, Go file:line in the comments.  A *datapb.Data message is the inductive
   `pb` (the oneof `kind` of data.proto); the wire encoding itself is the protobuf runtime's and is not
   modelled (the direct check runs it). *)
From Coq Require Import ZArith NArith Bool List.
From PcoreV Require Import Model.Base Model.Json.
Import ListNotations.
Open Scope Z_scope.

(* pcore values as far as the transports distinguish them *)
Inductive value :=
| VUndef
| VBool (b : bool)
| VInt (z : Z)
| VFloat (bits : Z)
| VStr (s : str)
| VArr (l : list value)
| VHash (es : list (value * value))     (* entries in order; types.WrapHash does not de-duplicate *)
| VBin (b : list N)                     (* *types.Binary: not Data *)
| VOther.                               (* anything else: not Data *)

(* *datapb.Data *)
Inductive pb :=
| PbNil                                 (* a nil *datapb.Data *)
| PbNoKind                              (* &datapb.Data{} : Kind == nil *)
| PbBool (b : bool)
| PbFloat (bits : Z)
| PbInt (z : Z)
| PbStr (s : str)
| PbUndef
| PbArr (l : list pb)
| PbHash (es : list (pb * pb))
| PbBin (b : list N)
| PbRef (n : Z).

Fixpoint value_eqb (a b : value) {struct a} : bool :=
  match a, b with
  | VUndef, VUndef | VOther, VOther => true
  | VBool x, VBool y => Bool.eqb x y
  | VInt x, VInt y | VFloat x, VFloat y => Z.eqb x y
  | VStr x, VStr y | VBin x, VBin y => str_eqb x y
  | VArr x, VArr y =>
      (fix go (l1 l2 : list value) {struct l1} : bool :=
         match l1, l2 with
         | [], [] => true
         | u :: l1', v :: l2' => value_eqb u v && go l1' l2'
         | _, _ => false
         end) x y
  | VHash x, VHash y =>
      (fix go (l1 l2 : list (value * value)) {struct l1} : bool :=
         match l1, l2 with
         | [], [] => true
         | (k1, v1) :: l1', (k2, v2) :: l2' => value_eqb k1 k2 && value_eqb v1 v2 && go l1' l2'
         | _, _ => false
         end) x y
  | _, _ => false
  end.

Fixpoint pb_eqb (a b : pb) {struct a} : bool :=
  match a, b with
  | PbNil, PbNil | PbNoKind, PbNoKind | PbUndef, PbUndef => true
  | PbBool x, PbBool y => Bool.eqb x y
  | PbFloat x, PbFloat y | PbInt x, PbInt y | PbRef x, PbRef y => Z.eqb x y
  | PbStr x, PbStr y | PbBin x, PbBin y => str_eqb x y
  | PbArr x, PbArr y =>
      (fix go (l1 l2 : list pb) {struct l1} : bool :=
         match l1, l2 with
         | [], [] => true
         | u :: l1', v :: l2' => pb_eqb u v && go l1' l2'
         | _, _ => false
         end) x y
  | PbHash x, PbHash y =>
      (fix go (l1 l2 : list (pb * pb)) {struct l1} : bool :=
         match l1, l2 with
         | [], [] => true
         | (k1, v1) :: l1', (k2, v2) :: l2' => pb_eqb k1 k2 && pb_eqb v1 v2 && go l1' l2'
         | _, _ => false
         end) x y
  | _, _ => false
  end.

(* ---------------------------------------------------------------------------------------------- *)
(* proto/convert.go:84 ToPBData: type switch Boolean, Float, Integer, StringValue, UndefValue, Array, Hash,
   Binary, default *)
Fixpoint to_pb (v : value) : pb :=
  match v with
  | VBool b => PbBool b                                              (* :86 *)
  | VFloat f => PbFloat f                                            (* :88 *)
  | VInt z => PbInt z                                                (* :90 *)
  | VStr s => PbStr s                                                (* :92 *)
  | VUndef => PbUndef                                                (* :94 *)
  | VArr l => PbArr (map to_pb l)                                    (* :96 *)
  | VHash es => PbHash (map (fun kv => (to_pb (fst kv), to_pb (snd kv))) es)    (* :102 *)
  | VBin b => PbBin b                                                (* :109 *)
  | VOther => PbUndef                                                (* :111 default *)
  end.

(* the same for the scalar handed to protoConsumer.Add (:64  pc.add(ToPBData(v))) *)
Definition scalar_pb (s : scalar) : pb :=
  match s with
  | SUndef => PbUndef
  | SBool b => PbBool b
  | SInt z => PbInt z
  | SFloat f => PbFloat f
  | SStr x => PbStr x
  | SBin b => PbBin b
  | SOther => PbUndef
  end.

(* `for i, elem := range av { vs[i] = f(elem) }` with a callee that may fault *)
Definition mapM_gen {A B} (f : A -> res B) :=
  fix go (l : list A) {struct l} : res (list B) :=
    match l with
    | [] => Ok []
    | x :: l' => let* y := f x in let* ys := go l' in Ok (y :: ys)
    end.

(* proto/convert.go:155 FromPBData: switch v.Kind.(type); a nil message faults on v.Kind; there is no arm
   for BinaryValue nor Reference (default: Undef) *)
Fixpoint from_pb (d : pb) : res value :=
  match d with
  | PbNil => Fault                                                   (* :156 nil pointer dereference *)
  | PbBool b => Ok (VBool b)
  | PbFloat f => Ok (VFloat f)
  | PbInt z => Ok (VInt z)
  | PbStr s => Ok (VStr s)
  | PbUndef => Ok VUndef
  | PbArr l =>                                                       (* :167 *)
      let* vs := mapM_gen from_pb l in Ok (VArr vs)
  | PbHash es =>                                                     (* :174 *)
      let* vs := mapM_gen (fun kx => let* kv := from_pb (fst kx) in let* xv := from_pb (snd kx) in Ok (kv, xv)) es in
      Ok (VHash vs)
  | PbNoKind | PbBin _ | PbRef _ => Ok VUndef                       (* :181 default *)
  end.

(* proto/convert.go:119 ConsumePBData: the call made on the consumer *)
Fixpoint consume_pb (d : pb) : res ev :=
  match d with
  | PbNil => Fault                                                   (* :120 nil pointer dereference *)
  | PbBool b => Ok (EAdd (SBool b))
  | PbFloat f => Ok (EAdd (SFloat f))
  | PbInt z => Ok (EAdd (SInt z))
  | PbStr s => Ok (EAdd (SStr s))
  | PbUndef => Ok (EAdd SUndef)
  | PbArr l =>                                                       (* :131 *)
      let* es := mapM_gen consume_pb l in Ok (EArr es)
  | PbHash es =>                                                     (* :138 key, value, key, value, ... *)
      let* ps := mapM_gen (fun kx => let* ke := consume_pb (fst kx) in let* xe := consume_pb (snd kx) in Ok (ke, xe)) es in
      Ok (EHash (flat_map (fun p => [fst p; snd p]) ps))
  | PbBin b => Ok (EAdd (SBin b))                                    (* :146 *)
  | PbRef n => Ok (ERef n)                                           (* :148 *)
  | PbNoKind => Ok (EAdd SUndef)                                     (* :150 default *)
  end.

(* ---------------------------------------------------------------------------------------------- *)
(* proto/convert.go:18 protoConsumer.  The stack of partially built containers; the head of the list is
   the top of the Go slice-of-slices (len(pc.stack)-1). *)

(* :79 add *)
Definition pc_add (d : pb) (stack : list (list pb)) : res (list (list pb)) :=
  match stack with
  | top :: rest => Ok ((top ++ [d]) :: rest)
  | [] => Fault
  end.

(* :55-59 the pairing loop of AddHash: vs[i/2] = {els[i], els[i+1]}; an odd count indexes out of range *)
Fixpoint pair_up {A} (els : list A) : res (list (A * A)) :=
  match els with
  | [] => Ok []
  | k :: v :: r => let* ps := pair_up r in Ok ((k, v) :: ps)
  | [_] => Fault
  end.

Definition pc_seq (f : list (list pb) -> ev -> res (list (list pb))) :=
  fix go (stack : list (list pb)) (l : list ev) {struct l} : res (list (list pb)) :=
    match l with
    | [] => Ok stack
    | x :: l' => let* s1 := f stack x in go s1 l'
    end.

Fixpoint pc_ev (stack : list (list pb)) (e : ev) {struct e} : res (list (list pb)) :=
  match e with
  | EAdd s => pc_add (scalar_pb s) stack                             (* :63 Add *)
  | ERef n => pc_add (PbRef n) stack                                 (* :67 AddRef *)
  | EArr l =>                                                        (* :39 AddArray *)
      let* s1 := pc_seq pc_ev ([] :: stack) l in                     (* push; doer() *)
      match s1 with
      | els :: rest => pc_add (PbArr els) rest                       (* els := pc.stack[top]; pop; add *)
      | [] => Fault
      end
  | EHash l =>                                                       (* :48 AddHash *)
      let* s1 := pc_seq pc_ev ([] :: stack) l in
      match s1 with
      | els :: rest => let* ps := pair_up els in pc_add (PbHash ps) rest
      | [] => Fault
      end
  end.

(* :71 Value(): bs := pc.stack[0]; first element or nil *)
Definition pc_value (stack : list (list pb)) : res pb :=
  match stack with
  | [bs] => match bs with d :: _ => Ok d | [] => Ok PbNil end
  | _ => Fault
  end.

(* NewProtoConsumer, one top-level call, Value() *)
Definition pc_run (e : ev) : res pb :=
  let* s := pc_ev [[]] e in pc_value s.

(* ---------------------------------------------------------------------------------------------- *)
(* types/basiccollector.go: BasicCollector.  `values` holds every value added so far, by position (what
   AddRef refers to); a container is entered there when it is opened (the Go code stores the pointer to the
   array/hash under construction, :26, :38) — here `None` until it is complete.  A reference to a container
   that is still open would make a cyclic value: `Err` in the model (never produced for Data, which is
   acyclic). *)

Record cstate := mkC { cvalues : list (option value); cstack : list (list value) }.

Definition c_push (v : value) (stack : list (list value)) : res (list (list value)) :=
  match stack with
  | top :: rest => Ok ((top ++ [v]) :: rest)
  | [] => Fault
  end.

Fixpoint set_nth {A} (n : nat) (x : A) (l : list A) : list A :=
  match l, n with
  | [], _ => []
  | _ :: r, O => x :: r
  | y :: r, S n' => y :: set_nth n' x r
  end.

Definition c_seq (f : cstate -> ev -> res cstate) :=
  fix go (c : cstate) (l : list ev) {struct l} : res cstate :=
    match l with
    | [] => Ok c
    | x :: l' => let* c1 := f c x in go c1 l'
    end.

Fixpoint c_ev (c : cstate) (e : ev) {struct e} : res cstate :=
  match e with
  | EAdd s =>                                                        (* :53 Add *)
      let v := match s with
               | SUndef => VUndef | SBool b => VBool b | SInt z => VInt z | SFloat f => VFloat f
               | SStr x => VStr x | SBin b => VBin b | SOther => VOther
               end in
      let* st := c_push v (cstack c) in
      Ok (mkC (cvalues c ++ [Some v]) st)
  | ERef n =>                                                        (* :59 AddRef: hm.values[ref] *)
      if (n <? 0) || (Z.of_nat (length (cvalues c)) <=? n) then Fault
      else match nth (Z.to_nat n) (cvalues c) None with
           | Some v => let* st := c_push v (cstack c) in Ok (mkC (cvalues c) st)
           | None => Err
           end
  | EArr l =>                                                        (* :24 AddArray *)
      let p := length (cvalues c) in
      let* c1 := c_seq c_ev (mkC (cvalues c ++ [None]) ([] :: cstack c)) l in
      match cstack c1 with
      | els :: rest =>
          let v := VArr els in
          let* st := c_push v rest in
          Ok (mkC (set_nth p (Some v) (cvalues c1)) st)
      | [] => Fault
      end
  | EHash l =>                                                       (* :36 AddHash *)
      let p := length (cvalues c) in
      let* c1 := c_seq c_ev (mkC (cvalues c ++ [None]) ([] :: cstack c)) l in
      match cstack c1 with
      | els :: rest =>
          let* ps := pair_up els in                                  (* :47 st[i], st[i+1] *)
          let v := VHash ps in
          let* st := c_push v rest in
          Ok (mkC (set_nth p (Some v) (cvalues c1)) st)
      | [] => Fault
      end
  end.

(* NewCollector, one top-level call, Value() = hm.stack[0][0] (:90) *)
Definition collect (e : ev) : res value :=
  let* c := c_ev (mkC [] [[]]) e in
  match cstack c with
  | [v :: _] => Ok v
  | _ => Fault
  end.

(* ---------------------------------------------------------------------------------------------- *)
(* specification-level definitions *)

(* the events of a value, without de-duplication *)
Definition scalar_of_value (v : value) : scalar :=
  match v with
  | VBool b => SBool b | VInt z => SInt z | VFloat f => SFloat f | VStr s => SStr s
  | VBin b => SBin b | VOther => SOther | _ => SUndef
  end.

Fixpoint events_of (v : value) : ev :=
  match v with
  | VArr l => EArr (map events_of l)
  | VHash es => EHash (flat_map (fun kv => [events_of (fst kv); events_of (snd kv)]) es)
  | _ => EAdd (scalar_of_value v)
  end.

(* Data as far as the protobuf conversion is concerned: no Binary, nothing foreign *)
Fixpoint is_data (v : value) : bool :=
  match v with
  | VBin _ | VOther => false
  | VArr l => forallb is_data l
  | VHash es => forallb (fun kv => is_data (fst kv) && is_data (snd kv)) es
  | _ => true
  end.

(* every hash has an even number of children: what any consumer is entitled to *)
Fixpoint even_hashes (e : ev) : bool :=
  match e with
  | EArr l => forallb even_hashes l
  | EHash l => Nat.even (length l) && forallb even_hashes l
  | _ => true
  end.

(* the message has no slot for a foreign value: it travels as undef *)
Fixpoint pb_image (e : ev) : ev :=
  match e with
  | EAdd SOther => EAdd SUndef
  | EArr l => EArr (map pb_image l)
  | EHash l => EHash (map pb_image l)
  | _ => e
  end.

Fixpoint ref_free (e : ev) : bool :=
  match e with
  | ERef _ => false
  | EArr l | EHash l => forallb ref_free l
  | _ => true
  end.

(* consecutive pairs (k, v) of an even list *)
Fixpoint pairs {A} (l : list A) : list (A * A) :=
  match l with
  | k :: v :: r => (k, v) :: pairs r
  | _ => []
  end.

(* the message a tree of calls denotes (every hash even) *)
Fixpoint pb_of_ev (e : ev) : pb :=
  match e with
  | EAdd s => scalar_pb s
  | ERef n => PbRef n
  | EArr l => PbArr (map pb_of_ev l)
  | EHash l => PbHash (pairs (map pb_of_ev l))
  end.

(* the value a reference-free tree of calls denotes (every hash even) *)
Definition value_of_scalar (s : scalar) : value :=
  match s with
  | SUndef => VUndef | SBool b => VBool b | SInt z => VInt z | SFloat f => VFloat f
  | SStr x => VStr x | SBin b => VBin b | SOther => VOther
  end.

Fixpoint value_of_ev (e : ev) : value :=
  match e with
  | EAdd s => value_of_scalar s
  | ERef _ => VUndef
  | EArr l => VArr (map value_of_ev l)
  | EHash l => VHash (pairs (map value_of_ev l))
  end.

(* what the JSON transport can carry of a value (cf. json_image): a string as valid UTF-8, a Binary or a foreign
   value as undef *)
Fixpoint vimage (v : value) : value :=
  match v with
  | VStr s => VStr (utf8_coerce s)
  | VBin _ | VOther => VUndef
  | VArr l => VArr (map vimage l)
  | VHash es => VHash (map (fun kv => (vimage (fst kv), vimage (snd kv))) es)
  | _ => v
  end.

Definition res_map {A B} (f : A -> B) (r : res A) : res B :=
  match r with Ok a => Ok (f a) | Err => Err | Fault => Fault | OutOfFuel => OutOfFuel end.
